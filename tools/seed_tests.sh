#!/bin/bash
# usage: tools/seed_tests.sh <patch.diff> <pytest targets...> : run the given existing tests on a scratch copy of /repo with the patch applied
P="$1"; shift
D=$(/verif/tools/scratch.sh tests_$$)
cd "$D" && patch -p1 -s < "$P" || { echo "patch does not apply"; rm -rf "$D"; exit 2; }
PYTHONPATH="$D:/verif/shims" RENO_LOG_LEVEL=40 timeout 3000 /venv/bin/python -m pytest -q -p no:cacheprovider --timeout=900 "$@" 2>&1 | tail -4
rm -rf "$D"
