#!/bin/bash
# usage: tools/process_seed.sh <Cxx> <k> [tier]  : confirm mutant k of /tmp/seed/<Cxx> on a scratch copy, then run the property's check against it
PID="$1"; K="$2"; TIER="${3:-quick}"
WT=/tmp/seed/$PID
mkdir -p /tmp/seed/results
{
echo "### $PID mutant $K"
/verif/tools/confirm_seed.sh "$WT" "$K" || echo "NOT CONFIRMED"
LINES_MAX=10 /verif/tools/try_seed.sh "$WT/_mut/$K/patch.diff" "$PID" "$TIER" 2>&1 | cut -c1-330
} > /tmp/seed/results/${PID}_$K.log 2>&1
