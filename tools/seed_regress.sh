#!/bin/bash
# every saved seed: does the patch still apply to the current /repo, and does the property's quick check still report a violation?
cd /verif
for d in seeded/*/; do
  id=$(basename $d); pid=$(python3 -c "import json;print(json.load(open('$d/meta.json'))['property'])")
  D=$(tools/scratch.sh reg_$$)
  if ! (cd $D && patch -p1 -s --dry-run < /verif/$d/patch.diff > /dev/null 2>&1); then echo "$id $pid PATCH-DOES-NOT-APPLY"; rm -rf $D; continue; fi
  (cd $D && patch -p1 -s < /verif/$d/patch.diff)
  VERIF_REPO=$D ./check $pid --tier quick > /tmp/reg_$$.log 2>&1; rc=$?
  echo "$id $pid rc=$rc $(grep -c '^VIOLATION' /tmp/reg_$$.log) violation-lines; first: $(grep -m1 'violated obligation' /tmp/reg_$$.log | cut -c1-110)"
  rm -rf $D /tmp/reg_$$.log
done
