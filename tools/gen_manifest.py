#!/usr/bin/env python3
"""Regenerates MANIFEST.json from the table below (kept in one place so that it is always schema-valid)."""
import json
import os

HERE = os.path.dirname(os.path.dirname(os.path.abspath(__file__)))
BASE_NOTE = ("Trusted: NumPy/SciPy/LAPACK/opt_einsum; CPython semantics of the pyvc subset as encoded; machine arithmetic treated "
             "as mathematical in the deductive engines; cited lemmas listed in evidence.trusted_base; sidecar contracts in /verif/contracts.")

CHECKS = {
    "C19": dict(cat="proof", ref="DESIGN §8 C19",
                text="Plus two closed checks on the real objects: the tableau delivered through EvolveConfig (every method x adaptive on/off) satisfies the conditions of the order it advertises, and the derived expansion is unaffected by in-place changes of an earlier result. Every obligation (94 Butcher order conditions, row sums, lower-triangularity, stage-polynomial identity, Taylor "
                     "coefficients) is generated from the current source of rk.py by exact symbolic execution and discharged by z3; "
                     "complete for the ten shipped methods.",
                technique="contract-based deductive verification: exact symbolic execution of the real source + z3 (ground rational and NRA obligations)",
                note=BASE_NOTE + " Float literals are read as the decimals written; a closed 1-ulp link check ties them to the runtime doubles."),
    "C20": dict(cat="proof", ref="DESIGN §8 C20, App. A.1",
                text="Koenig construction (new_konig inside bipartite_vertex_cover) verified for all graphs by VC generation over the real source "
                     "with loop invariants (z3): result is a cover with exactly one selected endpoint per matching edge and every selected vertex "
                     "matched; the step to 'minimum' (counting lemma + weak duality) is machine-checked by Lean 4 + Mathlib on every run "
                     "(lemmas/Konig.lean); asserts never fire when no augmenting path exists. The Hungarian matching producer is under contract "
                     "itself (recursive augment by its own contract, max_bipartite_matching2, and bipartite_vertex_cover for algo='Hungarian' with "
                     "nothing abstracted; 237 obligations in all); only SciPy's Hopcroft-Karp stays an assumed contract, monitored by an "
                     "exhaustive bounded run (all graphs up to 3x3 / 4x4, both algorithms, brute-force minimum).",
                technique="contract-based deductive verification: pyvc (ast -> weakest-precondition VCs with loop invariants, recursion by contract) discharged by z3/cvc5; "
                          "Lean 4 + Mathlib for the counting lemmas; bounded runtime contracts as labelled stand-in",
                note=BASE_NOTE + " Assumed: scipy maximum_bipartite_matching returns a matching; termination not proved."),
}

OTHER_NOTE = BASE_NOTE + " Numeric clauses are runtime contracts against independent dense references on bounded inputs (labelled bounded, never counted as proved)."
CHECKS.update({
    "C03": dict(cat="other", ref="DESIGN §8 C03, App. A.4",
                text="Also bounded: single product operators (hopping terms of bond dimension one) applied and used further, the overlap modulus (angle), bra-ket pairs with prefactors. The lemma that QN-valid labels confine the dense object to the sector qntot is mechanised (inductions over the site index discharged by z3), not cited. "
                     "move_qnidx proved to preserve the QN-valid invariant for all sizes/labels/tensor contents (pyvc, z3); all arithmetic contracts "
                     "(dense sum/product/adjoint/overlap, QN-valid result, correct after later canonicalise/compress, operands untouched) evaluated on "
                     "bounded-exhaustive gauge histories against an independent dense contraction.",
                technique="contract-based deductive verification (pyvc VCs with loop invariants, z3) for the label bookkeeping; runtime contracts on the real methods as bounded stand-in",
                note=OTHER_NOTE),
    "C04": dict(cat="other", ref="DESIGN §8 C04, App. A.3",
                text="Also bounded: default-start variational compression of an operator wider than the start size (converges; operator and state untouched). Variational compression (Engine S): with the renormalised-basis update recorded, every local tensor handed to it equals mask * K^H (O psi) for the frames K of the guess at that moment, one update per site in sweep order, each posed in the guess the previous one produced; state and operator unchanged. "
                     "canonicalise's sweep/centre/direction discipline proved for all chain lengths and stop sites from the current source (pyvc: loop invariant, "
                     "inlined iter_idx_list/_switch_direction, _push_cano by contract); Engine S kernel-stub mode: canonicalise / ensure_* / partial sweeps / lossless compress "
                     "around trivially factorised blocks leave the represented object and the labels unchanged for all tensor values (states, sums, operator images, operators, "
                     "density operators; 2000+ obligations); which entry of a per-bond limit list applies to the bond cut at a site (mechanical "
                     "slice of the sweep loop of compress, all inputs); counter-models are replayed on the real methods; dense preservation, isometries, bond bounds, lossless compress and "
                     "variational compression are runtime contracts on bounded inputs.",
                technique="contract-based deductive verification (pyvc, z3) of the index discipline; runtime contracts as bounded stand-in for the numeric clauses",
                note=OTHER_NOTE + " Assumed contract: _push_cano moves the centre by one site and keeps the dense object."),
    "C05": dict(cat="other", ref="DESIGN §8 C05, App. A.2",
                text="Tree compression: compress_recursion (tn/tree.py) as a whole function on the shape abstraction with the recursive call by its own contract and a ghost subtree relation under the tree axioms: every bond below the start node obeys its own limit and nothing else changes, for every tree (62 obligations; pyvc: enumerate loops, recursion). "
                     "Engine S kernel-stub mode: which entry of a per-bond / per-node limit applies to the bond being cut is decided for all tensor values by probes (limit 1 everywhere "
                     "except on the cut bond; limits equal to the current bond dimensions) through the real chain two-site update, tree compress and tree update_2site. "
                     "MatrixProduct.compress as a whole (re-extracted from the current source on the shape abstraction, _update_ms and compute_m_trunc by contract, "
                     "iter_idx_list / _switch_direction inlined) proved for every chain length and both directions: every interior bond is cut once and obeys its own limit "
                     "(list, integer or configured max_dims), the sweep ends switched. "
                     "Kept-count functions (_fixed_m_trunc, _threshold_m_trunc, compute_m_trunc) proved for all inputs: result <= available singular values and <= "
                     "the limit of the bond the caller truncates; induction lemmas for the threshold count; structural link to the call sites; Eckart-Young / "
                     "TT-SVD sandwich against dense SVD spectra as runtime contracts (chains incl. degenerate spectra and non-uniform limits).",
                technique="contract-based deductive verification (pyvc, z3; call by contract; induction lemmas) + theorem-derived runtime contracts as bounded stand-in",
                note=OTHER_NOTE + " Cited lemmas: Eckart-Young, TT-SVD quasi-optimality. Assumed: scipy.linalg.norm >= 0."),
    "C06": dict(cat="other", ref="DESIGN §8 C06",
                text="Also bounded: TTNS product states from a condition on multi-dof nodes, Mps.ground_state reference states. QN-valid labels imply that every non-zero product term carries total charge qntot: mechanised as z3 inductions over the site index (prefix / suffix sums, closing step at the centre) for every chain length, centre, label table and support. "
                     "QN-valid representation invariant: proved preserved by move_qnidx for all sizes (pyvc); decided exactly by Engine S, for all tensor values per enumerated "
                     "shape, for sums / differences / operator images incl. charged operators (sector shift) / adjoints and, in kernel-stub mode, for canonicalise, ensure_*, "
                     "partial sweeps and lossless compression of states, operators and density operators; audited after every step of random operation histories "
                     "(all live objects), for every sector of every model incl. extreme ones, constructors, DMRG and evolution steps.",
                technique="contract-based deductive verification (pyvc, z3) of the centre move; exact symbolic execution (Engine S) of the label bookkeeping of arithmetic and gauge "
                          "moves; representation-invariant runtime contracts over bounded histories (bounded stand-in)",
                note=OTHER_NOTE),
    "C01": dict(cat="other", ref="DESIGN §8 C01, S.2",
                text="Engine S: the real construct_symbolic_mpo (both graph algorithms) is executed with indeterminate coefficients; the symbolic operator multiplied "
                     "out equals sum_r x_r word_r exactly, i.e. for all coefficient values per enumerated term structure. Runtime contracts on the whole pipeline over "
                     "seeded term tables and model mixes: formal-sum equality, dense equality with an independent Kronecker sum minus offset for all three algorithms "
                     "(QR is value-pivoting and stays bounded-only), QN-valid labels and charge, adjacent-site swaps equal permutation similarity.",
                technique="exact symbolic execution of the real constructor on indeterminate coefficients (normal-form decision) + contracts (formal-sum invariant, dense "
                          "postcondition) evaluated at run time on the real construction functions (bounded stand-in)",
                note=OTHER_NOTE),
    "C02": dict(cat="other", ref="DESIGN §8 C02, App. A.8",
                text="Also bounded: oscillator-only trees (same class and size, different parameters on one node) with a full vibrational Hamiltonian. approximate_partition proved for all inputs (pyvc: consecutive covering slices incl. the floor-division fact) so the partition-based tree "
                     "constructors keep every basis set once; TTNO construction checked by runtime contracts (independent tree contraction == dense sum == chain MPO, "
                     "QN-valid, topology independence) over enumerated tree shapes, groupings, dummy placements and the named constructors; Engine S: "
                     "construct_symbolic_ttno executed with indeterminate coefficients on every rooted ordered tree shape of the universe (exact, all coefficient values).",
                technique="contract-based deductive verification (pyvc, z3) of approximate_partition; exact symbolic execution of construct_symbolic_ttno on indeterminate "
                          "coefficients; runtime contracts as bounded stand-in for the numeric construction",
                note=OTHER_NOTE + " print_tree shim is part of the trusted base; complex operators are outside TTNO's documented domain."),
    "C07": dict(cat="other", ref="DESIGN §8 C07",
                text="Also bounded: a second measurement after an in-place change of the measured object. Exact symbolic execution of the real expectation / expectations code decides, per enumerated shape and operator list, that the cached fast path, "
                     "the one-by-one path and the dense sesquilinear form are the same polynomial (all tensor values, bra != ket), and that the one- and two-site RDMs of states and "
                     "density operators are the partial traces of psi psi^+ / A A^+; occupations, the electronic RDM and entropies are "
                     "runtime contracts against the dense vector.",
                technique="contracts decided exactly by symbolic execution of the real code (polynomial identities) + runtime contracts as bounded stand-in",
                note=OTHER_NOTE + " Shims of the symbolic runs are listed in evidence."),
    "C08": dict(cat="other", ref="DESIGN §8 C08, S.2",
                text="Also: state-averaged sweeps (several roots) and StackedMpo Hamiltonians in the sweep contract; bounded cases with StackedMpo operators, omega targeting on operators that differ from their model's own Hamiltonian, and on-the-fly swapping switched on (the optimiser contract of C17). Call by contract at the local eigensolver: with gs.eigh_direct replaced by a recording stub that returns an arbitrary eigenvector, the real single_sweep (1site / 2site, both directions, with and without the target omega) poses one eigenproblem per site in sweep order, each matrix equals J^H H J (resp. J^H (H-omega)^2 J) for the frames of the state held at that moment, each problem is posed in the state the previous update produced, the reported energies are the eigensolver's and the state handed back carries the eigenvector of the requested site - exact for all tensor values. The same on trees (tn.gs.optimize_ttns on every tree shape: two-site problem on every bond around every subtree; stub at eigh_iterative). A numeric pass with the real kernels adds what the stubs cannot decide: the frames of every local problem are orthonormal (bounded). "
                     "Engine S kernel-stub mode: the renormalised-basis update of the two-site algorithm (_update_mps: svd_qn -> compute_m_trunc -> select_basis -> write back), single root with "
                     "and without the per-sector perturbation and state-averaged (every root reproduced by the kept basis), loses nothing and keeps the labels valid for all tensor values. "
                     "Engine S: for symbolic chain states (any tensors) the matrix the optimiser diagonalises at every site (1-site) and every pair of sites (2-site) - "
                     "environments from the real Environ.GetLR, the real get_ham_direct, with and without the omega target, plus the preconditioner diagonal of get_ham_iterative - "
                     "equals J^H H J (resp. J^H H^2 J), the Hamiltonian projected onto the symmetry-allowed entries of the optimised tensor, exactly. "
                     "Variational-theorem contracts against exact diagonalisation of the sector-projected dense Hamiltonian: every reported energy is an upper bound "
                     "(k-th root vs k-th eigenvalue), exact at sufficient bond dimension, returned states normalised / in sector / QN-valid, omega targeting; bounded.",
                technique="exact symbolic execution of the effective-Hamiltonian construction (projection identity, all environments); runtime contracts derived from the "
                          "variational theorem on the real optimiser over bounded inputs (bounded stand-in for the eigensolver / convergence clauses)",
                note=OTHER_NOTE),
    "C09": dict(cat="other", ref="DESIGN §8 C09, S.2",
                text="Also bounded: the documented switches of the variational schemes (force_ovlp off/on at tight solver tolerances, CMF trapezoidal / no mid-point) and backward propagation (negative real step) for every scheme and both local solvers. Call by contract at the local propagator: with expm_krylov / solve_ivp replaced by recording stubs that return arbitrary vectors, the real _evolve_tdvp_ps and _evolve_tdvp_ps2 pose exactly the local problems of the projector-splitting integrator - schedule, generator x time = -+i dt/2 J^H H J against an independent frame contraction, start vector, continuity - exact polynomial identities for all states and all kernel results of the enumerated shapes, Krylov and ODE form, replayed natively with the real kernels. "
                     "Engine S (kernel-stub mode): the real _evolve_prop_and_compress (Taylor orders 1..7), _tdrk4 and _tdrk (all eight single-row tableaux) run on symbolic states with "
                     "lossless compressions; the dense result equals sum_k d_k (-i dt H)^k psi with d_k computed from the tableau in rational arithmetic (C19 certifies d_k = 1/k! "
                     "up to the order), and for H(t) the exact explicit Runge-Kutta recursion with absolute stage times - for all states of the enumerated shapes, states with the "
                     "centre moved, density operators, real and imaginary time. Theorem-derived error bounds per scheme (Taylor / stage-polynomial remainder with the coefficients certified in C19, exactness of PS/PS2/VMF at "
                     "full bond dimension, order of CMF) against scipy expm; solver-, split- and adaptivity-independence; norm/energy conservation of TDVP-PS at any "
                     "bond dimension; bond limits; density-operator form; time-dependent H; histories of scheme switches. Bounded; nothing proved.",
                technique="exact symbolic execution of the real propagation-and-compression schemes (stage-polynomial identity) and of the TDVP-PS/PS2 sweeps with the local propagator under contract (all tensor values); runtime contracts with "
                          "theorem-derived bounds on every scheme (bounded stand-in for the floating-point clauses)",
                note=OTHER_NOTE),
    "C10": dict(cat="other", ref="DESIGN §8 C10, S.2",
                text="Also bounded: an exact thermal job continued with a different step size. The imaginary-time branch of TDVP-PS / PS2 poses exactly the local problems of the projector-splitting integrator for exp(-tau H) (call by contract at expm_krylov / solve_ivp, Engine S, both local solver forms). "
                     "Engine S (kernel-stub mode): for imaginary time steps the un-normalised result of every propagation-and-compression scheme equals the stage polynomial in "
                     "(-tau H) applied to the state or density operator, exactly, for all tensor values of the enumerated shapes (the normalisation and the TDVP schemes are bounded). "
                     "Imaginary-time branch of every scheme vs normalised expm(-tau H)psi, exact local propagator incl. shift / phase / frame bookkeeping, purified "
                     "identity states, thermal propagation vs dense Gibbs averages in the sector over two decades of beta. Bounded.",
                technique="exact symbolic execution of the propagation-and-compression schemes for imaginary steps; runtime contracts against dense matrix exponentials / Gibbs "
                          "averages (bounded stand-in)",
                note=OTHER_NOTE),
    "C14": dict(cat="fault_enumeration", ref="DESIGN §8 C14, App. A.6",
                text="Also bounded: files of the older protocols 0.3, 0.2 and 0.1 and a ten-site chain (two-digit per-bond entries). Crash safety of TdMpsJob.dump_dict proved over a ghost file-system model from EVERY admissible directory state (pyvc: invariant obligation at each "
                     "file-system call and inside np.savez; counter-models replayed by fault injection into the real function) and cross-validated by exhaustive fault "
                     "enumeration on the real code incl. restarts and swallowed IOErrors; Engine S with a file-layer stub: load(dump(x)) == x for indeterminate tensors and prefactor "
                     "(Mps, MpDm, Mpo, TTNS incl. other_attrs); exact bitwise dump/load round trips on real files for Mps, MpDm, Mpo, TTNS and the spill-to-disk path.",
                technique="contract-based deductive verification of the crash protocol (pyvc ghost file system, z3) + exhaustive fault enumeration of the real function; exact symbolic "
                          "execution of dump/load over an in-memory npz layer; runtime round-trip contracts",
                note=OTHER_NOTE + " Trusted: POSIX atomicity of remove/rename/replace; np.savez leaves an unreadable file when interrupted; np.savez/np.load return arrays unchanged (Engine S file stub)."),
    "C15": dict(cat="other", ref="DESIGN §8 C15, S.2",
                text="Engine S: the real Op / OpSum arithmetic (+, -, *, scalar multiples, negation, Op.product, OpSum products, squeeze_identity, associativity) executed on "
                     "leaf operators with indeterminate factors; the exact denotation of each of ~1000 expression shapes equals the expression of the operand denotations as "
                     "polynomials, i.e. for all factor values. Homomorphism contracts den(result) == expression(den(operands)) with an independent exact denotation (integer Pauli / generic letters, never "
                     "through Mpo or op_mat) over all expressions of depth <= 3 of the public arithmetic, simplify tolerances, squeeze_identity, eq/hash consistency, "
                     "the string layer and Model.check_operator_terms; bounded-exhaustive; two recorded boundary findings.",
                technique="exact symbolic execution of the real operator arithmetic on indeterminate factors (normal-form decision); runtime contracts against an independent "
                          "exact denotation, exhaustive over expressions of bounded depth (bounded stand-in)",
                note=OTHER_NOTE),
    "C16": dict(cat="other", ref="DESIGN §8 C16, S.2",
                text="Deductive: the periodic wrap-around of the cell index in TI1DModel.__init__ (mechanical slice, pyvc/z3, all cells / offsets / chain lengths; counter-models "
                     "replayed on the real builder) and construct_j_matrix executed exactly on an indeterminate coupling for 1..8 molecules, open and periodic. Defining relations of every supported symbol of every basis class (symbol list extracted from the op_mat source with ast; uncovered symbols are a "
                     "checker error) and independently assembled dense Hamiltonians for the model builders; bounded; several recorded findings.",
                technique="contract-based deductive verification of the builders' index logic (pyvc slice, exact execution); runtime contracts (defining relations, independent "
                          "closed forms, quadrature) on the real op_mat / builders over bounded parameter grids (bounded stand-in)",
                note=OTHER_NOTE),
    "C17": dict(cat="other", ref="DESIGN §8 C17, S.2",
                text="The Jordan-Wigner sign loop of simplify_op proved on a mechanical slice (pyvc: the counters equal the number of (non-Z, Z) inversions, the factor is "
                     "(-1)^inversions) with 2x2 matrix lemmas discharged by z3; Engine S: int_to_h and qc_model executed on indeterminate integrals (every support pattern of a small universe, flat / stacked, with / without particle numbers, 2..4(5) spin orbitals) equal the anticommuting-operator Hamiltonian written on bit strings for all integral values; Jordan-Wigner models vs an independent Fock-space fermionic reference (1..3(4) spatial orbitals, exhaustive sparsity patterns for 1-2), site swaps with and "
                     "without the JW remap vs P H P^T / F H F^T, OFS runs vs exact references; bounded; two recorded findings.",
                technique="contract-based deductive verification (pyvc slice + z3 lemmas) of the sign bookkeeping; exact symbolic execution of the real builders on indeterminate integrals (polynomial normal forms); runtime contracts against an independent anticommuting-operator "
                          "reference (bounded stand-in)",
                note=OTHER_NOTE),
    "C18": dict(cat="other", ref="DESIGN §8 C18, 5.3, S.2",
                text="renormalizer.lib.davidson under a runtime contract: Ritz values are Rayleigh quotients of orthonormal vectors and upper bounds of the lowest levels for every Hermitian matrix (real / complex, 1-3 roots); converged lowest eigenpairs for diagonally dominant matrices. "
                     "Engine S kernel-stub mode: svd_qn runs on matrices of indeterminates (allowed and forbidden positions) with each LAPACK call replaced by a trivial exact "
                     "factorisation of the block; restoration of exactly the symmetry-allowed part, the label rule on the support of every output column, pairing and shapes "
                     "are decided exactly for every label pattern on blocks up to 3x3 (4x4 thorough), one and two components, SVD economic/full and QR/RQ economic/full; eigh_qn (density-matrix path) with blocks built as V diag(w) V^H: only sectors with a partner "
                     "label are kept and restored, every column label describes its support. "
                     "Kernel contracts evaluated at run time: expm_krylov vs scipy expm to its own stopping tolerance over structured spectra / start vectors inside "
                     "invariant subspaces / all dt phases / block sizes; svd_qn, eigh_qn and helpers (orthonormal factors, exact restoration of the symmetry-allowed "
                     "part, labels, global sort, pairing) exhaustively over all label patterns on <= 3x3 blocks. Bounded; floating-point kernels cannot be proved here.",
                technique="exact symbolic execution of the real svd_qn with stubbed factorisations (bookkeeping, all matrix values); runtime contracts on the real kernels "
                          "over bounded-exhaustive label patterns and structured matrices (bounded stand-in for the floating-point clauses)",
                note=OTHER_NOTE),
    "C11": dict(cat="other", ref="DESIGN §8 C11",
                text="Exact symbolic execution of the real TTNS/TTNO code (todense, add, scale, apply, expectation, site / two-site / 1-DoF / 2-DoF RDMs in the order of the key) for EVERY rooted ordered tree shape with up to 4(5) nodes "
                     "(all tensor values; polynomial identities); runtime contracts on TTNS/TTNO methods (constructor, todense, add, scale, copy, apply, canonicalise, lossless compress, norm, expectation, site/DoF RDMs, "
                     "site / pair / bond entropies, mutual information, chain->tree conversion, find_path) against an independent recursive tree contraction over the enumeration of rooted ordered tree shapes "
                     "(every child order is its own case), groupings and dummy placements. Bounded.",
                technique="exact symbolic execution of the real tree code on indeterminate tensors (polynomial normal forms) + kernel-stub proofs of the gauge moves; runtime contracts against an independent tree contraction over enumerated tree shapes (bounded stand-in)",
                note=OTHER_NOTE + " print_tree shim is part of the trusted base."),
    "C12": dict(cat="other", ref="DESIGN §8 C12, S.2",
                text="Call by contract at the local propagator on every rooted ordered tree shape: the real evolve_tdvp_ps / evolve_tdvp_ps2 pose exactly the one-site / zero-site (two-site / one-site) problems of the tree projector-splitting integrator with generator x time = +-coeff tau/2 J^H H J (independent frame contraction), in the integrator's order, each posed in the state the previous one produced - exact for all tensor values and kernel results. "
                     "Engine S (kernel-stub mode): TTNS.update_2site (two-site projector splitting) on every bond incl. the per-node limit probe; evolve_prop_and_compress_tdrk4 on symbolic tree states of every rooted ordered tree shape (2..4(5) nodes) equals "
                     "sum_{k<=4} (coeff tau H)^k / k! psi exactly, real and imaginary time; the velocity returned by time_derivative_vmf is checked (bounded) to be the orthogonal "
                     "projection of H psi on the tangent space for truncated manifolds and any norm. Theorem-derived bounds for the four tree evolution schemes in real and imaginary time vs scipy expm, sector conservation, input frame, multi-step histories, "
                     "norm/energy conservation of one-site PS at bond limits 1-2, linear tree vs chain implementation, purified P x Q trees vs the dense Gibbs state. Bounded.",
                technique="exact symbolic execution of the tree propagation-and-compression scheme (Taylor-polynomial identity, all tensor values); runtime contracts with "
                          "theorem-derived bounds on the real tree evolution code (bounded stand-in for the TDVP / floating-point clauses)",
                note=OTHER_NOTE + " print_tree shim is part of the trusted base."),
    "C13": dict(cat="other", ref="DESIGN §8 C13, App. A.7, S.2",
                text="Round 7: 25 more entry points under clauses (expand_bond_dimension and its helper, entropies, mutual information, dumps, canonicity checks, BraKetPair, ThermalProp steps) plus runtime frame clauses for expand_bond_dimension. Static modifies clauses for ~70 public state-producing / measuring methods of chains, trees, operators and density operators: an alias/effect "
                     "analysis of the current source lists every write through a parameter alias and every in-place call on one; each must be covered by the method's "
                     "clause (gauge move by callee contract, configuration field, or a stated joint rewrite such as prefactor folding). Frame contracts (represented "
                     "vector, total charge, label validity of every live object; in-place mutation of a result or of an input does not leak) evaluated after every step "
                     "of random operation histories on chains and trees incl. every evolution scheme, sums of lists of states, operator / density-operator methods.",
                technique="frame (modifies-clause) obligations discharged by a static effect analysis of the real source; frame contracts evaluated at run time over bounded "
                          "random histories (bounded stand-in)",
                note=OTHER_NOTE),
})

NOT_YET = {}


def main():
    props = [json.loads(l) for l in open(os.path.join(HERE, "properties.jsonl"))]
    checks, na = [], []
    for p in props:
        pid = p["id"]
        if pid in CHECKS:
            c = CHECKS[pid]
            checks.append({
                "property_id": pid,
                "quick_cmd": f"./check {pid} --tier quick",
                "thorough_cmd": f"./check {pid} --tier thorough",
                "evidence_file": f"evidence/{pid}.json",
                "replay_cmd_template": "./check replay {path}",
                "engine": "vk",
                "level_claimed": {"category": c["cat"], "text": c["text"], "design_ref": c["ref"]},
                "level_note": c["note"],
                "technique": c["technique"],
            })
        else:
            na.append({"property_id": pid, "reason": NOT_YET.get(pid, "check not built yet in this round (work in progress; see DESIGN.md §12)")})
    man = {
        "version": 1,
        "setup_cmd": "./check --setup",
        "hooks": {"guard": "RENORMALIZER_VERIF", "enable": "no source hooks: contracts, shims and fault injection are installed from the harness side (sidecar)",
                  "baseline_off_cmd": "cd /repo && /venv/bin/python -m pytest -ra -q -p no:cacheprovider --timeout=900 --continue-on-collection-errors",
                  "source_commits": [], "add_only": True},
        "engines": [
            {"name": "pyvc", "path": "vk/pyvc", "serves_properties": ["C02", "C03", "C04", "C05", "C06", "C14", "C16", "C17", "C20"], "kind_free_text": "AST -> verification conditions (loop invariants, call by contract) -> z3/cvc5"},
            {"name": "exact-exec", "path": "vk/symx/exactexec.py", "serves_properties": ["C16", "C19"], "kind_free_text": "real source executed on exact rationals / z3 reals"},
            {"name": "effects", "path": "vk/pyvc/effects.py", "serves_properties": ["C13"], "kind_free_text": "alias / effect analysis of the real source against sidecar modifies clauses"},
            {"name": "symx", "path": "vk/symx", "serves_properties": ["C01", "C02", "C03", "C04", "C06", "C07", "C08", "C09", "C10", "C11", "C12", "C14", "C15", "C17", "C18"], "kind_free_text": "real NumPy-level code executed on exact symbolic polynomial scalars; identities decided by normal form"},
            {"name": "rtc", "path": "vk/rtc", "serves_properties": ["C01", "C02", "C03", "C04", "C05", "C06", "C07", "C08", "C09", "C10", "C11", "C12", "C13", "C14", "C15", "C16", "C17", "C18", "C20"], "kind_free_text": "runtime contracts on the real functions, bounded-exhaustive inputs (bounded stand-in, never counted as proved)"},
        ],
        "checks": checks,
        "not_applicable": na,
        "notes": "Contract-based deductive verification of the real code; see DESIGN.md. known_findings.jsonl lists fixed/recorded defects.",
    }
    with open(os.path.join(HERE, "MANIFEST.json"), "w") as fh:
        json.dump(man, fh, indent=1)
    import jsonschema
    jsonschema.validate(man, json.load(open("/root/.vp/MANIFEST.schema.json")))
    print("MANIFEST.json written:", len(checks), "checks,", len(na), "not applicable")


if __name__ == "__main__":
    main()
