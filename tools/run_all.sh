#!/bin/bash
# runs every registered quick check on /repo and prints the summary lines (evidence is rewritten)
cd /verif
for p in $(python3 -c "import json;print(' '.join(c['property_id'] for c in json.load(open('MANIFEST.json'))['checks']))"); do
  ./check $p --tier ${1:-quick} > /tmp/runall_$p.log 2>&1; rc=$?
  echo "$p rc=$rc $(grep -E '^\[C' /tmp/runall_$p.log | tail -1 | cut -c1-170) $(grep -c VIOLATION /tmp/runall_$p.log) violation-lines"
done
