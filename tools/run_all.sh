#!/bin/bash
# runs every registered check (default: quick tier) on /repo and prints the summary lines (evidence is rewritten)
# usage: tools/run_all.sh [tier] [ids...]
cd /verif
TIER=${1:-quick}; shift
IDS="$@"
[ -z "$IDS" ] && IDS=$(python3 -c "import json;print(' '.join(c['property_id'] for c in json.load(open('MANIFEST.json'))['checks']))")
for p in $IDS; do
  timeout ${RUNALL_TIMEOUT:-5400} ./check $p --tier $TIER > /tmp/runall_$p.log 2>&1; rc=$?
  echo "$p rc=$rc $(grep -E '^\[C' /tmp/runall_$p.log | tail -1 | cut -c1-170) $(grep -c VIOLATION /tmp/runall_$p.log) violation-lines"
done
