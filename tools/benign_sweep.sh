#!/bin/bash
# usage: tools/benign_sweep.sh <patch.diff> <label> : apply a semantics-preserving patch to a scratch copy and run EVERY quick check on it; any VIOLATION is a false alarm
P="$1"; L="$2"
D=$(/verif/tools/scratch.sh ben_$L)
( cd "$D" && patch -p1 -s < "$P" ) || { echo "$L: patch does not apply"; rm -rf "$D"; exit 2; }
cd /verif
for p in $(python3 -c "import json;print(' '.join(c['property_id'] for c in json.load(open('/verif/MANIFEST.json'))['checks']))"); do
  VERIF_PROCS=${VERIF_PROCS:-4} VERIF_REPO="$D" ./check $p --tier quick > /tmp/ben_${L}_$p.log 2>&1; rc=$?
  if [ $rc -ne 0 ] || grep -q "^VIOLATION\|UNDECIDED" /tmp/ben_${L}_$p.log; then
    echo "$L $p rc=$rc $(grep -c '^VIOLATION' /tmp/ben_${L}_$p.log) violations, $(grep -c 'UNDECIDED' /tmp/ben_${L}_$p.log) undecided; $(grep -m1 'violated obligation\|UNDECIDED\|CHECKER' /tmp/ben_${L}_$p.log | cut -c1-160)"
  fi
  rm -f /tmp/ben_${L}_$p.log
done
echo "$L done"
rm -rf "$D"
