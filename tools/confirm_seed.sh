#!/bin/bash
# usage: tools/confirm_seed.sh <wt_dir> <k> : demo must exit 0 on a clean scratch copy of /repo and non-zero with the patch
WT="$1"; K="$2"
D=$(/verif/tools/scratch.sh conf_$$)
cd "$D"
PYTHONPATH="$D:/verif/shims" RENO_LOG_LEVEL=40 OMP_NUM_THREADS=1 timeout 900 /venv/bin/python "$WT/_mut/$K/demo.py" > /tmp/conf_$$.log 2>&1; A=$?
patch -p1 -s < "$WT/_mut/$K/patch.diff" || { echo "patch does not apply"; rm -rf "$D"; exit 2; }
PYTHONPATH="$D:/verif/shims" RENO_LOG_LEVEL=40 OMP_NUM_THREADS=1 timeout 900 /venv/bin/python "$WT/_mut/$K/demo.py" > /tmp/conf2_$$.log 2>&1; B=$?
echo "demo clean rc=$A  mutated rc=$B  ($(tail -1 /tmp/conf2_$$.log | cut -c1-100))"
rm -rf "$D" /tmp/conf_$$.log /tmp/conf2_$$.log
[ "$A" = 0 ] && [ "$B" != 0 ]
