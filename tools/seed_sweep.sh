#!/bin/bash
# usage: tools/seed_sweep.sh "<seeds>" [tier] ; runs every registered check for each seed, reports non-quiet runs
cd /verif
TIER=${2:-quick}
for sd in $1; do
for p in $(python3 -c "import json;print(' '.join(c['property_id'] for c in json.load(open('MANIFEST.json'))['checks']))"); do
  VERIF_SEED=$sd ./check $p --tier $TIER > /tmp/sweep_${p}_$sd.log 2>&1; rc=$?
  if [ $rc -ne 0 ]; then echo "seed=$sd $p rc=$rc"; grep -E "violated ob|CHECKER|VACUITY" /tmp/sweep_${p}_$sd.log | cut -c1-300 | sort | uniq -c | sort -rn | head -5; else rm -f /tmp/sweep_${p}_$sd.log; fi
done; echo "seed $sd done"; done
