#!/bin/bash
# usage: tools/seed_sweep.sh "<seeds>" [tier] ; runs every registered check for each seed, reports non-quiet runs
cd /verif
TIER=${2:-quick}
# run against an identical scratch copy so that the committed evidence files (seed 0) are not rewritten
D=$(/verif/tools/scratch.sh sweep_$$)
for sd in $1; do
for p in $(python3 -c "import json;print(' '.join(c['property_id'] for c in json.load(open('MANIFEST.json'))['checks']))"); do
  VERIF_PROCS=${VERIF_PROCS:-8} VERIF_REPO=$D VERIF_SEED=$sd ./check $p --tier $TIER > /tmp/sweep_${p}_$sd.log 2>&1; rc=$?
  if [ $rc -ne 0 ]; then echo "seed=$sd $p rc=$rc"; grep -E "violated ob|CHECKER|VACUITY" /tmp/sweep_${p}_$sd.log | cut -c1-300 | sort | uniq -c | sort -rn | head -5; else rm -f /tmp/sweep_${p}_$sd.log; fi
done; echo "seed $sd done"; done
rm -rf $D
