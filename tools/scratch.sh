#!/bin/bash
# usage: tools/scratch.sh <name> ; prints scratch repo path (copy of /repo working tree, no .git)
set -e
D="${TMPDIR:-/tmp}/vscratch_$1"
rm -rf "$D"; mkdir -p "$D"
rsync -a --exclude .git --exclude __pycache__ /repo/ "$D"/
echo "$D"
