#!/bin/bash
# usage: tools/save_seed.sh <wt_dir> <k> <Cxx> <seed_id> "<needs>" "<detected_by>"
set -e
WT="$1"; K="$2"; PID="$3"; SID="$4"; NEEDS="$5"; DET="$6"
D=/verif/seeded/$SID
mkdir -p "$D"
cp "$WT/_mut/$K/patch.diff" "$D/patch.diff"
cp "$WT/_mut/$K/demo.py" "$D/demo.py"
cp "$WT/_mut/$K/notes.md" "$D/notes.md" 2>/dev/null || true
python3 - "$D" "$PID" "$NEEDS" "$DET" <<'PY'
import json,sys
d,pid,needs,det=sys.argv[1:5]
json.dump({"property":pid,"needs_to_manifest":needs,"what_was_run":"patch applied to a scratch copy of /repo; demo.py exits 1 with the patch and 0 without; existing related tests pass (see notes.md); ./check %s run via tools/try_seed.sh"%pid,"detected_by":det},open(d+"/meta.json","w"),indent=1)
PY
echo saved $D
