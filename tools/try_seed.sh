#!/bin/bash
# usage: tools/try_seed.sh <patch.diff> <Cxx> [tier]   -- runs a check against a scratch copy of /repo with the patch applied
set -e
P="$1"; PID="$2"; TIER="${3:-quick}"
D=$(/verif/tools/scratch.sh seed_$$)
( cd "$D" && patch -p1 -s < "$P" )
VERIF_REPO="$D" /verif/check "$PID" --tier "$TIER" > "/tmp/seedrun_$$.log" 2>&1 && RC=0 || RC=$?
grep -E "VIOLATION|violated obligation|UNDECIDED|CHECKER-ERROR|^\[C" "/tmp/seedrun_$$.log" | head -${LINES_MAX:-12}
echo "exit=$RC"
rm -rf "$D" "/tmp/seedrun_$$.log"
