"""Deductive part of C16: the two pieces of index logic in the model builders.

(1) TI1DModel.__init__: the periodic wrap-around of the cell index of a non-local term.  Mechanical slice of the statement that computes
    `new_cell_id` inside `for old_dof in old_op.dofs` (pyvc, z3; Python floor-mod semantics): for every cell i, every integer offset (negative ones
    included) and every ncell >= 1 the target is a valid cell, equals i + offset inside the chain and i + offset -/+ ncell when the term leaves the chain by
    less than one period on either side (the general congruence needs a symbolic divisor and is left to the bounded part).
(2) construct_j_matrix: the real source is executed exactly (vk.symx.exactexec) with an indeterminate coupling for mol_num = 1..8, open and periodic:
    the matrix equals j times the adjacency matrix of the open / closed chain (symmetric, nothing else non-zero, no self-interaction for mol_num >= 3).
"""
import ast

import numpy as np

from vk.common import REPO
from vk.pyvc import engine as E
from vk.pyvc import run as R
from vk.pyvc.engine import Contract
from vk.pyvc.slice import make_slice, SliceError, loop_body

REL = "renormalizer/model/model.py"

wrap = Contract(
    "TI1DModel.__init__::new_cell_id", {"i": "int", "offset": "int", "ncell": "int"},
    requires=["ncell >= 1", "0 <= i", "i < ncell"],
    ensures=[("target_is_a_cell", "0 <= result and result < ncell"),
             ("wraps_once_past_the_last_cell", "implies(ncell <= i + offset and i + offset < 2 * ncell, result == i + offset - ncell)"),
             ("wraps_once_before_the_first_cell", "implies(0 - ncell <= i + offset and i + offset < 0, result == i + offset + ncell)"),
             ("identity_inside_the_chain", "implies(0 <= i + offset and i + offset < ncell, result == i + offset)")],
    bounds="prove")


def find_wrap_stmt(fn):
    """ordinal of the loop `for old_dof in old_op.dofs` and index of the statement assigning new_cell_id in its body"""
    loops = [n for n in ast.walk(fn) if isinstance(n, (ast.For, ast.While))]
    loops.sort(key=lambda n: (n.lineno, n.col_offset))
    for k, lp in enumerate(loops):
        for j, st in enumerate(lp.body):
            if isinstance(st, ast.Assign) and len(st.targets) == 1 and isinstance(st.targets[0], ast.Name) and st.targets[0].id == "new_cell_id":
                return k, j
    raise ValueError("no assignment to new_cell_id in a loop of TI1DModel.__init__")


def replay_wrap(cex, locals_, ob):
    """native replay: build a TI1DModel with one hopping term of that offset and look where cell i is connected to"""
    from renormalizer.model import TI1DModel, Op
    from renormalizer.model import basis as ba
    i, off, ncell = int(cex.get("i", 0)), int(cex.get("offset", 0)), int(cex.get("ncell", 1))
    if not (1 <= ncell <= 12 and abs(off) <= 40):
        return False, "counter-model outside the replay range"
    try:
        model = TI1DModel([ba.BasisSimpleElectron("e")], [], [Op(r"a^\dagger a", [(0, "e"), (off, "e")])], ncell)
    except Exception as e:
        return True, {"ncell": ncell, "offset": off, "raised": repr(e)}
    t = model.ham_terms[i]
    got = [d[0] for d in t.dofs]
    want = [f"cell{i}", f"cell{(i + off) % ncell}"]
    return got != want, {"ncell": ncell, "offset": off, "cell": i, "term_dofs": [repr(d) for d in t.dofs], "expected_cells": want}


def prove(run):
    # ---- (1) wrap-around
    try:
        fn = R.index().find(REL, "TI1DModel.__init__")
        k, j = find_wrap_stmt(fn)
        sl = make_slice(fn, "TI1DModel__new_cell_id", k, (j, j), {"i": "i", "old_dof[0]": "offset", "ncell": "ncell"}, "new_cell_id")
    except (E.VCError, SliceError, ValueError, StopIteration) as e:
        run.oblig("extract:TI1DModel.__init__::new_cell_id", "TI1DModel.__init__", "A(pyvc)", "undecided", detail=f"slice could not be extracted (stale contract): {e}")
        sl = None
    if sl is not None:
        run.extra.setdefault("pyvc_slices", {})["TI1DModel__new_cell_id"] = {
            "source": REL, "description": "the statement assigning new_cell_id in the body of `for old_dof in old_op.dofs` of TI1DModel.__init__, with old_dof[0] := offset",
            "extracted_text": ast.unparse(sl)}
        R.verify_node(run, REL, wrap, sl, fingerprint={}, replay=replay_wrap)
    # ---- (2) construct_j_matrix on an indeterminate coupling
    from vk.symx.exactexec import extract
    from vk.symx.poly import Poly, VarFactory
    fn2 = "construct_j_matrix"
    try:
        cjm, _ = extract(REPO, REL, fn2, zero=Poly())
    except Exception as e:
        run.oblig(f"extract:{fn2}", fn2, "A(exact-exec)", "undecided", detail=repr(e))
        return
    for n in range(1, 9):
        for periodic in (False, True):
            x = VarFactory().fresh()

            class Q:
                def as_au(self):
                    return x
            oid = f"post:construct_j_matrix:adjacency_times_j[n={n},periodic={periodic}]"
            try:
                m = np.asarray(cjm(n, Q(), periodic), dtype=object)
            except Exception as e:
                run.oblig(oid, fn2, "A(exact-exec)", "undecided", detail=f"exact execution failed: {e!r}")
                continue
            bad = []
            if m.shape != (n, n):
                bad.append(f"shape {m.shape}")
            else:
                for a in range(n):
                    for b in range(n):
                        adj = abs(a - b) == 1 or (periodic and n >= 2 and {a, b} == {0, n - 1} and a != b)
                        if n == 1 and periodic and a == b:
                            continue          # the single molecule with periodic=True: the code writes j on the diagonal (recorded by the bounded part if it matters)
                        want = x if adj else Poly()
                        if not (Poly.coerce(m[a, b]) == want):
                            bad.append(f"J[{a},{b}] = {m[a, b]!r}, expected {'j' if adj else 0}")
            run.oblig(oid, fn2, "A(exact-exec)", "discharged" if not bad else "violated", "exact polynomial normal form")
            if bad:
                from renormalizer.model.model import construct_j_matrix
                from renormalizer.utils import Quantity
                mm = construct_j_matrix(n, Quantity(0.37), periodic)
                run.violation(oid, fn2, f"not j times the adjacency matrix of the {'closed' if periodic else 'open'} chain: {bad[:3]}", fields={"n": n, "periodic": periodic},
                              replay={"mol_num": n, "periodic": periodic, "j": 0.37, "real_function_returns": np.asarray(mm).tolist()}, engine="A(exact-exec)")
    run.trusted += ["Python integer floor-mod as encoded by pyvc (z3 `%` with positive divisor)", "exactexec: np.ones/np.diag of NumPy on dtype=object arrays"]
