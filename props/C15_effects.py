"""Static part of C15 (value semantics of the operator algebra): no arithmetic operator of Op / OpSum writes through an operand or hands an operand back.

The effect analysis of vk/pyvc/effects.py (alias tracking over the real source) is run on every arithmetic method of renormalizer/model/op.py with an EMPTY modifies clause:
a write through `self` / `other`, an in-place list method on them, or a `return` of (a component of) a parameter is a failed obligation - the caller's later `+=` on the
result would reach the operand.  `OpSum.__iadd__` is the documented in-place operator (its clause lists exactly that)."""
from props.C13_effects import prove_clauses

OP = "renormalizer/model/op.py"
IADD = "R3 `+=` is the in-place operator: it extends and returns the object it is applied to (post:OpSum.__iadd__:in_place states the same at run time)"
CLAUSES = {
    (OP, "Op.__add__"): {}, (OP, "Op.__radd__"): {}, (OP, "Op.__neg__"): {}, (OP, "Op.__sub__"): {}, (OP, "Op.__mul__"): {}, (OP, "Op.__rmul__"): {},
    (OP, "Op.product"): {}, (OP, "Op.squeeze_identity"): {("returns-alias", "self", ""): "R3 Op objects are immutable values (no method mutates an Op): an operator without identity factors is returned as is"},
    (OP, "OpSum.__add__"): {}, (OP, "OpSum.__neg__"): {}, (OP, "OpSum.__sub__"): {}, (OP, "OpSum.__mul__"): {}, (OP, "OpSum.__rmul__"): {}, (OP, "OpSum.__truediv__"): {},
    (OP, "OpSum.copy"): {}, (OP, "OpSum.simplify"): {},
    (OP, "OpSum.product"): {("returns-alias", "op_list", "[]"): "R3 the only factor is handed back only when it is an Op (an immutable value); a single OpSum leaves through `return cls(prod)` "
                                                                "(repository fix; the analysis is path-insensitive, the bounded clause post:OpSum.product:result_is_a_new_object audits this path)"},
    (OP, "OpSum.__iadd__"): {("returns-alias", "self", ""): IADD, ("inplace-call", "self", "append"): IADD},
}


def prove(run):
    import vk.pyvc.effects as EF
    saved = dict(EF.MUTATING_METHODS)
    # list methods that change a list in place (OpSum is a list)
    EF.MUTATING_METHODS.update({"append": None, "extend": None, "pop": None, "insert": None, "remove": None, "sort": None, "reverse": None, "clear": None, "__iadd__": None})
    try:
        prove_clauses(run, CLAUSES, what="a later in-place use of the result (or this statement itself) changes an operand")
    finally:
        EF.MUTATING_METHODS.clear()
        EF.MUTATING_METHODS.update(saved)
