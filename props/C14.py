"""C14 Saved states reload identically and result dumps survive a crash.

Part 1 (round trip, exact/bitwise): x -> dump -> load for Mps / MpDm (Mps.load), Mpo (MatrixProduct.load) and TTNS
(TTNBase.load), in-memory and through the spill-to-disk path; the oracle is the object that was dumped.
Part 2 (crash safety, fault enumeration): every crash instant of the REAL TdMpsJob.dump_dict, from every admissible directory
state, for every step, followed by restarts (and a second crash); the oracle is the directory inspected with np.load.
"""
import errno
import functools
import gc
import hashlib
import io
import os
import shutil
import tempfile

import numpy as np

from vk.rtc.harness import run_cases
from vk.specs import chain as S
from vk.specs import universe as U

LEVEL = "fault_enumeration"
TECHNIQUE = ("fault enumeration on the real TdMpsJob.dump_dict: every file-system call of a dump (before/after, truncated write) x every "
              "admissible directory state x every step x restart x second crash, directory inspected with np.load; plus contracts evaluated "
              "at run time on the real dump/load functions over bounded-exhaustive states (bounded stand-in; nothing counted as proved)")


# =============================================================================================== generic helpers
def bits(a, b):
    """bitwise identical arrays (dtype, shape and every bit, so -0.0 != 0.0 and NaN payloads count)"""
    a, b = np.asarray(a), np.asarray(b)
    return a.dtype == b.dtype and a.shape == b.shape and a.tobytes() == b.tobytes()


def cbits(a, b):
    """same scalar prefactor: same complex value bit for bit and same real/complex kind"""
    if a is None or b is None:
        return a is None and b is None
    za, zb = np.asarray(a).reshape(-1), np.asarray(b).reshape(-1)
    if za.size != 1 or zb.size != 1:
        return False
    return bits(np.asarray(complex(za[0])), np.asarray(complex(zb[0]))) and (np.iscomplexobj(za) == np.iscomplexobj(zb))


def qn_equal(qa, qb):
    """per-bond labels equal as integer tables (container type is not part of the contract)"""
    if len(qa) != len(qb):
        return False
    for x, y in zip(qa, qb):
        x, y = np.asarray(x), np.asarray(y)
        if x.shape != y.shape or x.dtype.kind not in "iu" or y.dtype.kind not in "iu" or not np.array_equal(x, y):
            return False
    return True


def is_chain(x):
    from renormalizer.mps.mp import MatrixProduct
    return isinstance(x, MatrixProduct)


def is_tree(x):
    from renormalizer.tn.tree import TTNBase
    return isinstance(x, TTNBase)


def chain_diff(a, b):
    """list of fields in which two chain objects differ (empty = identical for the purposes of C14)"""
    out = []
    if len(a) != len(b):
        return ["nsites"]
    for i in range(len(a)):
        if not bits(a[i].array, b[i].array):
            out.append(f"tensor[{i}]")
    if not qn_equal(a.qn, b.qn):
        out.append("qn")
    if a.qnidx is None or b.qnidx is None or int(a.qnidx) != int(b.qnidx):
        out.append("qnidx")
    if not np.array_equal(np.asarray(a.qntot).reshape(-1), np.asarray(b.qntot).reshape(-1)):
        out.append("qntot")
    if a.to_right is None or b.to_right is None or bool(a.to_right) != bool(b.to_right):
        out.append("to_right")
    if not cbits(getattr(a, "coeff", None), getattr(b, "coeff", None)):
        out.append("coeff")
    if np.dtype(a.dtype) != np.dtype(b.dtype):
        out.append("dtype")
    return out


def tree_diff(a, b):
    out = []
    if len(a.node_list) != len(b.node_list):
        return ["nnodes"]
    for i, (x, y) in enumerate(zip(a.node_list, b.node_list)):
        if not bits(x.tensor, y.tensor):
            out.append(f"tensor[{i}]")
        if not (np.asarray(x.qn).shape == np.asarray(y.qn).shape and np.asarray(y.qn).dtype.kind in "iu" and np.array_equal(x.qn, y.qn)):
            out.append(f"qn[{i}]")
    if not np.array_equal(np.asarray(a.adj_matrix), np.asarray(b.adj_matrix)):
        out.append("topology")
    if a.node_list.index(a.root) != b.node_list.index(b.root) or b.root.parent is not None:
        out.append("root")
    if not np.array_equal(np.asarray(a.qntot), np.asarray(b.qntot)):
        out.append("qntot")
    if not cbits(a.coeff, b.coeff):
        out.append("coeff")
    return out


TOL = 1e-10   # = kappa*eps with kappa ~ 4.5e5: rounding-order differences of a handful of QR/SVD/contraction sweeps are ~1e-15..1e-13


def tree_dense(t):
    """independent dense contraction of a tree state: amplitudes over the physical legs in node order (coeff included)"""
    nodes = t.node_list
    idx = {id(nd): i for i, nd in enumerate(nodes)}
    nxt = len(nodes)
    args, out = [], []
    for nd in nodes:
        a = np.asarray(nd.tensor)
        nphys = a.ndim - len(nd.children) - 1
        lab = [idx[id(c)] for c in nd.children]
        for _ in range(nphys):
            lab.append(nxt)
            out.append(nxt)
            nxt += 1
        lab.append(idx[id(nd)])
        args += [a, lab]
    root = idx[id(t.root)]
    v = np.einsum(*args, out + [root], optimize="greedy")
    assert v.shape[-1] == 1
    return v.reshape(-1) * np.asarray(t.coeff).reshape(-1)[0]


def _meta_chain(x):
    return (type(x).__name__, len(x), int(x.qnidx), bool(x.to_right), tuple(np.asarray(x.qntot).reshape(-1).tolist()),
            tuple(int(b) for b in x.bond_dims), np.dtype(x.dtype).kind)


def _meta_tree(x):
    return (type(x).__name__, len(x.node_list), tuple(np.asarray(x.qntot).reshape(-1).tolist()),
            tuple(tuple(nd.tensor.shape) for nd in x.node_list), tuple(nd.tensor.dtype.kind for nd in x.node_list))


def _close(a, b, scale=None):
    a, b = np.asarray(a), np.asarray(b)
    if a.shape != b.shape:
        return False
    if a.size == 0:
        return True
    if not (np.all(np.isfinite(a)) and np.all(np.isfinite(b))):
        return bits(a.astype(complex), b.astype(complex))
    sc = max(1.0, float(np.abs(a).max()), float(np.abs(b).max())) if scale is None else scale
    return bool(np.all(np.abs(a - b) <= TOL * sc))


def result_diff(a, b, scale=1.0):
    """[] when two results of a later operation are the same result.

    Bit-identical results always pass.  Otherwise (the inputs are bit-identical, but NumPy/BLAS kernels may sum in an order that
    depends on the memory alignment of the operands, which no dump format can preserve) the results must agree in every exact
    attribute (class, sizes, centre, direction, sector, bond dimensions, per-bond labels) and the represented quantity
    (independent dense contraction incl. coeff) must agree within TOL*scale."""
    if is_chain(a) and is_chain(b):
        d = chain_diff(a, b)
        if not d:
            return []
        if _meta_chain(a) != _meta_chain(b):
            return ["exact attributes"] + d
        if not qn_equal(a.qn, b.qn):
            return ["qn"]
        if all(_close(a[i].array, b[i].array) for i in range(len(a))) and _close(getattr(a, "coeff", 1), getattr(b, "coeff", 1)):
            return []
        da, db = S.dense(a), S.dense(b)
        return [] if _close(da, db, max(1.0, float(np.linalg.norm(da.reshape(-1))))) else ["represented state"] + d
    if is_tree(a) and is_tree(b):
        d = tree_diff(a, b)
        if not d:
            return []
        if _meta_tree(a) != _meta_tree(b) or [f for f in d if not f.startswith("tensor") and f != "coeff"]:
            return ["exact attributes"] + d
        if all(_close(x.tensor, y.tensor) for x, y in zip(a.node_list, b.node_list)) and _close(a.coeff, b.coeff):
            return []
        da, db = tree_dense(a), tree_dense(b)
        return [] if _close(da, db, max(1.0, float(np.linalg.norm(da)))) else ["represented state"] + d
    if is_chain(a) or is_chain(b) or is_tree(a) or is_tree(b):
        return ["type"]
    aa, bb = np.asarray(a), np.asarray(b)
    if aa.dtype.kind not in "biufc" or bb.dtype.kind not in "biufc":
        return [] if (aa.shape == bb.shape and np.all(aa == bb)) else ["value"]
    if aa.shape == bb.shape and bits(aa.astype(complex), bb.astype(complex)):
        return []
    return [] if _close(aa, bb, max(1.0, scale, float(np.abs(aa).max()) if aa.size else 0.0)) else ["value"]


def outcome(fn):
    """("ok", result) or ("exc", exception type name, message) of a later operation of the library"""
    try:
        return ("ok", fn())
    except Exception as e:  # the library's own outcome on this object; compared between original and reloaded
        return ("exc", type(e).__name__, str(e)[:160])


def later_ops(led, oid, fn_name, ops, orig, loaded, key, fields, rep, nontriv, scale=1.0):
    """every later operation gives the same outcome on the original and on the reloaded object"""
    for name, f in ops:
        o1 = outcome(lambda: f(orig))
        o2 = outcome(lambda: f(loaded))
        fl = dict(fields, op=name, error=None)
        if o1[0] == "ok" and o2[0] == "ok":
            d = result_diff(o1[1], o2[1], scale)
            show = "" if (not d or is_chain(o1[1]) or is_tree(o1[1]) or np.size(o1[1]) > 4) else f": {o2[1]!r} vs {o1[1]!r}"
            led.check(not d, oid, fn_name, f"{name} on the reloaded object differs from {name} on the original in {d[:4]}{show}",
                      key + (name,), fl, dict(rep, then=name), nontriv)
        elif o1[0] == "exc" and o2[0] == "exc":
            led.check(o1[1] == o2[1], oid, fn_name, f"{name}: original raises {o1[1]}, reloaded raises {o2[1]}: {o2[2]}",
                      key + (name,), dict(fl, error=o2[1]), dict(rep, then=name), False)
        elif o2[0] == "exc":
            led.check(False, oid, fn_name, f"{name} works on the original but raises {o2[1]}: {o2[2]} on the reloaded object",
                      key + (name,), dict(fl, error=o2[1]), dict(rep, then=name), nontriv)
        else:
            led.check(False, oid, fn_name, f"{name} raises {o1[1]} on the original but succeeds on the reloaded object",
                      key + (name,), dict(fl, error="original:" + o1[1]), dict(rep, then=name), nontriv)


def written_version(fname):
    try:
        with np.load(fname, allow_pickle=True) as z:
            return str(z["version"])
    except Exception:
        return None


def describe(mp):
    return {"cls": type(mp).__name__, "qnidx": int(mp.qnidx), "to_right": bool(mp.to_right), "bond_dims": [int(x) for x in mp.bond_dims],
            "qntot": np.asarray(mp.qntot).tolist(), "dtype": str(np.dtype(mp.dtype)), "coeff": getattr(mp, "coeff", None)}


COEFFS = [0.3 - 0.2j, -1.5, 1, 2.5e-3j, 7.0]


def random_phases(mp, rng):
    mp = mp.to_complex()
    for i in range(len(mp)):
        a = np.asarray(mp[i].array)
        ph = rng.normal(size=a.shape) + 1j * rng.normal(size=a.shape)
        mp[i] = a * (ph / np.abs(ph))
    return mp


def truncating_config():
    from renormalizer.utils import CompressConfig, CompressCriteria
    c = CompressConfig(CompressCriteria.fixed)
    c.bond_dim_max_value = 2
    c.max_dims = None
    return c


def op_compress(c):
    n = len(c)
    cfg = truncating_config()
    cfg.dump_matrix_size, cfg.dump_matrix_dir = c.compress_config.dump_matrix_size, c.compress_config.dump_matrix_dir
    c.compress_config = cfg
    c.move_qnidx(0 if c.to_right else n - 1)
    if n >= 2:
        c.canonicalise()
        c.compress()
    return c


def op_prefactor_phase_twice(x):
    """what Mps.evolve_exact / MpDm.evolve_exact do with a Hamiltonian offset, twice from the same source: an in-place phase on the prefactor of an object
    derived by metacopy / copy must not reach the source (the prefactor is a scalar, not a shared mutable array)"""
    seen = []
    for derive in (lambda o: o.metacopy(), lambda o: o.copy()):
        for _ in range(2):
            c = derive(x)
            c.coeff *= np.exp(-0.037j)
            seen.append(complex(np.asarray(c.coeff).reshape(-1)[0]))
    seen.append(complex(np.asarray(x.coeff).reshape(-1)[0]))
    return np.array(seen)


def state_ops(H):
    from renormalizer.utils import EvolveConfig, EvolveMethod

    def evolve(x):
        c = x.copy()
        c.evolve_config = EvolveConfig(EvolveMethod.tdvp_ps)
        return c.evolve(H, 0.05)

    ops = [("copy", lambda x: x.copy()),
           ("ensure_left_canonical", lambda x: x.copy().ensure_left_canonical()),
           ("ensure_right_canonical", lambda x: x.copy().ensure_right_canonical()),
           ("canonicalise", lambda x: x.copy().canonicalise()),
           ("compress", lambda x: op_compress(x.copy())),
           ("norm", lambda x: x.conj().dot(x)),
           ("scale", lambda x: x.scale(0.5 - 1.0j)),
           ("prefactor_phase_on_derived_objects_twice", op_prefactor_phase_twice)]
    if H is not None:
        ops += [("expectation", lambda x: x.expectation(H)), ("evolve_tdvp_ps", evolve)]
    return ops


# =============================================================================================== part 1a: chain round trip
def chain_roundtrip(led, x, model, fname, key, rep, ops, nontriv, fn="Mps.load", extra_fields=None, scale=1.0):
    """dump x to fname, load it with the class of x and state every clause; returns the loaded object or None"""
    cls = type(x)
    fields = dict({"cls": cls.__name__}, **(extra_fields or {}))
    before = x.copy()
    x.dump(fname)
    ver = written_version(fname)
    key = key + (ver,)
    rep = dict(rep, version_written=ver, state=describe(x))
    d = chain_diff(before, x)
    led.check(not d, "frame:MatrixProduct.dump:source_unchanged", "MatrixProduct.dump", f"dump changed the dumped object in {d[:4]}", key, fields, rep, nontriv)
    try:
        l = cls.load(model, fname)
    except Exception as e:
        led.check(False, f"post:{fn}:loads_what_dump_wrote", fn, f"{cls.__name__}.load raised {type(e).__name__}: {e} on a file written by dump "
                  f"(format version {ver})", key, dict(fields, error=type(e).__name__), rep, nontriv)
        return None
    led.check(True, f"post:{fn}:loads_what_dump_wrote", fn, "", key, fields, rep, nontriv)
    n = len(x)
    bad = [i for i in range(min(n, len(l))) if not bits(l[i].array, x[i].array)]
    led.check(len(l) == n and not bad, f"post:{fn}:tensors_bitwise", fn, f"site tensors {bad[:4]} (of {n}; loaded {len(l)}) are not bit-identical after "
              f"the round trip", key, fields, rep, nontriv)
    led.check(np.dtype(l.dtype) == np.dtype(x.dtype), f"post:{fn}:dtype", fn, f"dtype {np.dtype(l.dtype)} after load, was {np.dtype(x.dtype)}", key, fields, rep, nontriv)
    led.check(qn_equal(l.qn, x.qn), f"post:{fn}:qn_per_bond", fn, "bond quantum numbers differ after the round trip: "
              f"{[np.asarray(q).tolist() for q in l.qn]} vs {[np.asarray(q).tolist() for q in x.qn]}", key, fields, rep, nontriv)
    led.check(l.qnidx is not None and int(l.qnidx) == int(x.qnidx), f"post:{fn}:qnidx", fn, f"qnidx {l.qnidx} after load, was {x.qnidx}", key, fields, rep, nontriv)
    led.check(np.array_equal(np.asarray(l.qntot).reshape(-1), np.asarray(x.qntot).reshape(-1)) and np.asarray(l.qntot).dtype.kind in "iu",
              f"post:{fn}:qntot", fn, f"qntot {l.qntot} after load, was {x.qntot}", key, fields, rep, nontriv)
    led.check(l.to_right is not None and bool(l.to_right) == bool(x.to_right), f"post:{fn}:to_right", fn, f"to_right {l.to_right} after load, was {x.to_right}",
              key, fields, rep, nontriv)
    if hasattr(x, "coeff"):
        led.check(cbits(getattr(l, "coeff", None), x.coeff), f"post:{fn}:coeff", fn, f"coeff {getattr(l, 'coeff', None)!r} after load, was {x.coeff!r}",
                  key, fields, rep, nontriv)
    # files of the previous protocol: the loader treats "0.3" like "0.4"; a 0.3 file is a 0.4 file without the per-bond `subqn_i` arrays (the labels are
    # in the pickled `qn` list in both).  It must come back as the same object.
    if ver == "0.4" and cls.__name__ in ("Mps", "MpDm"):
        try:
            raw = dict(np.load(fname, allow_pickle=True))
            raw = {k_: v_ for k_, v_ in raw.items() if not k_.startswith("subqn_")}
            raw["version"] = "0.3"
            old_name = fname[:-4] + ".v03.npz"
            np.savez(old_name, **raw)
            lo = cls.load(model, old_name)
            os.remove(old_name)
            same = (len(lo) == n and all(bits(lo[i].array, x[i].array) for i in range(n)) and qn_equal(lo.qn, x.qn) and int(lo.qnidx) == int(x.qnidx)
                    and np.array_equal(np.asarray(lo.qntot).reshape(-1), np.asarray(x.qntot).reshape(-1)) and bool(lo.to_right) == bool(x.to_right)
                    and cbits(getattr(lo, "coeff", None), x.coeff))
            led.check(same, f"post:{fn}:file_of_protocol_0.3_loads_identically", fn, "a protocol-0.3 file (the same data without the subqn_i arrays) does not come back as the dumped "
                      f"object: qn {[np.asarray(q).shape for q in lo.qn]} vs {[np.asarray(q).shape for q in x.qn]}", key + ("v03",), fields, rep, nontriv)
        except Exception as e:
            led.check(False, f"post:{fn}:file_of_protocol_0.3_loads_identically", fn, f"loading a protocol-0.3 file raised {type(e).__name__}: {e}", key + ("v03",), fields, rep, nontriv)
    # a file written by a single-precision run of the package (RENO_FP32): the same entries with 32-bit tensors - it loads, real stays real, complex stays complex
    if ver == "0.4" and cls.__name__ in ("Mps", "MpDm"):
        try:
            raw = dict(np.load(fname, allow_pickle=True))
            cplx_ = any(np.iscomplexobj(raw[f"mt_{i}"]) for i in range(n))
            for i in range(n):
                raw[f"mt_{i}"] = raw[f"mt_{i}"].astype(np.complex64 if np.iscomplexobj(raw[f"mt_{i}"]) else np.float32)
            name32 = fname[:-4] + ".fp32.npz"
            np.savez(name32, **raw)
            l32 = cls.load(model, name32)
            os.remove(name32)
            ok32 = len(l32) == n and all(np.abs(np.asarray(l32[i].array) - np.asarray(x[i].array)).max() <= 1e-6 * max(1.0, np.abs(np.asarray(x[i].array)).max()) for i in range(n)) \
                and bool(np.iscomplexobj(np.asarray(l32[0].array))) == bool(cplx_ and np.iscomplexobj(np.asarray(x[0].array)))
            led.check(ok32, f"post:{fn}:single_precision_file_loads", fn, "a file with 32-bit tensors (written by a single-precision run) does not come back as the same tensors",
                      key + ("fp32",), dict(fields, complex=bool(cplx_)), rep, nontriv)
        except Exception as e:
            led.check(False, f"post:{fn}:single_precision_file_loads", fn, f"loading a file with 32-bit tensors raised {type(e).__name__}: {e}", key + ("fp32",), fields, rep, nontriv)
    # older protocols the loader still accepts: "0.2" keeps the prefactor as the last entry of `tdh_wfns` (no `coeff` entry), "0.1" has no prefactor at all (documented:
    # it is lost, the state comes back with prefactor 1) and calls the direction flag `left`
    if ver == "0.4" and cls.__name__ in ("Mps", "MpDm"):
        for old_ver in ("0.2", "0.1"):
            try:
                raw = dict(np.load(fname, allow_pickle=True))
                raw = {k_: v_ for k_, v_ in raw.items() if not k_.startswith("subqn_") and k_ != "coeff"}
                raw["version"] = old_ver
                if old_ver == "0.2":
                    raw["tdh_wfns"] = np.array([x.coeff])
                else:
                    raw["left"] = raw.pop("to_right")
                old_name = fname[:-4] + f".v{old_ver.replace('.', '')}.npz"
                np.savez(old_name, **raw)
                lo = cls.load(model, old_name)
                os.remove(old_name)
                want_c = complex(x.coeff) if old_ver == "0.2" else 1.0
                same = (len(lo) == n and all(bits(lo[i].array, x[i].array) for i in range(n)) and qn_equal(lo.qn, x.qn) and int(lo.qnidx) == int(x.qnidx)
                        and np.array_equal(np.asarray(lo.qntot).reshape(-1), np.asarray(x.qntot).reshape(-1)) and bool(lo.to_right) == bool(x.to_right)
                        and complex(lo.coeff) == want_c)
                led.check(same, f"post:{fn}:file_of_protocol_{old_ver}_loads_identically", fn, f"a protocol-{old_ver} file of the same data does not come back as the dumped object "
                          f"(prefactor {lo.coeff!r}, expected {want_c!r}; to_right {lo.to_right} vs {x.to_right})", key + ("v" + old_ver,), fields, rep, nontriv)
            except Exception as e:
                led.check(False, f"post:{fn}:file_of_protocol_{old_ver}_loads_identically", fn, f"loading a protocol-{old_ver} file raised {type(e).__name__}: {e}", key + ("v" + old_ver,), fields, rep, nontriv)
    l_before = l.copy()
    later_ops(led, f"post:{fn}:later_op_identical", fn, ops, x, l, key, fields, rep, nontriv, scale)
    d = chain_diff(l_before, l)
    led.check(not d, f"frame:{fn}:reloaded_object_unchanged_by_later_ops", fn, f"operations that leave the original alone changed the reloaded object in {d[:4]}", key, fields, rep, nontriv)
    return l


def w_chain(case, led):
    _, name, n, seed, tier = case
    from renormalizer.mps import Mpo, Mps, MpDm
    rng = np.random.default_rng([seed, n, sum(map(ord, name)), 14])
    model, sectors = S.model_zoo(name, n)
    sel = list(sectors)
    rng.shuffle(sel)
    sel = sel[:2] if tier == "quick" else sel[:4]
    terms = U.random_terms(model, rng, 4, complex_factors=False)
    H = Mpo(model, terms) if terms else None
    hscale = 1.0 + sum(abs(t.factor) for t in terms)
    ops = state_ops(H)
    tmp = tempfile.mkdtemp(prefix="c14_rt_")
    cnt = 0
    try:
        for q in sel:
            for cplx in (False, True):
                m0 = U.make_state(model, q, 3, rng, complex_=cplx)
                r0 = U.make_state(model, q, 3, rng, complex_=False)
                if m0 is None or r0 is None:
                    continue
                dm0 = MpDm.from_mps(r0)
                if cplx:
                    dm0 = random_phases(dm0, rng)
                for g in ["fresh", "cano", "cano2", "compress", "left", "right", "center", "stop"]:
                    k = int(rng.integers(n))
                    for base in (m0, dm0):
                        x = S.apply_gauge(base, g, k)
                        x.coeff = COEFFS[int(rng.integers(len(COEFFS)))]
                        cnt += 1
                        fname = os.path.join(tmp, f"s{cnt}.npz")
                        key = ("chain", name, n, str(q), cplx, g, type(x).__name__)
                        rep = {"model": name, "nsites": n, "sector": q, "complex": cplx, "gauge": g, "centre": k, "seed": seed,
                               "terms": [repr(t) for t in terms],
                               "how": "vk.specs.chain.model_zoo / universe.make_state / chain.apply_gauge regenerate the state; then x.dump(f); type(x).load(model, f)"}
                        nontriv = n >= 2 and max(x.bond_dims) > 1
                        if name == "spin2qn" and n >= 3 and cplx and nontriv and g not in ("fresh", "cano") and not led.samples:
                            led.samples.append(dict(rep, part="round trip", state=describe(x), later_ops=[o[0] for o in ops],
                                                    contract="load(dump(x)): tensors bit-identical; qn per bond, qnidx, qntot, to_right, coeff identical; later ops same result"))
                        chain_roundtrip(led, x, model, fname, key, rep, ops, nontriv, scale=hscale * (1.0 + float(np.linalg.norm(S.dense(x))) ** 2))
        # ---- operators (MatrixProduct.load)
        for cf in (False, True):
            t2 = U.random_terms(model, rng, 4, complex_factors=cf)
            if not t2:
                continue
            H0 = Mpo(model, t2)
            probe = None
            for q in sel:
                probe = U.make_state(model, q, 3, rng)
                if probe is not None:
                    break
            mops = [("copy", lambda X: X.copy()),
                    ("ensure_left_canonical", lambda X: X.copy().ensure_left_canonical()),
                    ("conj_trans", lambda X: X.conj_trans()),
                    ("apply_mpo", lambda X: X.apply(H0)),
                    ("applied_by_mpo", lambda X: H0.apply(X)),
                    ("add", lambda X: X.add(H0)),
                    ("scale", lambda X: X.scale(-0.5))]
            if probe is not None:
                mops += [("apply_mps", lambda X: X.apply(probe)), ("expectation", lambda X: probe.expectation(X))]
            for g in ["fresh", "cano", "left", "right", "center"]:
                k = int(rng.integers(n))
                Hg = S.apply_gauge(H0, g, k)
                cnt += 1
                fname = os.path.join(tmp, f"o{cnt}.npz")
                key = ("mpo", name, n, cf, g)
                rep = {"model": name, "nsites": n, "terms": [repr(t) for t in t2], "gauge": g, "centre": k, "seed": seed,
                       "how": "H = Mpo(model, terms) in this gauge; H.dump(f); Mpo.load(model, f)"}
                pscale = (1.0 + sum(abs(t.factor) for t in t2)) * (1.0 + (float(np.linalg.norm(S.dense(probe))) ** 2 if probe is not None else 0.0))
                chain_roundtrip(led, Hg, model, fname, key, rep, mops, n >= 2 and max(Hg.bond_dims) > 1, fn="MatrixProduct.load", scale=pscale)
    finally:
        shutil.rmtree(tmp, ignore_errors=True)


# =============================================================================================== part 1b: spill-to-disk
def w_spill(case, led):
    _, name, n, seed, tier = case
    from renormalizer.mps import Mpo, Mps, MpDm
    rng = np.random.default_rng([seed, n, sum(map(ord, name)), 1400])
    model, sectors = S.model_zoo(name, n)
    sel = list(sectors)
    rng.shuffle(sel)
    sel = sel[:1] if tier == "quick" else sel[:2]
    terms = U.random_terms(model, rng, 4, complex_factors=False)
    H = Mpo(model, terms) if terms else None
    hscale = 1.0 + sum(abs(t.factor) for t in terms)
    ops = state_ops(H)
    tmp = tempfile.mkdtemp(prefix="c14_spill_")
    cnt = 0

    def spill_on(mp):
        mp.compress_config = mp.compress_config.copy()
        mp.compress_config.dump_matrix_size = 1      # bytes: every site tensor is larger
        mp.compress_config.dump_matrix_dir = tmp
        return mp

    try:
        for q in sel:
            for cplx in (False, True):
                m0 = U.make_state(model, q, 3, rng, complex_=cplx)
                r0 = U.make_state(model, q, 3, rng, complex_=False)
                if m0 is None or r0 is None:
                    continue
                dm0 = MpDm.from_mps(r0)
                if cplx:
                    dm0 = random_phases(dm0, rng)
                for g in (["fresh", "cano", "center"] if tier == "quick" else ["fresh", "cano", "compress", "left", "center", "stop"]):
                    for base in (m0, dm0):
                        ref = S.apply_gauge(base, g, int(rng.integers(n)))     # in-memory reference
                        ref.coeff = COEFFS[int(rng.integers(len(COEFFS)))]
                        cname = type(ref).__name__
                        key = ("spill", name, n, str(q), cplx, g, cname)
                        fields = {"cls": cname, "spill": True}
                        rep = {"model": name, "nsites": n, "sector": q, "complex": cplx, "gauge": g, "seed": seed, "state": describe(ref),
                               "how": "copy of the state with compress_config.dump_matrix_size=1 and dump_matrix_dir=<fresh temp dir>, every site re-assigned"}
                        nontriv = n >= 2 and max(ref.bond_dims) > 1
                        sp = spill_on(ref.copy())
                        for i in range(n):
                            sp[i] = np.array(ref[i].array, copy=True)
                        mydir = os.path.join(tmp, str(id(sp)))
                        spilled = [isinstance(e, str) and os.path.dirname(e) == mydir and os.path.isfile(e) for e in sp._mp]
                        led.check(all(spilled), "post:MatrixProduct._array2mt:spills_when_larger_than_dump_matrix_size", "MatrixProduct._array2mt",
                                  f"site entries {[type(e).__name__ for e in sp._mp]}: not all moved to {mydir}", key, fields, rep, nontriv)
                        def readable(stage):
                            try:
                                for i_ in range(n):
                                    _ = sp[i_].array
                                return True
                            except Exception as e_:
                                led.check(False, "post:MatrixProduct.__getitem__:spilled_site_readable", "MatrixProduct.__getitem__",
                                          f"{stage}: reading a spilled site raised {type(e_).__name__}: {e_}", key + (stage,), fields, rep, nontriv)
                                return False
                        if not readable("after the first assignment"):
                            continue
                        ok = [bits(sp[i].array, ref[i].array) and np.array_equal(np.asarray(sp[i].sigmaqn), np.asarray(ref[i].sigmaqn)) for i in range(n)]
                        led.check(all(ok), "post:MatrixProduct.__getitem__:transparent_reload", "MatrixProduct.__getitem__",
                                  f"sites {[i for i, o in enumerate(ok) if not o]} read back from disk differ (bits or sigmaqn) from what was assigned",
                                  key, fields, rep, nontriv)
                        # overwrite every site with another tensor, then write the right ones back: no stale file, no growth
                        for i in range(n):
                            sp[i] = np.asarray(ref[i].array) * 2.0
                        if not readable("after re-assigning sites that were already on disk"):
                            continue
                        ok2 = [bits(sp[i].array, np.asarray(ref[i].array) * 2.0) for i in range(n)]
                        for i in reversed(range(n)):
                            sp[i] = np.array(ref[i].array, copy=True)
                        if not readable("after re-assigning the sites a second time"):
                            continue
                        ok3 = [bits(sp[i].array, ref[i].array) for i in range(n)]
                        nfiles = len(os.listdir(mydir)) if os.path.isdir(mydir) else -1
                        led.check(all(ok2) and all(ok3) and nfiles == n, "post:MatrixProduct.__setitem__:replaces_spilled_site", "MatrixProduct.__setitem__",
                                  f"after re-assigning every site twice: values ok {all(ok2)}/{all(ok3)}, files in the spill directory {nfiles} (sites {n})",
                                  key, fields, rep, nontriv)
                        # a site can be addressed by a negative or a non-negative index: a store through one spelling is visible through the other,
                        # in read - store - read order (a site-level cache keyed by the raw index would go stale here)
                        okn = []
                        for i in range(n):
                            neg = i - n
                            for rd, wr in ((neg, i), (i, neg)):
                                _ = sp[rd].array
                                sp[wr] = np.asarray(ref[i].array) * 3.0
                                okn.append(bits(sp[rd].array, np.asarray(ref[i].array) * 3.0) and bits(sp[wr].array, np.asarray(ref[i].array) * 3.0))
                                _ = sp[rd].array
                                sp[wr] = np.array(ref[i].array, copy=True)
                                okn.append(bits(sp[rd].array, ref[i].array) and bits(sp[wr].array, ref[i].array))
                        led.check(all(okn), "post:MatrixProduct.__setitem__:visible_through_every_index_spelling", "MatrixProduct.__setitem__",
                                  "read site [-k], store site [n-k], read [-k] again (or the other way round): the old tensor came back", key, fields, rep, nontriv)
                        # round trip with a spilled source
                        cnt += 1
                        l = chain_roundtrip(led, sp, model, os.path.join(tmp, f"s{cnt}.npz"), key, rep, [], nontriv, extra_fields={"spill": True})
                        d = chain_diff(sp, ref)
                        led.check(not d, "frame:MatrixProduct.dump:spilled_source_unchanged", "MatrixProduct.dump", f"spilled source changed in {d[:4]}",
                                  key, fields, rep, nontriv)
                        # later operations with the spill active on the reloaded object == the same operations in memory
                        if l is not None:
                            spill_on(l)
                            sc = hscale * (1.0 + float(np.linalg.norm(S.dense(ref))) ** 2)
                            later_ops(led, "post:Mps.load:later_op_identical_with_spill", "Mps.load", ops, sp, l, key, fields, rep, nontriv, sc)
                            few = [o for o in ops if o[0] in ("ensure_left_canonical", "compress", "expectation", "evolve_tdvp_ps")]
                            later_ops(led, "post:MatrixProduct.__getitem__:spill_transparent_in_later_ops", "MatrixProduct.__getitem__", few, ref, sp,
                                      key + ("transparent",), fields, rep, nontriv, sc)
                            d = chain_diff(l, ref)
                            led.check(not d, "frame:MatrixProduct.copy:spilled_original_untouched", "MatrixProduct.copy",
                                      f"operations on copies of a spilled object changed the object itself in {d[:4]}", key, fields, rep, nontriv)
                            c = l.copy()
                            cdir = os.path.join(tmp, str(id(c)))
                            made = os.path.isdir(cdir)
                            del c
                            gc.collect()
                            led.check(made and not os.path.exists(cdir), "post:MatrixProduct.__del__:spill_directory_removed", "MatrixProduct.__del__",
                                      f"spill directory of a deleted copy: existed before={made}, exists after={os.path.exists(cdir)}", key, fields, rep, nontriv)
                            ok4 = [bits(l[i].array, ref[i].array) for i in range(n)] + [bits(sp[i].array, ref[i].array) for i in range(n)]
                            led.check(all(ok4), "frame:MatrixProduct.__del__:other_objects_files_kept", "MatrixProduct.__del__",
                                      "deleting one spilled object damaged the files of another", key, fields, rep, nontriv)
                        del sp, l
                        gc.collect()
                        led.check(not os.path.exists(mydir), "post:MatrixProduct.__del__:spill_directory_removed", "MatrixProduct.__del__",
                                  "spill directory still exists after the object was deleted", key + ("src",), fields, rep, nontriv)
    finally:
        gc.collect()
        shutil.rmtree(tmp, ignore_errors=True)


# =============================================================================================== part 1c: tree round trip
TREE_KINDS = ["0qn", "1qn", "2qn", "hol"]
TREE_SHAPES = ["linear", "binary", "mctdh", "mctdh_contracted", "t3ns"]


def tree_basis(kind, n):
    from renormalizer.model import basis as ba
    if kind == "0qn":
        return [ba.BasisHalfSpin(f"s{i}") for i in range(n)]
    if kind == "1qn":
        return [ba.BasisHalfSpin(f"s{i}", sigmaqn=[0, 1]) for i in range(n)]
    if kind == "2qn":
        return [ba.BasisHalfSpin(f"s{i}", sigmaqn=[[0, 0], [1, 0]] if i % 2 == 0 else [[0, 0], [0, 1]]) for i in range(n)]
    if kind == "hol":
        return [ba.BasisSimpleElectron(f"e{i}") if i % 2 == 0 else ba.BasisSHO(f"v{i}", omega=1.0 + 0.1 * i, nbas=3) for i in range(n)]
    raise ValueError(kind)


def tree_of(shape, bl):
    from renormalizer.tn import BasisTree
    if shape == "linear":
        return BasisTree.linear(bl)
    if shape == "binary":
        return BasisTree.binary(bl)
    if shape == "mctdh":
        return BasisTree.binary_mctdh(bl)
    if shape == "mctdh_contracted":
        return BasisTree.binary_mctdh(bl, contract_primitive=True)
    if shape == "t3ns":
        return BasisTree.t3ns(bl)
    raise ValueError(shape)


def tree_qntot(kind, n, which):
    if kind == "0qn":
        return [0]
    if kind == "1qn":
        return [min(n, 1 + which)]
    if kind == "2qn":
        return [1, 1 if n > 1 else 0] if which == 0 else [min((n + 1) // 2, 2), 0]
    return [1] if which == 0 else [0]


def seeded_tree(bt, qntot, m, rng):
    from renormalizer.tn import TTNS
    st = np.random.get_state()
    np.random.seed(int(rng.integers(2 ** 31 - 1)))
    try:
        return TTNS.random(bt, np.array(qntot), m)
    finally:
        np.random.set_state(st)


def w_tree(case, led):
    _, kind, n, shape, seed, tier = case
    from renormalizer.model import Model
    from renormalizer.tn import TTNS, TTNO
    from renormalizer.utils import EvolveConfig, EvolveMethod
    rng = np.random.default_rng([seed, n, TREE_KINDS.index(kind), TREE_SHAPES.index(shape), 14])
    bl = tree_basis(kind, n)
    try:
        bt = tree_of(shape, bl)
    except AssertionError:
        return      # this tree shape does not exist for so few degrees of freedom (precondition of the constructor)
    except ValueError as e:
        if "Inconsistent quantum number size" in str(e):
            return  # virtual (dummy) nodes carry one quantum number: trees with them need a 1-component model (documented precondition)
        raise
    model = Model(bl, [])
    terms = U.random_terms(model, rng, 4, complex_factors=False)
    ttno = TTNO(bt, terms) if terms else None
    tmp = tempfile.mkdtemp(prefix="c14_tree_")
    cnt = 0

    def evolve(x):
        c = x.copy()
        c.evolve_config = EvolveConfig(EvolveMethod.tdvp_ps)
        return c.evolve(ttno, 0.05)

    def compress(x):
        c = x.copy()
        c.compress_config = truncating_config()
        c.canonicalise()
        return c.compress()

    ops = [("copy", lambda x: x.copy()), ("canonicalise", lambda x: x.copy().canonicalise()), ("compress", compress),
           ("todense", lambda x: x.todense()), ("scale", lambda x: x.scale(0.5 - 1.0j)), ("add", lambda x: x.add(x)),
           ("prefactor_phase_on_derived_objects_twice", op_prefactor_phase_twice)]
    if ttno is not None:
        ops += [("expectation", lambda x: x.expectation(ttno)), ("apply", lambda x: ttno.apply(x)), ("evolve_tdvp_ps", evolve)]
    try:
        for which in (0, 1):
            qntot = tree_qntot(kind, n, which)
            try:
                t1 = seeded_tree(bt, qntot, 3, rng)
                t2 = seeded_tree(bt, qntot, 2, rng)
            except (FloatingPointError, ValueError, AssertionError, IndexError):
                continue    # sector not representable with this bond limit (precondition of TTNS.random)
            states = {"random": t1, "sum": t1.add(t2)}
            c = t1.add(t2).to_complex()
            for nd in c.node_list:
                a = nd.tensor
                ph = rng.normal(size=a.shape) + 1j * rng.normal(size=a.shape)
                nd.tensor = a * ph / np.abs(ph)
            states["complex_sum"] = c
            cc = c.copy()
            cc.canonicalise()
            states["complex_canonical"] = cc
            if len(bt.node_list) > 1:
                cc = c.copy()
                cc.compress_config = truncating_config()
                cc.canonicalise()
                cc.compress()
                states["complex_compressed"] = cc
            if ttno is not None:
                states["operator_applied"] = ttno.apply(t1)
            for sname, x in states.items():
                x.coeff = COEFFS[int(rng.integers(len(COEFFS)))]
                cnt += 1
                fname = os.path.join(tmp, f"t{cnt}.npz")
                fn = "TTNBase.load"
                fields = {"cls": "TTNS"}
                before = x.copy()
                x.dump(fname)
                ver = written_version(fname)
                key = ("tree", kind, n, shape, str(qntot), sname, ver)
                nontriv = len(bt.node_list) >= 2 and max(nd.tensor.shape[-1] for nd in x.node_list[1:]) > 1
                rep = {"basis": kind, "ndof": n, "tree": shape, "qntot": qntot, "state": sname, "coeff": x.coeff, "seed": seed, "version_written": ver,
                       "shapes": [list(nd.tensor.shape) for nd in x.node_list], "terms": [repr(t) for t in terms],
                       "how": "props.C14.tree_basis/tree_of/seeded_tree regenerate the state; x.dump(f); TTNS.load(x.basis, f)"}
                if kind == "hol" and shape == "binary" and sname == "complex_compressed" and not led.samples:
                    led.samples.append(dict(rep, part="round trip (tree)", later_ops=[o[0] for o in ops]))
                d = tree_diff(before, x)
                led.check(not d, "frame:TTNBase.dump:source_unchanged", "TTNBase.dump", f"dump changed the dumped tree in {d[:4]}", key, fields, rep, nontriv)
                try:
                    l = TTNS.load(bt, fname)
                except Exception as e:
                    led.check(False, f"post:{fn}:loads_what_dump_wrote", fn, f"TTNS.load raised {type(e).__name__}: {e} on a file written by dump "
                              f"(format version {ver})", key, dict(fields, error=type(e).__name__), rep, nontriv)
                    continue
                led.check(True, f"post:{fn}:loads_what_dump_wrote", fn, "", key, fields, rep, nontriv)
                d = tree_diff(x, l)
                led.check(not [f for f in d if f.startswith("tensor")], f"post:{fn}:tensors_bitwise", fn, f"node tensors differ after the round trip: {d[:4]}",
                          key, fields, rep, nontriv)
                led.check(not [f for f in d if f.startswith("qn[")], f"post:{fn}:node_qn", fn, f"node quantum numbers differ after the round trip: {d[:4]}",
                          key, fields, rep, nontriv)
                led.check("topology" not in d and "root" not in d, f"post:{fn}:root_and_topology", fn, f"root / connectivity differ after the round trip: {d[:4]}",
                          key, fields, rep, nontriv)
                led.check("qntot" not in d, f"post:{fn}:qntot", fn, f"qntot {l.qntot} after load, was {x.qntot}", key, fields, rep, nontriv)
                led.check("coeff" not in d, f"post:{fn}:coeff", fn, f"coeff {l.coeff!r} after load, was {x.coeff!r}", key, fields, rep, nontriv)
                sc = (1.0 + sum(abs(t.factor) for t in terms)) * (1.0 + float(np.linalg.norm(tree_dense(x))) ** 2)
                l_before = l.copy()
                later_ops(led, f"post:{fn}:later_op_identical", fn, ops, x, l, key, fields, rep, nontriv, sc)
                d = tree_diff(l_before, l)
                led.check(not d, f"frame:{fn}:reloaded_object_unchanged_by_later_ops", fn, f"operations that leave the original alone changed the reloaded tree in {d[:4]}",
                          key, fields, rep, nontriv)
                # ---- extra attributes travel with the state (dump/load with other_attrs) and never replace the prefactor
                for extra in (["time"], ["time", "label"], []):
                    x.time, x.label = 0.25 * cnt, np.arange(3) + cnt
                    f2 = os.path.join(tmp, f"t{cnt}_x{len(extra)}.npz")
                    k2 = key + ("other_attrs", len(extra))
                    try:
                        x.dump(f2, other_attrs=list(extra))
                        l2 = TTNS.load(bt, f2, other_attrs=list(extra))
                    except Exception as e:
                        led.check(False, f"post:{fn}:loads_what_dump_wrote", fn, f"dump/load with other_attrs={extra} raised {type(e).__name__}: {e}", k2,
                                  dict(fields, error=type(e).__name__, other_attrs=len(extra)), rep, nontriv)
                        continue
                    d2 = tree_diff(x, l2)
                    led.check(not d2, f"post:{fn}:round_trip_with_other_attrs", fn, f"dump/load with other_attrs={extra}: {d2[:4]} differ (coeff {l2.coeff!r}, was {x.coeff!r})",
                              k2, dict(fields, other_attrs=len(extra)), dict(rep, other_attrs=extra), nontriv)
                    ok_extra = all(hasattr(l2, a) and np.array_equal(np.asarray(getattr(l2, a)), np.asarray(getattr(x, a))) for a in extra)
                    led.check(ok_extra, f"post:{fn}:other_attrs_restored", fn, f"extra attributes {extra} not restored", k2 + ("attrs",), dict(fields, other_attrs=len(extra)),
                              dict(rep, other_attrs=extra), bool(extra))
    finally:
        shutil.rmtree(tmp, ignore_errors=True)


# =============================================================================================== part 2: crash safety
class CrashNow(BaseException):
    """the simulated death of the process (BaseException: no `except Exception/IOError` of the library may swallow it)"""


class HarnessBug(BaseException):
    """an inconsistency of this harness: must surface as a checker error, never be swallowed by the library's `except` clauses"""


FNAME = "job.npz"
BNAME = "job.npz.bak"
DT = 0.5
NONATOMIC = ("savez", "savez_compressed", "save")
WATCH_OS = ("rename", "replace", "renames", "remove", "unlink", "makedirs", "mkdir", "rmdir", "link", "symlink", "truncate")
WATCH_PATH = ("exists", "lexists", "isfile")
FRACS = ("empty", "half", "all_but_one_byte")


@functools.lru_cache(maxsize=None)
def payload(gen):
    return np.random.default_rng(1000 + gen).random(257)


def content(gen, step):
    t = [0]
    for _ in range(step):
        t.append(t[-1] + DT)
    return {"gen": np.array(gen), "step": np.array(step), "times": np.array(t), "payload": payload(gen)}


def file_bytes(gen, step):
    buf = io.BytesIO()
    np.savez(buf, **content(gen, step))
    return buf.getvalue()


_JUDGED = {}    # exact file content (hash) -> verdict of np.load; the same few contents recur thousands of times


def complete_gen(path):
    """generation number of a COMPLETELY loadable result file whose every entry is the data of one dump; None otherwise"""
    with open(path, "rb") as fh:
        raw = fh.read()
    k = hashlib.blake2b(raw, digest_size=20).digest()
    if k not in _JUDGED:
        _JUDGED[k] = _complete_gen(raw)
    return _JUDGED[k]


def _complete_gen(raw):
    try:
        with np.load(io.BytesIO(raw), allow_pickle=False) as z:
            d = {k: z[k] for k in z.files}
    except Exception:      # any failure of np.load / of reading a member = not loadable
        return None
    if set(d) != {"gen", "step", "times", "payload"}:
        return None
    try:
        gen, step = int(d["gen"]), int(d["step"])
    except Exception:
        return None
    want = content(gen, step)
    return gen if all(bits(d[k], want[k]) for k in want) else None


def inspect_dir(d):
    """{file name: generation or None (= present but not a complete result file)}"""
    out = {}
    if os.path.isdir(d):
        for nm in sorted(os.listdir(d)):
            out[nm] = complete_gen(os.path.join(d, nm))
    return out


def state_str(st):
    def one(nm):
        if nm not in st:
            return "absent"
        return "partial" if st[nm] is None else "complete"
    s = f"F={one(FNAME)},bak={one(BNAME)}"
    other = [nm for nm in st if nm not in (FNAME, BNAME)]
    if other:
        s += ",other=" + "+".join(f"{nm}:{'partial' if st[nm] is None else 'complete'}" for nm in other)
    return s


def snapshot(d):
    return {nm: open(os.path.join(d, nm), "rb").read() for nm in sorted(os.listdir(d))}


def restore(d, snap):
    for nm in os.listdir(d):
        p = os.path.join(d, nm)
        if os.path.isdir(p):
            shutil.rmtree(p)
        else:
            os.remove(p)
    for nm, b in snap.items():
        with open(os.path.join(d, nm), "wb") as fh:
            fh.write(b)


INITIAL_STATES = ["F=absent,bak=absent", "F=complete,bak=absent", "F=complete,bak=partial", "F=complete,bak=complete",
                  "F=absent,bak=complete", "F=partial,bak=complete"]


def initial_snapshot(name):
    """directory contents of an admissible initial state; complete F holds generation 10, a complete bak the older 9 (10 if F is not complete)"""
    f, b = [p.split("=")[1] for p in name.split(",")]
    snap = {}
    if f == "complete":
        snap[FNAME] = file_bytes(10, 2)
    elif f == "partial":
        fb = file_bytes(11, 3)
        snap[FNAME] = fb[:len(fb) // 2]
    if b == "complete":
        snap[BNAME] = file_bytes(9, 1) if f == "complete" else file_bytes(10, 2)
    elif b == "partial":
        fb = file_bytes(9, 1)
        snap[BNAME] = fb[:len(fb) // 3]
    return snap


def _short(a, d=None):
    out = []
    for x in a[:2]:
        if isinstance(x, (str, bytes, os.PathLike)):
            if d is not None and os.path.abspath(os.fspath(x)) == os.path.abspath(d):
                out.append("dir")
                continue
            b = os.path.basename(os.fspath(x))
            out.append({FNAME: "F", BNAME: "bak"}.get(b, b))
        else:
            out.append(type(x).__name__)
    return ",".join(out)


class Ctl:
    """fault controller + recorder for the file-system calls made from the tdmps module namespace"""

    def __init__(self, d, faults):
        self.d = d
        self.faults = list(faults)     # dicts: dump_no, idx, phase (before|after|during), frac, kind (crash|ioerror)
        self.dump_no = 0
        self.idx = 0
        self.log = {}                  # dump_no -> [(description, nonatomic)]
        self.dumps = []                # per dump: dict(gen, step, pre, executed, write_done, faulted)
        self.crash = None

    # called by the job immediately before it enters the library's TdMpsJob.dump_dict
    def begin_dump(self, gen, step):
        self.dump_no += 1
        self.idx = 0
        st = inspect_dir(self.d)
        self.dumps.append({"gen": gen, "step": step, "pre": st, "executed": [], "write_done": False, "faulted": None})

    def call(self, name, fn, a, kw, nonatomic=False):
        if not self.dumps:
            return fn(*a, **kw)
        cur = self.dumps[-1]
        i = self.idx
        self.idx += 1
        desc = f"{name}({_short(a, self.d)})"
        self.log.setdefault(self.dump_no, []).append((desc, nonatomic))
        flt = next((f for f in self.faults if f["dump_no"] == self.dump_no and f["idx"] == i), None)
        if flt is not None and flt["phase"] == "before":
            self._die(cur, flt, desc)
        if flt is not None and flt["phase"] == "during":
            if not nonatomic:
                raise HarnessBug(f"'during' fault on the atomic call {desc}")
            self._partial_write(name, fn, a, kw, flt["frac"])
            cur["executed"].append(desc + "~" + flt["frac"])
            self._die(cur, flt, desc)
        r = fn(*a, **kw)
        cur["executed"].append(desc)
        if nonatomic:
            cur["write_done"] = True
        if flt is not None and flt["phase"] == "after":
            self._die(cur, flt, desc)
        return r

    def _die(self, cur, flt, desc):
        cur["faulted"] = dict(flt, op=desc)
        if flt.get("kind", "crash") == "ioerror":
            raise OSError(errno.ENOSPC, "No space left on device (injected)")
        self.crash = dict(flt, op=desc)
        raise CrashNow(desc)

    @staticmethod
    def _partial_write(name, fn, a, kw, frac):
        buf = io.BytesIO()
        fn(buf, *a[1:], **kw)
        data = buf.getvalue()
        m = {"empty": 0, "half": len(data) // 2, "all_but_one_byte": len(data) - 1}[frac]
        tgt = a[0]
        if isinstance(tgt, (str, bytes, os.PathLike)):
            p = os.fspath(tgt)
            ext = ".npy" if name == "save" else ".npz"
            if not p.endswith(ext):
                p += ext
            with open(p, "wb") as fh:
                fh.write(data[:m])
        else:
            tgt.write(data[:m])
            tgt.flush()


class _PathProxy:
    def __init__(self, ctl):
        self._c = ctl

    def __getattr__(self, k):
        v = getattr(os.path, k)
        if k in WATCH_PATH:
            return lambda *a, **kw: self._c.call(k, v, a, kw)
        return v


class _OsProxy:
    def __init__(self, ctl):
        self._c = ctl
        self.path = _PathProxy(ctl)

    def __getattr__(self, k):
        v = getattr(os, k)
        if k in WATCH_OS:
            return lambda *a, **kw: self._c.call(k, v, a, kw)
        return v


class _NpProxy:
    def __init__(self, ctl):
        self._c = ctl

    def __getattr__(self, k):
        v = getattr(np, k)
        if k in NONATOMIC:
            return lambda *a, **kw: self._c.call(k, v, a, kw, nonatomic=True)
        return v


def make_job(d, base, ctl):
    from renormalizer.utils.tdmps import TdMpsJob

    class Job(TdMpsJob):       # minimal concrete job: no physics; dump_dict and evolve are the library's
        def init_mps(self):
            return 0

        def process_mps(self, mps):
            pass

        def evolve_single_step(self, evolve_dt):
            return self.latest_mps + 1

        def get_dump_dict(self):
            step = len(self.evolve_times) - 1
            return content(base + step, step)

        def dump_dict(self):       # marks the beginning of a dump for the recorder, then runs the library's dump_dict unchanged
            step = len(self.evolve_times) - 1
            ctl.begin_dump(base + step, step)
            return TdMpsJob.dump_dict(self)

    return Job(dump_dir=d, job_name="job")


def run_segment(d, base, nsteps, faults):
    """one process life time: a new job object in directory d runs `nsteps` steps (or dies at the injected crash)"""
    from renormalizer.utils import tdmps as td
    ctl = Ctl(d, faults)
    old = (td.os, td.np)
    td.os, td.np = _OsProxy(ctl), _NpProxy(ctl)
    quiet = td.logger.disabled
    td.logger.disabled = True      # evolve() logs the traceback of the injected IOError: noise only
    res = {"crashed": False, "error": None}
    try:
        job = make_job(d, base, ctl)
        try:
            job.evolve(DT, nsteps)
        except CrashNow:
            res["crashed"] = True
        except Exception as e:     # the library's own failure in this directory state (judged by the restart clause)
            res["error"] = f"{type(e).__name__}: {e}"
    finally:
        td.os, td.np = old
        td.logger.disabled = quiet
    res["final"] = inspect_dir(d)
    res["ctl"] = ctl
    return res


def points_of(log, fracs=FRACS):
    pts = []
    for i, (desc, nonatomic) in enumerate(log):
        pts.append({"idx": i, "phase": "before", "frac": None})
        if nonatomic:
            pts += [{"idx": i, "phase": "during", "frac": f} for f in fracs]
        pts.append({"idx": i, "phase": "after", "frac": None})
    return pts


def fkey(f):
    return (f["dump_no"], f["idx"], f["phase"], f["frac"], f.get("kind", "crash"))


def judge(led, res, nsteps, key, base_fields, rep, origin):
    """state the clauses for one segment (process life time)"""
    ctl = res["ctl"]
    dumps = ctl.dumps
    fn = "TdMpsJob.dump_dict"
    # evolve dumps exactly once per step, in step order (so 'the previous dump' is the previous step)
    steps = [dd["step"] for dd in dumps]
    want = list(range(1, len(steps) + 1))
    complete_run = not res["crashed"] and res["error"] is None
    led.check(steps == want and (not complete_run or len(steps) == nsteps), "post:TdMpsJob.evolve:one_dump_per_step", "TdMpsJob.evolve",
              f"dump_dict was entered for steps {steps}, expected {list(range(1, nsteps + 1))}", key + ("per_step",), dict(base_fields, origin=origin), rep,
              len(steps) > 1)
    # every dump that was not hit by an injected fault and was followed by something: the current step is on disk afterwards
    for j, dd in enumerate(dumps):
        if dd["faulted"] is not None:
            continue
        after = dumps[j + 1]["pre"] if j + 1 < len(dumps) else res["final"]
        if j + 1 >= len(dumps) and (res["crashed"]):
            continue
        fl = dict(base_fields, origin=origin, pre_state=state_str(dd["pre"]))
        led.check(dd["gen"] in [g for nm, g in after.items() if nm in (FNAME, BNAME)] and res["error"] is None, "post:TdMpsJob.dump_dict:current_step_written", fn,
                  f"after a dump that was not interrupted (step {dd['step']}, directory before: {state_str(dd['pre'])}) no complete file holds the step's data; "
                  f"directory after: {state_str(after)}; library error: {res['error']}", key + ("written", j), fl, dict(rep, dump_index=j + 1), True)
    if res["error"] is not None and not dumps:
        led.check(False, "post:TdMpsJob.dump_dict:current_step_written", fn, f"job failed before the first dump: {res['error']}", key + ("written", -1),
                  dict(base_fields, origin=origin), rep, True)
    # the crash invariant
    if res["crashed"]:
        dd = dumps[-1]
        # result files are the job's result file and its backup; temporary files of the writing protocol are not results
        pre_gens = [g for nm, g in dd["pre"].items() if g is not None and nm in (FNAME, BNAME)]
        prev = max(pre_gens) if pre_gens else None
        post = [g for nm, g in res["final"].items() if g is not None and nm in (FNAME, BNAME)]
        c = ctl.crash
        fl = dict(base_fields, origin=origin, pre_state=state_str(dd["pre"]), crash_op=c["op"], phase=c["phase"], frac=c["frac"],
                  executed=";".join(dd["executed"]))
        if prev is None:
            ok, nontriv = True, False      # no complete result file existed before this dump: nothing can have been lost
        else:
            allowed = {dd["gen"]} | ({prev} if prev is not None else set())
            ok, nontriv = bool(allowed & set(post)), True
        led.check(ok, "inv:TdMpsJob.dump_dict:complete_file_exists", fn,
                  f"crash {c['phase']} {c['op']}" + (f" ({c['frac']})" if c["frac"] else "") + f" in the dump of step {dd['step']}: directory before the dump "
                  f"{state_str(dd['pre'])} (newest complete generation {prev}), executed [{'; '.join(dd['executed'])}], directory after the crash "
                  f"{state_str(res['final'])} with complete generations {sorted(post)}: no complete file of the current ({dd['gen']}) or previous step remains",
                  key + ("crash",), fl, dict(rep, directory_after=state_str(res["final"])), nontriv)


def w_crash(case, led):
    try:
        return _w_crash(case, led)
    except HarnessBug as e:
        raise RuntimeError(f"harness inconsistency: {e}")


def _w_crash(case, led):
    _, init, s1, mode, seed, tier = case
    d = tempfile.mkdtemp(prefix="c14_crash_")
    n1, n2, n3 = 3, 2, 2
    second_steps = (1, 2)
    try:
        snap0 = initial_snapshot(init)
        restore(d, snap0)
        got = state_str(inspect_dir(d))
        if got != init:
            raise RuntimeError(f"harness: initial state {init} was set up as {got}")
        base_fields = {"initial_state": init}
        pre_faults = []
        if mode == "ioerror":
            # a failed write (disk full) inside the job: evolve() swallows the IOError and goes on; the crash comes in the NEXT dump
            dry = run_segment(d, 100, n1, [])
            sv = [i for i, (desc, na) in enumerate(dry["ctl"].log[s1]) if na]
            pre_faults = [{"dump_no": s1, "idx": sv[0], "phase": "during", "frac": "half", "kind": "ioerror"}]
            crash_dump = s1 + 1
        else:
            crash_dump = s1
        restore(d, snap0)
        dry = run_segment(d, 100, n1, pre_faults)
        rep0 = {"initial_state": init, "mode": mode, "segments": [{"base": 100, "nsteps": n1, "faults": pre_faults}],
                "how": "props.C14.replay(replay_dict) re-creates the directory state and re-runs the segments"}
        judge(led, dry, n1, ("crash", init, s1, mode, "dry"), base_fields, rep0, "initial" if mode == "crash" else "after_ioerror")
        if dry["crashed"] or crash_dump not in dry["ctl"].log:
            raise RuntimeError("harness: dry run did not reach the dump to be crashed")
        for p1 in points_of(dry["ctl"].log[crash_dump]):
            f1 = dict(p1, dump_no=crash_dump, kind="crash")
            restore(d, snap0)
            r1 = run_segment(d, 100, n1, pre_faults + [f1])
            if not r1["crashed"]:
                raise RuntimeError(f"harness: crash point {f1} was not reached")
            k1 = ("crash", init, s1, mode) + fkey(f1)
            rep1 = dict(rep0, segments=[{"base": 100, "nsteps": n1, "faults": pre_faults + [f1]}])
            judge(led, r1, n1, k1, base_fields, rep1, "initial" if (mode == "crash" and s1 == 1) else ("same_job" if mode == "crash" else "after_ioerror"))
            if s1 == 1 and mode == "crash" and ((init == "F=partial,bak=complete" and p1["phase"] == "after" and r1["ctl"].crash["op"].startswith("remove"))
                                                or (init == "F=complete,bak=absent" and p1["frac"] == "half")):
                dd = r1["ctl"].dumps[-1]
                led.samples.append({"part": "crash", "initial_state": init, "crashed_step": s1, "crash": f"{p1['phase']} {r1['ctl'].crash['op']}" + (f" (file truncated at {p1['frac']})" if p1["frac"] else ""),
                                    "executed_before_crash": dd["executed"], "directory_after_crash": state_str(r1["final"]),
                                    "complete_generations_after_crash": sorted(g for g in r1["final"].values() if g is not None),
                                    "then": "restart without fault, and restart with a second crash at every point of its steps 1..2 followed by a third life"})
            snap1 = snapshot(d)
            # ---- restart (new job object, same directory), no further crash
            r2 = run_segment(d, 200, n2, [])
            rep2 = dict(rep0, segments=rep1["segments"] + [{"base": 200, "nsteps": n2, "faults": []}])
            judge(led, r2, n2, k1 + ("restart",), base_fields, rep2, "restart")
            led.check(not r2["crashed"] and r2["error"] is None and (200 + n2) in r2["final"].values(), "post:TdMpsJob.dump_dict:restart_continues",
                      "TdMpsJob.dump_dict", f"job restarted into {state_str(r1['final'])} did not finish with its last step on disk: "
                      f"error={r2['error']}, directory {state_str(r2['final'])}", k1 + ("restart", "done"),
                      dict(base_fields, origin="restart", pre_state=state_str(r1["final"])), rep2, True)
            if r2["crashed"]:
                raise RuntimeError("harness: crash without a fault")
            # ---- restart with a second crash, then a third life without faults
            for s2 in second_steps:
                if s2 not in r2["ctl"].log:
                    continue
                for p2 in points_of(r2["ctl"].log[s2]):
                    f2 = dict(p2, dump_no=s2, kind="crash")
                    restore(d, snap1)
                    r2c = run_segment(d, 200, n2, [f2])
                    if not r2c["crashed"]:
                        raise RuntimeError(f"harness: second crash point {f2} was not reached")
                    k2 = k1 + ("second",) + fkey(f2)
                    rep3 = dict(rep0, segments=rep1["segments"] + [{"base": 200, "nsteps": n2, "faults": [f2]}])
                    judge(led, r2c, n2, k2, base_fields, rep3, "restart")
                    st2 = inspect_dir(d)
                    r3 = run_segment(d, 300, n3, [])
                    rep4 = dict(rep0, segments=rep3["segments"] + [{"base": 300, "nsteps": n3, "faults": []}])
                    judge(led, r3, n3, k2 + ("restart",), base_fields, rep4, "second_restart")
                    led.check(not r3["crashed"] and r3["error"] is None and (300 + n3) in r3["final"].values(), "post:TdMpsJob.dump_dict:restart_continues",
                              "TdMpsJob.dump_dict", f"job restarted into {state_str(st2)} after two crashes did not finish with its last step on disk: "
                              f"error={r3['error']}, directory {state_str(r3['final'])}", k2 + ("restart", "done"),
                              dict(base_fields, origin="second_restart", pre_state=state_str(st2)), rep4, True)
    finally:
        shutil.rmtree(d, ignore_errors=True)


def replay(rep):
    """re-run a crash scenario from the `replay` dict of a replay file; prints the directory after every process life time"""
    d = tempfile.mkdtemp(prefix="c14_replay_")
    try:
        restore(d, initial_snapshot(rep["initial_state"]))
        print("initial:", state_str(inspect_dir(d)))
        for seg in rep["segments"]:
            try:
                r = run_segment(d, seg["base"], seg["nsteps"], seg["faults"])
            except HarnessBug as e:
                print(f" the recorded fault does not fit the calls this tree makes (replay file from another version of tdmps.py?): {e}")
                return
            for dd in r["ctl"].dumps:
                print(f"  dump step {dd['step']} gen {dd['gen']}: before {state_str(dd['pre'])}; executed {dd['executed']}; fault {dd['faulted']}")
            print(f" segment base={seg['base']}: crashed={r['crashed']} error={r['error']} directory={state_str(r['final'])} "
                  f"complete generations={sorted(g for g in r['final'].values() if g is not None)}")
    finally:
        shutil.rmtree(d, ignore_errors=True)


# =============================================================================================== driver
def worker(case, led):
    kind = case[0]
    if kind == "chain":
        return w_chain(case, led)
    if kind == "spill":
        return w_spill(case, led)
    if kind == "tree":
        return w_tree(case, led)
    if kind == "crash":
        return w_crash(case, led)
    raise ValueError(kind)


def check(run):
    from props import C14_proof
    C14_proof.prove(run)
    from props import C14_sym
    from vk.symx.harness import guarded
    guarded(run, C14_sym.prove)
    tier, seed = run.tier, run.seed
    cases = []
    # crash part first (long cases first keeps the pool busy): complete enumeration
    for init in INITIAL_STATES:
        for s1 in (1, 2, 3):
            cases.append(("crash", init, s1, "crash", seed, tier))
        for s1 in (1, 2):
            cases.append(("crash", init, s1, "ioerror", seed, tier))
    seeds = [seed] if tier == "quick" else [seed, seed + 1]
    for name, n in U.chain_cases(tier, seed):
        for sd in seeds:
            cases.append(("chain", name, n, sd, tier))
        if n >= 2 or tier == "thorough":
            cases.append(("spill", name, n, seed, tier))
    # ten sites: eleven bonds, the per-bond entries of the file reach two-digit names (subqn_10)
    cases.append(("chain", "spinqn", 10, seed, tier))
    ns = [1, 2, 3, 5] if tier == "quick" else [1, 2, 3, 4, 5, 6, 7]
    shapes = TREE_SHAPES if tier == "thorough" else ["linear", "binary", "mctdh", "t3ns"]
    for kind in TREE_KINDS:
        for n in ns:
            for shape in shapes:
                for sd in seeds:
                    cases.append(("tree", kind, n, shape, sd, tier))
    only = [o for o in (getattr(run, "only", None) or []) if o in ("crash", "chain", "spill", "tree")]
    if only:      # debugging aid (./check C14 --only crash,tree): restrict to some parts; the evidence then says so
        cases = [c for c in cases if c[0] in only]
        run.extra["restricted_to_parts"] = only
    run_cases(run, worker, cases)
    run.exhaustive = not only or "crash" in only
    run.rule = ("CRASH PART (exhaustive): initial directory state of {job.npz, job.npz.bak} in {absent, partial, complete}^2 restricted to 'a complete file "
                "exists or both absent' (6 states) x crashed step 1..3 x every file-system call made from the tdmps namespace during that dump_dict "
                "(os.makedirs/exists/remove/rename/replace/..., np.savez) x {before, after; for the non-atomic np.savez also truncated at 0 bytes / half / "
                "all but one byte}; each followed by a restart (new job object, same directory) without a fault and with a second crash at every point of "
                "its steps 1..2, then a third fault-free life; plus the same after an injected ENOSPC IOError that evolve() swallows. A crash case is "
                "non-trivial when a complete file existed before the dump or the write of the current step had finished; distinct = distinct (initial "
                "state, step, call index, phase, truncation[, second crash point]) tuples. ROUND-TRIP PART (bounded, seeded): models {spin, 1 qn, 2 qn, "
                "electron-phonon, multi-electron} x 1..4(5) sites x 2(4) sectors x real/complex x 8 gauge histories x {Mps, MpDm}, Mpo in 5 gauges with "
                "real/complex factors, the same through the spill-to-disk path, TTNS on {linear, binary, MCTDH, T3NS} trees with 0/1/2 quantum numbers x "
                "6 state histories; non-trivial = >= 2 sites and a bond dimension > 1; distinct = distinct (model, size, sector, dtype, gauge, class, "
                "format version, clause/later operation) tuples")
    run.explanation = ("Crash safety is checked by fault enumeration on the real TdMpsJob.dump_dict/evolve: the tdmps module's `os` and `np` names are replaced "
                       "by recording proxies that raise a BaseException (process death) before/after every file-system call or leave a truncated file for the "
                       "non-atomic write; the directory is then judged only by np.load (a file counts iff every entry loads and equals the data of one dump). "
                       "The enumeration is complete for the stated finite space. Round trips are runtime contracts with the dumped object itself as oracle, "
                       "exact to the bit, over a bounded seeded universe (stand-in, nothing proved).")
    run.trusted += ["np.load as the judge of 'complete loadable file'; POSIX atomicity of rename/remove/exists; a crash inside np.savez leaves a prefix of the "
                    "final file (modelled at 0 bytes, half, all but one byte)",
                    "the object that was dumped as the oracle of the round trip (bitwise comparison, single-threaded BLAS so later operations are deterministic)"]
    run.assumptions.append("C14 crash model: process death only between or inside the file-system calls issued from renormalizer/utils/tdmps.py; "
                           "no power-loss reordering of completed operations (no fsync model)")
