"""Deductive part of C05: kept-count contracts of CompressConfig for all inputs (pyvc) + cnt lemma + call-site link."""
import ast

import numpy as np
import z3

from contracts import configs as K
from vk.common import REPO
from vk.pyvc.run import verify, index
from vk.rtc.native import holds


def replay_factory(method, contract):
    def replay(cex, locals_, ob):
        from renormalizer.utils.configs import CompressConfig, CompressCriteria
        s = cex.get("self") or {}
        cfg = CompressConfig()
        md = s.get("max_dims")
        cfg.max_dims = np.array(md, dtype=int) if isinstance(md, list) else None
        thr = s.get("threshold")
        if isinstance(thr, (int, float)) and 0 < thr < 1:
            cfg._threshold = float(thr)
        crit = s.get("criteria")
        if isinstance(crit, str) and crit.startswith("CompressCriteria."):
            cfg.criteria = getattr(CompressCriteria, crit.split(".")[1])
        sigma = np.array([float(x) for x in (cex.get("sigma") or [])], dtype=float)
        args = [sigma] if method == "_threshold_m_trunc" else [sigma, int(cex.get("idx", 0)), bool(cex.get("left", False))]
        try:
            res = getattr(cfg, method)(*args)
        except Exception as e:
            return True, {"call": f"CompressConfig.{method}{tuple(map(repr, args))}", "raised": repr(e)}
        class _S:  # spec view of self with the enum as the string the contract uses
            pass
        v = _S()
        v.max_dims = list(cfg.max_dims) if cfg.max_dims is not None else None
        v.threshold = cfg.threshold
        v.criteria = "CompressCriteria." + cfg.criteria.name
        env = {"self": v, "sigma": list(sigma), "idx": int(cex.get("idx", 0)), "left": bool(cex.get("left", False)), "result": int(res)}
        failed = []
        for oid, e in contract.ensures:
            try:
                if not holds(e, env):
                    failed.append(oid)
            except Exception as ex:
                failed.append(f"{oid} (spec raised {ex!r})")
        return bool(failed), {"call": f"CompressConfig.{method}(sigma={sigma.tolist()}, idx={env['idx']}, left={env['left']}) with max_dims={v.max_dims}, "
                                      f"criteria={v.criteria}, threshold={v.threshold}", "result": int(res), "failed_clauses_natively": failed}
    return replay


def lemma_cnt_bounds(run):
    """0 <= cnt(a, n) <= n for all n >= 0, by induction on n (base + step discharged by z3); the executor assumes it."""
    A = z3.Const("a", z3.ArraySort(z3.IntSort(), z3.BoolSort()))
    cnt = z3.Function("cnt", z3.ArraySort(z3.IntSort(), z3.BoolSort()), z3.IntSort(), z3.IntSort())
    n = z3.Int("n")
    defs = [cnt(A, 0) == 0, cnt(A, n + 1) == cnt(A, n) + z3.If(z3.Select(A, n), 1, 0)]
    P = lambda k: z3.And(cnt(A, k) >= 0, cnt(A, k) <= k)
    for name, hyp, goal in (("base", [defs[0]], P(z3.IntVal(0))), ("step", defs + [n >= 0, P(n)], P(n + 1))):
        s = z3.Solver()
        s.add(*hyp)
        s.add(z3.Not(goal))
        r = s.check()
        run.oblig(f"lemma:cnt_bounds:{name}", "spec:cnt", "A(pyvc-lemma)", "discharged" if r == z3.unsat else "undecided", "z3-5.1(api)")
    # prefix lemma: for a downward-closed flag array (non-increasing sigma) the kept set is the prefix [0, cnt)
    i = z3.Int("i")
    closed = z3.ForAll([i], z3.Implies(z3.And(i >= 0, z3.Select(A, i + 1)), z3.Select(A, i)))
    Q = lambda k: z3.And(P(k), z3.ForAll([i], z3.Implies(z3.And(i >= 0, i < k), z3.Select(A, i) == (i < cnt(A, k)))))
    for name, hyp, goal in (("base", [defs[0]], Q(z3.IntVal(0))), ("step", defs + [closed, n >= 0, Q(n)], Q(n + 1))):
        s = z3.Solver()
        s.set("timeout", 20000)
        s.add(*hyp)
        s.add(z3.Not(goal))
        r = s.check()
        run.oblig(f"lemma:kept_set_is_prefix_for_sorted_sigma:{name}", "spec:cnt", "A(pyvc-lemma)",
                  "discharged" if r == z3.unsat else "undecided", "z3-5.1(api)")


def call_site_links(run):
    """structural obligations linking compute_m_trunc's `left` to the bond that the callers truncate"""
    checks = [
        ("renormalizer/mps/mp.py", "MatrixProduct.compress", "compute_m_trunc", 2, "self.to_right"),
        ("renormalizer/mps/mp.py", "MatrixProduct._update_mps", "compute_m_trunc", 2, "self.to_right"),
    ]
    for rel, qual, callee, argpos, want in checks:
        oid = f"link:{qual}:passes_{want}_as_left"
        try:
            fn = index().find(rel, qual)
        except Exception as e:
            run.oblig(oid, qual, "A(pyvc-structural)", "undecided", detail=repr(e))
            continue
        found = [c for c in ast.walk(fn) if isinstance(c, ast.Call) and isinstance(c.func, ast.Attribute) and c.func.attr == callee]
        ok = bool(found) and all(len(c.args) > argpos and ast.unparse(c.args[argpos]) == want for c in found)
        if ok:
            run.oblig(oid, qual, "A(pyvc-structural)", "discharged", "ast")
        else:
            run.oblig(oid, qual, "A(pyvc-structural)", "undecided",
                      detail=f"call sites of {callee} in {qual}: {[ast.unparse(c) for c in found]} (expected argument {argpos} == {want})")
    # _update_ms: to_right branch writes bond idx+1, else bond idx
    try:
        fn = index().find("renormalizer/mps/mp.py", "MatrixProduct._update_ms")
        src = ast.unparse(fn)
        ok = "self.qn[idx + 1] = np.array(qnlset[:m_trunc])" in src and "self.qn[idx] = np.array(qnrset[:m_trunc])" in src
        run.oblig("link:MatrixProduct._update_ms:truncated_bond_is_idx+1_if_to_right_else_idx", "MatrixProduct._update_ms",
                  "A(pyvc-structural)", "discharged" if ok else "undecided", "ast",
                  detail=None if ok else "label assignment pattern of _update_ms changed; bond link not re-established")
    except Exception as e:
        run.oblig("link:MatrixProduct._update_ms:truncated_bond", "MatrixProduct._update_ms", "A(pyvc-structural)", "undecided", detail=repr(e))


def replay_compress_sweep(cex, locals_, ob):
    """native replay of a counter-model of the whole-sweep contract: a random chain with the counter-model's length and direction is compressed with the
    counter-model's limits (list / integer / configured max_dims); every interior bond must obey its own limit and the sweep must end switched"""
    from vk.specs import chain as S
    from renormalizer.utils import CompressConfig, CompressCriteria
    me = cex.get("self") or {}
    n, to_right = int(me.get("site_num", 0)), bool(me.get("to_right", True))
    if not (2 <= n <= 9):
        return False, f"site_num={n} outside the replay range 2..9"
    model, sectors = S.model_zoo("spinqn", n)
    a = S.random_mps(model, sectors[len(sectors) // 2], 6, np.random.default_rng(5))
    if a is None:
        return False, "no state"
    a.canonicalise().canonicalise()
    if a.to_right != to_right:
        a.canonicalise()
    before = [int(x) for x in a.bond_dims]
    t = cex.get("temp_m_trunc")
    cfg = (me.get("compress_config") or {})
    how = ""
    try:
        if isinstance(t, list):
            lim = [max(1, int(x)) if isinstance(x, int) else 1 for x in (t + [1] * (n + 1))[: n + 1]]
            a.compress_config = CompressConfig(CompressCriteria.fixed, max_bonddim=10 ** 4)
            a.compress(temp_m_trunc=list(lim)); how = f"compress(temp_m_trunc={lim})"
        elif isinstance(t, int):
            lim = [max(1, t)] * (n + 1)
            a.compress_config = CompressConfig(CompressCriteria.fixed, max_bonddim=10 ** 4)
            a.compress(temp_m_trunc=max(1, t)); how = f"compress(temp_m_trunc={max(1, t)})"
        else:
            md = cfg.get("max_dims")
            lim = [max(1, int(x)) if isinstance(x, int) else 1 for x in ((md if isinstance(md, list) else []) + [1] * (n + 1))[: n + 1]]
            a.compress_config = CompressConfig(CompressCriteria.fixed, max_bonddim=10 ** 4)
            a.compress_config.max_dims = np.array(lim, dtype=int)
            a.compress(); how = f"compress() with compress_config.max_dims={lim}, criteria fixed"
    except Exception as e:
        return True, {"site_num": n, "to_right": to_right, "raised": repr(e), "how": how}
    after = [int(x) for x in a.bond_dims]
    bad = [b for b in range(1, n) if after[b] > lim[b]]
    wrong_end = (a.to_right == to_right) or a.qnidx != (n - 1 if to_right else 0)
    return bool(bad) or wrong_end, {"site_num": n, "to_right": to_right, "bond_dims_before": before, "limits": lim, "bond_dims_after": after,
                                    "bonds_over_their_limit": bad, "ended_switched": not wrong_end,
                                    "how": "vk.specs.chain.model_zoo('spinqn', n), random_mps(seed 5), canonicalised into the counter-model's direction, " + how}


def prove_compress_sweep(run):
    """MatrixProduct.compress on the shape abstraction, whole function re-extracted from the current source: every interior bond is cut exactly once and
    obeys its own limit, for every chain length, both sweep directions and the three ways of giving limits"""
    from contracts import mp as M
    from vk.pyvc import engine as E
    from vk.pyvc import run as R
    from vk.pyvc.slice import whole_function, SliceError
    try:
        fn = R.index().find(M.REL, "MatrixProduct.compress")
        sl = whole_function(fn, "compress__sweep", M.COMPRESS_SUBST, M.COMPRESS_PARAMS, must_hit=M.COMPRESS_MUST_HIT)
    except (E.VCError, SliceError, ValueError, StopIteration) as e:
        run.oblig("extract:MatrixProduct.compress", "MatrixProduct.compress", "A(pyvc)", "undecided", detail=f"function could not be extracted (stale contract): {e}")
        return
    run.extra.setdefault("pyvc_slices", {})["MatrixProduct.compress"] = {
        "source": M.REL, "description": "the whole body of MatrixProduct.compress with " + ", ".join(f"`{a}` -> `{b}`" for a, b in M.COMPRESS_SUBST.items())
                                        + " (docstring dropped); callees _update_ms and compute_m_trunc by contract, iter_idx_list and _switch_direction inlined",
        "extracted_text": ast.unparse(sl)}
    for c in (M.compress_list, M.compress_int, M.compress_cfg):
        R.verify_node(run, M.REL, c, sl, contracts=M.CALLEES_COMPRESS, fingerprint=M.FINGERPRINT_COMPRESS, replay=replay_compress_sweep)
    run.trusted += ["assumed contract of MatrixProduct._update_ms on the shape abstraction (the cut bond gets min(m_trunc, len(sigma)) entries, the centre moves one "
                    "site, nothing else changes): its bookkeeping is decided by Engine S in kernel-stub mode (C04/C09 per-bond probes) and by the structural link above"]


def replay_tree_compress(cex, locals_, ob):
    """native replay for the tree recursion: random tree states (vk.specs.treeuniv) compressed with non-uniform per-node limits (list) and with an integer
    limit; every bond below the root must obey its own limit"""
    from vk.specs import treeuniv as TU
    bad = []
    tried = 0
    for n_nodes in (3, 4, 5):
        for seed in range(40, 46):
            su = TU.setup(seed, n_nodes, "spinqn", max_dim=200)
            if su is None:
                continue
            q = su["sectors"][len(su["sectors"]) // 2]
            a = TU.random_ttns(su["bt"], q, 4, su["rng"])
            if a is None:
                continue
            tried += 1
            for lim in ([1 + (i % 3) for i in range(len(a.node_list))], 2):
                x = a.copy()
                try:
                    x.compress(temp_m_trunc=lim)
                except Exception as e:
                    bad.append({"shape": repr(su["shape"]), "limits": lim, "raised": repr(e)})
                    continue
                dims = [int(nd.tensor.shape[-1]) for nd in x.node_list]
                over = [i for i, nd in enumerate(x.node_list) if nd.parent is not None and dims[i] > (lim[i] if isinstance(lim, list) else lim)]
                if over:
                    bad.append({"shape": repr(su["shape"]), "limits": lim, "bond_dims": dims, "nodes_over_their_limit": over})
    return bool(bad), {"trees_tried": tried, "failures": bad[:4], "how": "vk.specs.treeuniv.setup(seed 40..45, 3..5 nodes, 'spinqn') + random_ttns(M=4); TTNS.compress(temp_m_trunc=list / int)"}


def prove_tree_compress_recursion(run):
    """compress_recursion (tn/tree.py) as a whole function on the shape abstraction, recursion by its own contract: every bond below the start node obeys its own
    limit and nothing else changes, for every tree"""
    from contracts import tree as TC
    from vk.pyvc import engine as E
    from vk.pyvc import run as R
    from vk.pyvc.slice import whole_function, SliceError
    try:
        fn = R.index().find(TC.REL, "compress_recursion")
        sl = whole_function(fn, "compress_recursion", TC.SUBST, TC.PARAMS, must_hit=TC.MUST_HIT)
    except (E.VCError, SliceError, ValueError, StopIteration) as e:
        run.oblig("extract:compress_recursion", "compress_recursion", "A(pyvc)", "undecided", detail=f"function could not be extracted (stale contract): {e}")
        return
    run.extra.setdefault("pyvc_slices", {})["compress_recursion"] = {
        "source": TC.REL, "description": "the whole body of compress_recursion with " + ", ".join(f"`{a}` -> `{b}`" for a, b in TC.SUBST.items())
                                         + " (nodes are integers, ghost field dim = bond dimension to the parent, ghost relation desc = subtree membership under the tree axioms)",
        "extracted_text": ast.unparse(sl)}
    for main, callees in (TC.rec_list, TC.rec_int):
        R.verify_node(run, TC.REL, main, sl, contracts=callees, fingerprint=TC.FINGERPRINT, replay=replay_tree_compress)
    run.trusted += ["assumed contracts of TTNS.compress_node (cuts the bond of the given child with that child's own limit, nothing else changes) and TTNS.push_cano_to_parent "
                    "(the bond does not grow, nothing else changes) on the shape abstraction: decided for all tensor values by the Engine-S per-node probes (C05/C11) and bounded",
                    "tree axioms T1-T5 for the ghost relation desc (satisfied by the reflexive-transitive closure of `children` in every finite rooted tree)"]


def prove(run):
    lemma_cnt_bounds(run)
    verify(run, K.REL, K.fixed, replay=replay_factory("_fixed_m_trunc", K.fixed), fingerprint={})
    verify(run, K.REL, K.threshold, replay=replay_factory("_threshold_m_trunc", K.threshold), fingerprint={})
    verify(run, K.REL, K.compute, contracts=K.CALLEES, replay=replay_factory("compute_m_trunc", K.compute), fingerprint={})
    call_site_links(run)
    prove_compress_sweep(run)
    prove_tree_compress_recursion(run)
    run.trusted += ["assumed contract: scipy.linalg.norm(sigma) >= 0", "np.sum(boolean array) = recursive count cnt (definition)"]
