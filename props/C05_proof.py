"""Deductive part of C05: kept-count contracts of CompressConfig for all inputs (pyvc) + cnt lemma + call-site link."""
import ast

import numpy as np
import z3

from contracts import configs as K
from vk.common import REPO
from vk.pyvc.run import verify, index
from vk.rtc.native import holds


def replay_factory(method, contract):
    def replay(cex, locals_, ob):
        from renormalizer.utils.configs import CompressConfig, CompressCriteria
        s = cex.get("self") or {}
        cfg = CompressConfig()
        md = s.get("max_dims")
        cfg.max_dims = np.array(md, dtype=int) if isinstance(md, list) else None
        thr = s.get("threshold")
        if isinstance(thr, (int, float)) and 0 < thr < 1:
            cfg._threshold = float(thr)
        crit = s.get("criteria")
        if isinstance(crit, str) and crit.startswith("CompressCriteria."):
            cfg.criteria = getattr(CompressCriteria, crit.split(".")[1])
        sigma = np.array([float(x) for x in (cex.get("sigma") or [])], dtype=float)
        args = [sigma] if method == "_threshold_m_trunc" else [sigma, int(cex.get("idx", 0)), bool(cex.get("left", False))]
        try:
            res = getattr(cfg, method)(*args)
        except Exception as e:
            return True, {"call": f"CompressConfig.{method}{tuple(map(repr, args))}", "raised": repr(e)}
        class _S:  # spec view of self with the enum as the string the contract uses
            pass
        v = _S()
        v.max_dims = list(cfg.max_dims) if cfg.max_dims is not None else None
        v.threshold = cfg.threshold
        v.criteria = "CompressCriteria." + cfg.criteria.name
        env = {"self": v, "sigma": list(sigma), "idx": int(cex.get("idx", 0)), "left": bool(cex.get("left", False)), "result": int(res)}
        failed = []
        for oid, e in contract.ensures:
            try:
                if not holds(e, env):
                    failed.append(oid)
            except Exception as ex:
                failed.append(f"{oid} (spec raised {ex!r})")
        return bool(failed), {"call": f"CompressConfig.{method}(sigma={sigma.tolist()}, idx={env['idx']}, left={env['left']}) with max_dims={v.max_dims}, "
                                      f"criteria={v.criteria}, threshold={v.threshold}", "result": int(res), "failed_clauses_natively": failed}
    return replay


def lemma_cnt_bounds(run):
    """0 <= cnt(a, n) <= n for all n >= 0, by induction on n (base + step discharged by z3); the executor assumes it."""
    A = z3.Const("a", z3.ArraySort(z3.IntSort(), z3.BoolSort()))
    cnt = z3.Function("cnt", z3.ArraySort(z3.IntSort(), z3.BoolSort()), z3.IntSort(), z3.IntSort())
    n = z3.Int("n")
    defs = [cnt(A, 0) == 0, cnt(A, n + 1) == cnt(A, n) + z3.If(z3.Select(A, n), 1, 0)]
    P = lambda k: z3.And(cnt(A, k) >= 0, cnt(A, k) <= k)
    for name, hyp, goal in (("base", [defs[0]], P(z3.IntVal(0))), ("step", defs + [n >= 0, P(n)], P(n + 1))):
        s = z3.Solver()
        s.add(*hyp)
        s.add(z3.Not(goal))
        r = s.check()
        run.oblig(f"lemma:cnt_bounds:{name}", "spec:cnt", "A(pyvc-lemma)", "discharged" if r == z3.unsat else "undecided", "z3-5.1(api)")
    # prefix lemma: for a downward-closed flag array (non-increasing sigma) the kept set is the prefix [0, cnt)
    i = z3.Int("i")
    closed = z3.ForAll([i], z3.Implies(z3.And(i >= 0, z3.Select(A, i + 1)), z3.Select(A, i)))
    Q = lambda k: z3.And(P(k), z3.ForAll([i], z3.Implies(z3.And(i >= 0, i < k), z3.Select(A, i) == (i < cnt(A, k)))))
    for name, hyp, goal in (("base", [defs[0]], Q(z3.IntVal(0))), ("step", defs + [closed, n >= 0, Q(n)], Q(n + 1))):
        s = z3.Solver()
        s.set("timeout", 20000)
        s.add(*hyp)
        s.add(z3.Not(goal))
        r = s.check()
        run.oblig(f"lemma:kept_set_is_prefix_for_sorted_sigma:{name}", "spec:cnt", "A(pyvc-lemma)",
                  "discharged" if r == z3.unsat else "undecided", "z3-5.1(api)")


def call_site_links(run):
    """structural obligations linking compute_m_trunc's `left` to the bond that the callers truncate"""
    checks = [
        ("renormalizer/mps/mp.py", "MatrixProduct.compress", "compute_m_trunc", 2, "self.to_right"),
        ("renormalizer/mps/mp.py", "MatrixProduct._update_mps", "compute_m_trunc", 2, "self.to_right"),
    ]
    for rel, qual, callee, argpos, want in checks:
        oid = f"link:{qual}:passes_{want}_as_left"
        try:
            fn = index().find(rel, qual)
        except Exception as e:
            run.oblig(oid, qual, "A(pyvc-structural)", "undecided", detail=repr(e))
            continue
        found = [c for c in ast.walk(fn) if isinstance(c, ast.Call) and isinstance(c.func, ast.Attribute) and c.func.attr == callee]
        ok = bool(found) and all(len(c.args) > argpos and ast.unparse(c.args[argpos]) == want for c in found)
        if ok:
            run.oblig(oid, qual, "A(pyvc-structural)", "discharged", "ast")
        else:
            run.oblig(oid, qual, "A(pyvc-structural)", "undecided",
                      detail=f"call sites of {callee} in {qual}: {[ast.unparse(c) for c in found]} (expected argument {argpos} == {want})")
    # _update_ms: to_right branch writes bond idx+1, else bond idx
    try:
        fn = index().find("renormalizer/mps/mp.py", "MatrixProduct._update_ms")
        src = ast.unparse(fn)
        ok = "self.qn[idx + 1] = np.array(qnlset[:m_trunc])" in src and "self.qn[idx] = np.array(qnrset[:m_trunc])" in src
        run.oblig("link:MatrixProduct._update_ms:truncated_bond_is_idx+1_if_to_right_else_idx", "MatrixProduct._update_ms",
                  "A(pyvc-structural)", "discharged" if ok else "undecided", "ast",
                  detail=None if ok else "label assignment pattern of _update_ms changed; bond link not re-established")
    except Exception as e:
        run.oblig("link:MatrixProduct._update_ms:truncated_bond", "MatrixProduct._update_ms", "A(pyvc-structural)", "undecided", detail=repr(e))


def prove(run):
    lemma_cnt_bounds(run)
    verify(run, K.REL, K.fixed, replay=replay_factory("_fixed_m_trunc", K.fixed), fingerprint={})
    verify(run, K.REL, K.threshold, replay=replay_factory("_threshold_m_trunc", K.threshold), fingerprint={})
    verify(run, K.REL, K.compute, contracts=K.CALLEES, replay=replay_factory("compute_m_trunc", K.compute), fingerprint={})
    call_site_links(run)
    run.trusted += ["assumed contract: scipy.linalg.norm(sigma) >= 0", "np.sum(boolean array) = recursive count cnt (definition)"]
