"""Tree part of C06: TTNS constructors and operations stay in the sector with valid labels (bounded)."""
import numpy as np

from vk.rtc.harness import run_cases
from vk.specs import tree as T
from vk.specs import treeuniv as TU
from vk.specs import chain as S


def worker(case, led):
    n_nodes, flavour, seed, tier = case
    su = TU.setup(seed, n_nodes, flavour, max_dim=300)
    if su is None:
        return
    bt, order, model, H, sectors, rng = su["bt"], su["order"], su["model"], su["H"], su["sectors"], su["rng"]
    # product states from a condition (TTNS(basis, condition)): the occupied local state of every degree of freedom, wherever it sits in its node
    from renormalizer.tn import TTNS
    dims = [b.nbas for b in order]
    for trial in range(4):
        occ = [0] * len(order) if trial == 0 else ([d - 1 for d in dims] if trial == 1 else [int(rng.integers(d)) for d in dims])
        cond = {b.dofs[0]: k for b, k in zip(order, occ) if k or trial == 3}
        key = (repr(su["shape"]), flavour, seed, "product", trial)
        rep = dict(TU.describe_tree(bt), flavour=flavour, seed=seed, condition={repr(k): v for k, v in cond.items()})
        try:
            a = TTNS(bt, cond)
        except Exception as e:
            led.check(False, "post:TTNS.__init__:product_state_total", "TTNS.__init__", f"raised {type(e).__name__}: {e}", key, {}, rep)
            continue
        want = np.zeros(int(np.prod(dims)))
        want[int(np.ravel_multi_index(occ, dims))] = 1.0
        v = T.dense_ttns(a, order)
        qexp = sum(np.asarray(b.sigmaqn[k]).reshape(-1) for b, k in zip(order, occ))
        bad = T.qnv_tree_violations(a)
        led.check(np.abs(v - want).max() <= 1e-14 and np.array_equal(np.asarray(a.qntot).reshape(-1), np.asarray(qexp).reshape(-1)) and not bad,
                  "post:TTNS.__init__:product_state_in_its_sector_with_valid_labels", "TTNS.__init__",
                  f"dense differs by {np.abs(v - want).max():.1e}; qntot {a.qntot} vs charge of the occupied local states {qexp}; labels {bad[:1]}", key, {"trial": trial}, rep)
    # charged one-body operators on EVERY degree of freedom, wherever it sits in its node: the operator carries its charge, the image of a state lies in the shifted
    # sector with valid labels
    from renormalizer.tn import TTNO
    from vk.specs import universe as U_
    ch_ops = [(op, ch) for op, ch, s_ in U_.elem_ops(model) if any(ch)]
    for op, ch in ch_ops[:8]:
        key = (repr(su["shape"]), flavour, seed, "charged-op", repr(op))
        rep = dict(TU.describe_tree(bt), flavour=flavour, seed=seed, op=repr(op), charge=list(ch))
        try:
            O = TTNO(bt, [op])
        except Exception as e:
            led.check(False, "post:TTNO.__init__:charged_operator_total", "TTNO.__init__", f"raised {type(e).__name__}: {e}", key, {}, rep)
            continue
        led.check(np.array_equal(np.asarray(O.qntot).reshape(-1), np.asarray(ch).reshape(-1)), "post:TTNO.__init__:qntot_is_the_charge_of_the_operator", "TTNO.__init__",
                  f"qntot {O.qntot} for an operator of charge {list(ch)}", key + ("qntot",), {}, rep)
        for q in sectors[:3]:
            a = TU.random_ttns(bt, q, 2, rng)
            if a is None:
                continue
            va = T.dense_ttns(a, order)
            want = U_.dense_terms(model, [op]) @ va
            if np.abs(want).max() <= 1e-12:
                continue
            try:
                r = O.apply(a)
                qn_want = np.asarray(q).reshape(-1) + np.asarray(ch).reshape(-1)
                mask2 = S.sector_mask(model, qn_want if len(qn_want) > 1 else int(qn_want[0]))
                w = T.dense_ttns(r, order)
                leak = float(np.abs(w[~mask2]).max()) if (~mask2).any() else 0.0
                led.check(np.abs(w - want).max() <= 1e-10 and np.array_equal(np.asarray(r.qntot).reshape(-1), qn_want) and leak <= 1e-12 and not T.qnv_tree_violations(r),
                          "post:TTNO.apply:charged_operator_shifts_the_sector", "TTNO.apply",
                          f"O|a>: sector label {r.qntot} (expected {qn_want.tolist()}), leak {leak:.1e}, labels {T.qnv_tree_violations(r)[:1]}", key + (str(q),), {}, dict(rep, sector=q))
            except Exception as e:
                led.check(False, "post:TTNO.apply:charged_operator_total", "TTNO.apply", f"raised {type(e).__name__}: {e}", key + (str(q),), {}, dict(rep, sector=q))
    # sums of charged operators of one charge: operator bonds with non-uniform labels, applied to states with bonds wider than one; the labels of the image must
    # describe its non-zero blocks so that label-driven canonicalisation and compression at full rank keep the vector
    by_charge = {}
    for op, ch in ch_ops:
        by_charge.setdefault(tuple(int(x) for x in np.asarray(ch).reshape(-1)), []).append(op)
    for ch, ops in list(by_charge.items())[:2]:
        if len(ops) < 2:
            continue
        ops = [o * (0.3 + 0.2 * i) for i, o in enumerate(ops)]
        key = (repr(su["shape"]), flavour, seed, "charged-sum", ch)
        rep = dict(TU.describe_tree(bt), flavour=flavour, seed=seed, ops=[repr(o) for o in ops], charge=list(ch))
        try:
            O = TTNO(bt, ops)
            Od = U_.dense_terms(model, ops)
        except Exception as e:
            led.ok("skipped:TTNO.__init__:charged_sum_not_constructible", "TTNO.__init__", key, nontrivial=False)
            continue
        for q in sectors[:4]:
            a = TU.random_ttns(bt, q, 3, rng)
            if a is None:
                continue
            want = Od @ T.dense_ttns(a, order)
            if np.abs(want).max() <= 1e-12:
                continue
            try:
                r = O.apply(a)
                bad = T.qnv_tree_violations(r)
                r2 = r.copy().canonicalise()
                from renormalizer.utils import CompressConfig, CompressCriteria
                r2.compress_config = CompressConfig(CompressCriteria.fixed, max_bonddim=64)
                r2.compress()
                w = T.dense_ttns(r2, order)
                led.check(not bad and np.abs(w - want).max() <= 1e-9, "post:TTNO.apply:charged_sum_labels_describe_the_blocks", "TTNO.apply",
                          f"labels {bad[:1]}; after canonicalise + full-rank compress the vector differs by {np.abs(w - want).max():.1e}", key + (str(q),), {}, dict(rep, sector=q))
            except Exception as e:
                led.check(False, "post:TTNO.apply:charged_sum_total", "TTNO.apply", f"raised {type(e).__name__}: {e}", key + (str(q),), {}, dict(rep, sector=q))
    # chain states converted to trees (from_mps): same sector, labels describe the blocks, label-driven operations keep the vector
    if flavour == "spinqn" and n_nodes >= 3:
        from renormalizer.mps import Mps
        from renormalizer.tn.tree import from_mps
        for q in sectors[:4]:
            key = (repr(su["shape"]), flavour, seed, "from_mps", str(q))
            rep = dict(flavour=flavour, seed=seed, sector=q, n=len(order))
            try:
                np.random.seed(seed + 17)
                from renormalizer.model import Model
                model_h = Model(list(model.basis), [op for op, ch, s_ in U_.elem_ops(model) if not any(ch)][:3])     # from_mps also builds the operator of the model
                mps = Mps.random(model_h, q, 4, percent=1.0)
            except Exception:
                led.ok("skipped:Mps.random:sector_not_representable", "Mps.random", key, nontrivial=False)
                continue
            ref = S.dense(mps, with_coeff=False).reshape(-1)
            if np.abs(ref).max() <= 1e-12:
                continue
            try:
                b2, t2, _o2 = from_mps(mps)
                bad = T.qnv_tree_violations(t2)
                v0 = T.dense_ttns(t2, list(model.basis))
                t3 = t2.copy().canonicalise()
                from renormalizer.utils import CompressConfig, CompressCriteria
                t3.compress_config = CompressConfig(CompressCriteria.fixed, max_bonddim=64)
                t3.compress()
                v1 = T.dense_ttns(t3, list(model.basis))
                led.check(not bad and np.array_equal(np.asarray(t2.qntot).reshape(-1), np.asarray(mps.qntot).reshape(-1)) and np.abs(v0 - ref).max() <= 1e-10 and np.abs(v1 - ref).max() <= 1e-9,
                          "post:from_mps:tree_state_in_the_sector_with_labels_describing_the_blocks", "from_mps",
                          f"labels {bad[:1]}; qntot {t2.qntot} vs {mps.qntot}; dense differs by {np.abs(v0 - ref).max():.1e}, after canonicalise + full-rank compress by {np.abs(v1 - ref).max():.1e}",
                          key, {}, rep)
            except Exception as e:
                led.check(False, "post:from_mps:total", "from_mps", f"raised {type(e).__name__}: {e}", key, {}, rep)
    for q in sectors:           # every sector incl. empty / completely filled
        for m in (1, 3):
            a = TU.random_ttns(bt, q, m, rng)
            key = (repr(su["shape"]), flavour, seed, str(q), m)
            if a is None:
                led.ok("skipped:TTNS.random:sector_not_representable", "TTNS.random", key, nontrivial=False)
                continue
            rep = dict(TU.describe_tree(bt), flavour=flavour, seed=seed, sector=q, m_max=m)
            mask = S.sector_mask(model, q)
            v = T.dense_ttns(a, order)
            leak = float(np.abs(v[~mask]).max()) if (~mask).any() else 0.0
            led.check(not T.qnv_tree_violations(a) and leak == 0.0 and np.all(np.asarray(a.qntot).reshape(-1) == np.asarray(q).reshape(-1)), "post:TTNS.random:in_sector_and_qn_valid",
                      "TTNS.random", f"leak {leak:.1e}, qntot {a.qntot}, {T.qnv_tree_violations(a)[:1]}", key, {"extreme_sector": bool(mask.sum() == 1)}, rep)
            r = H.apply(a)
            r.canonicalise()
            w = T.dense_ttns(r, order)
            leak = float(np.abs(w[~mask]).max()) if (~mask).any() else 0.0
            led.check(not T.qnv_tree_violations(r) and leak <= 1e-12, "post:TTNO.apply+canonicalise:stays_in_sector", "TTNO.apply", f"leak {leak:.1e}", key + ("H",), {}, rep)
            if len(bt.node_list) >= 2:
                from renormalizer.utils import CompressConfig, CompressCriteria
                r.compress_config = CompressConfig(CompressCriteria.fixed, max_bonddim=2)
                r.compress()
                w = T.dense_ttns(r, order)
                leak = float(np.abs(w[~mask]).max()) if (~mask).any() else 0.0
                led.check(not T.qnv_tree_violations(r) and leak <= 1e-12, "post:TTNS.compress:stays_in_sector", "TTNS.compress", f"leak {leak:.1e}", key + ("compress",), {}, rep)


def check(run):
    seeds = list(range(run.seed * 100, run.seed * 100 + (2 if run.tier == "quick" else 8)))
    cases = [(nn, fl, s, run.tier) for s in seeds for nn in (2, 3, 4, 5) for fl in ("spinqn", "holstein")]
    run_cases(run, worker, cases)
