"""C13 Operations return new objects and never disturb the state of their inputs."""
from vk.rtc.harness import run_cases
from vk.specs import walker

LEVEL = "other"
TECHNIQUE = ("frame contracts (modifies-nothing on the represented vector of every live object, no shared tensor memory) evaluated at run time over "
             "random finite operation histories on the real methods, chains and trees (bounded stand-in); static modifies clauses of ~70 public methods discharged over "
             "the current source by an alias/effect analysis (every write through a parameter alias must be covered by the clause)")


def worker(case, led):
    name, n, seed, length, tier = case
    walker.walk(name, n, seed, length, led, {"frame"}, tier)


def check(run):
    from props import C13_extra
    nseeds = 2 if run.tier == "quick" else 12
    length = 25 if run.tier == "quick" else 60
    cases = [(name, n, run.seed * 1000 + s, length, run.tier) for name in ("spinqn", "holstein", "spin2qn", "spin") for n in (2, 3, 4) for s in range(nseeds)]
    run_cases(run, worker, cases)
    C13_extra.check(run)
    run.rule = ("random operation histories (add, sub, scale, conj, copy, to_complex, in-place gauge moves, compress of a copy, Mpo.apply, charged operators, "
                "move_qnidx, expectation, distance, in-place mutation of a derived result, normalize of a copy, evolve with every scheme / both solvers / "
                "real and imaginary time) over a pool of live states; after each operation every live object's dense vector x prefactor is compared with "
                "its recorded value; distinct = (model, size, seed, step, op, object)")
    run.sample({"model": "holstein", "nsites": 4, "history": ["add(random q=1, random q=1)", "evolve(#0:add, tdvp_ps, dt=0.05, krylov)", "H@#1:evolve"],
                "contract": "all other live objects unchanged; result shares no memory with inputs"})
    run.rule += ("; tree histories (copy, to_complex, scale, add, TTNO.apply/contract, expectation, RDMs, entropy, evolve with the 4 tree schemes in real and imaginary time, compress of a "
                 "copy, then in-place scale/normalize/canonicalise/compress of the result or of another live object) on enumerated trees; compressed_sum over 1-4 summands; operator and "
                 "density-operator methods; plus the static effect obligations")
    run.explanation = "see rule; exemptions per property text: OFS re-orders the Hamiltonian in place, optimize_mps overwrites its initial guess"
    run.trusted += ["independent dense contraction as denotation"]
