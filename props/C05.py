"""C05 Truncation respects the bond limit and the discarded-weight error bound."""
import numpy as np

from vk.rtc.harness import run_cases
from vk.specs import chain as S
from vk.specs import universe as U

LEVEL = "other"
TECHNIQUE = ("contract-based deductive verification of the kept-count functions (CompressConfig._fixed_m_trunc/_threshold_m_trunc/compute_m_trunc: "
             "pyvc VCs from the real source, z3, all inputs) + induction lemmas; error-bound theorems (Eckart-Young / TT-SVD) as runtime contracts "
             "against dense SVD spectra on bounded inputs (bounded stand-in)")
KE = 1e-9   # kappa*eps with kappa ~ 4e6: rounding of a few blocked SVD sweeps on norm-1 states is ~1e-15


def cut_spectra(v, dims):
    """singular values of the dense vector at every interior cut"""
    out = []
    for b in range(1, len(dims)):
        m = v.reshape(int(np.prod(dims[:b])), -1)
        out.append(np.linalg.svd(m, compute_uv=False))
    return out


def tail(s, k):
    return float(np.sum(s[k:] ** 2))


def set_config(mp, crit, M=None, thr=None, per_bond=None):
    from renormalizer.utils import CompressCriteria, CompressConfig
    cfg = CompressConfig(criteria=getattr(CompressCriteria, crit), threshold=thr if thr is not None else 1e-3,
                         max_bonddim=M if M is not None else 32)
    if per_bond is not None:
        cfg.max_dims = np.array(per_bond, dtype=int)
    mp.compress_config = cfg
    return mp


def degenerate_state(model, rng):
    """product of Bell-like pairs: exactly degenerate non-zero singular values at the middle of each pair"""
    from renormalizer.mps import Mps
    n = len(model.basis)
    dims = [b.nbas for b in model.basis]
    v = np.ones(1)
    i = 0
    while i < n:
        if i + 1 < n and dims[i] == dims[i + 1]:
            pair = np.eye(dims[i]).reshape(-1) / np.sqrt(dims[i])
            v = np.kron(v, pair)
            i += 2
        else:
            e = np.zeros(dims[i]); e[0] = 1.0
            v = np.kron(v, e)
            i += 1
    return v


def multiplet_state(model, rng):
    """a state whose middle cut has the Schmidt values (0.7, 0.5, 0.5, 0.1)/norm: an exactly degenerate pair that is NOT the leading one, so a limit M = 2
    cuts through the multiplet (the bond-limit and discarded-weight clauses must hold for the limit as given, whichever of the two degenerate vectors survives)"""
    n = len(model.basis)
    dims = [b.nbas for b in model.basis]
    dl, dr = int(np.prod(dims[: n // 2])), int(np.prod(dims[n // 2:]))
    k = min(dl, dr, 4)
    sv = np.array([0.7, 0.5, 0.5, 0.1][:k])
    ql, _ = np.linalg.qr(rng.normal(size=(dl, dl)))
    qr_, _ = np.linalg.qr(rng.normal(size=(dr, dr)))
    m = (ql[:, :k] * sv[None, :]) @ qr_[:, :k].T
    v = m.reshape(-1)
    return v / np.linalg.norm(v)


def worker(case, led):
    name, n, seed, tier = case
    rng = np.random.default_rng([seed, n, 77, sum(map(ord, name))])
    model, sectors = S.model_zoo(name, n)
    dims = [b.nbas for b in model.basis]
    sel = list(sectors)
    rng.shuffle(sel)
    states = []
    for q in sel[: (2 if tier == "quick" else 4)]:
        st = U.make_state(model, q, 6, rng, complex_=(rng.random() < 0.3))
        if st is not None:
            states.append((f"random q={q}", st))
    if name == "spin" and n >= 2:
        from renormalizer.mps import Mps
        try:
            dv = degenerate_state(model, rng)
            states.append(("bell-pairs(degenerate singular values)", Mps.from_dense(model, dv)))
        except Exception as e:
            led.error("degenerate_state", e)
        if n >= 4:
            try:
                states.append(("interior degenerate multiplet at the middle cut", Mps.from_dense(model, multiplet_state(model, rng))))
            except Exception as e:
                led.error("multiplet_state", e)
    # operators and density operators: the same contract on the operator-Schmidt spectra (site index pairs (up, down) grouped per site)
    try:
        from renormalizer.mps import MpDm, Mpo
        from vk.specs import dyn as Dn
        if states:
            rho = MpDm.from_mps(states[0][1])
            terms = Dn.hamiltonian(name, n, np.random.default_rng([seed, n, 78]))[1]
            Hop = Mpo(model, terms)
            states.append(("density operator |a><a|", rho))
            states.append(("H rho (density operator)", Hop.apply(rho)))
            # (plain operators are outside the property, which speaks about states: Mpo.compress keeps the singular values in the tensor it leaves behind
            #  - `_update_ms`, operator branch - so later cuts are not taken in a canonical gauge and the sandwich does not apply; seen while building this)
    except Exception as e:
        led.error("operator objects", e)
    n_sites = n

    def vec_and_dims(obj):
        d = S.dense(obj)
        if d.ndim == 2 and d.shape[0] == d.shape[1] and np.asarray(obj[0].array).ndim == 4:
            t = d.reshape(dims + dims).transpose([x for i in range(n_sites) for x in (i, n_sites + i)])
            return t.reshape(-1), [x * x for x in dims]
        return d, dims
    fn = "MatrixProduct.compress"
    for label, st0 in states:
        for direction in ("left", "right"):
            base = st0.copy()
            base = base.ensure_left_canonical() if direction == "left" else base.ensure_right_canonical()
            if getattr(base, "is_mpo", False):
                # operators: ensure_*_canonical trusts the centre/direction flags (check_*_canonical is not meaningful for the operator convention, in which the
                # norm travels with the isometries); the library itself always calls canonicalise() explicitly before compressing an operator - so does the harness
                base.canonicalise().canonicalise()
            v0, dims_v = vec_and_dims(base)
            nrm0 = float(np.linalg.norm(v0))
            if nrm0 == 0:
                continue
            spectra = cut_spectra(v0, dims_v)
            bd0 = list(base.bond_dims)
            configs = [("fixed", dict(M=M)) for M in (1, 2, 3)] + [("fixed", dict(M=64))]
            if n >= 3:
                pb = [1] + [int(rng.integers(1, 4)) for _ in range(n - 1)] + [1]
                pb2 = [1] + [1 + (i % 3) for i in range(n - 1)] + [1]
                configs += [("fixed", dict(per_bond=pb)), ("both", dict(per_bond=pb2, thr=1e-4)), ("both", dict(per_bond=pb[::-1], thr=0.05))]
            configs += [("threshold", dict(thr=t)) for t in (0.5, 0.1, 1e-3)] + [("both", dict(M=2, thr=0.2))]
            for crit, kw in configs:
                mp = set_config(base.copy(), crit, **kw)
                key = (name, n, label, direction, crit, str(sorted(kw.items())))
                rep = {"model": name, "nsites": n, "state": label, "canonical": direction, "criteria": crit, "config": kw,
                       "bond_dims_before": bd0, "seed": seed,
                       "how": "state = vk.specs.universe.make_state(...).ensure_<direction>_canonical(); compress_config as given; .compress()"}
                fields = {"criteria": crit, "direction": direction, "per_bond": "per_bond" in kw}
                try:
                    out = mp.compress()
                except Exception as e:
                    led.check(False, f"post:{fn}:total", fn, f"compress raised {type(e).__name__}: {e}", key, fields, rep)
                    continue
                vc = vec_and_dims(out)[0]
                bd = list(out.bond_dims)
                nontriv = any(b < b0 for b, b0 in zip(bd, bd0))
                # --- bond limit
                if crit in ("fixed", "both"):
                    lim = kw.get("per_bond") or [kw["M"]] * (n + 1)
                    ok = all(bd[b] <= lim[b] for b in range(1, n))
                    led.check(ok, f"post:{fn}:bond_limit", fn, f"bond_dims {bd} exceed limits {list(lim)}", key + ("limit",), fields, rep, nontriv)
                    # the limits travel with the object: a copy of the configured state, compressed later, obeys the same limits
                    try:
                        out_c = set_config(base.copy(), crit, **kw).copy().compress()
                        bdc = list(out_c.bond_dims)
                        led.check(all(bdc[b] <= lim[b] for b in range(1, n)) and bdc == bd, f"post:{fn}:bond_limit_after_copy", fn,
                                  f"a copy of the configured state compresses to {bdc}, the state itself to {bd}; limits {list(lim)}", key + ("limit-copy",), fields, rep, nontriv)
                    except Exception as e:
                        led.check(False, f"post:{fn}:total", fn, f"compress of a copy raised {type(e).__name__}: {e}", key + ("copy",), fields, rep)
                led.check(all(b <= b0 for b, b0 in zip(bd, bd0)), f"post:{fn}:no_bond_grows", fn, f"{bd0} -> {bd}", key + ("grow",), fields, rep, nontriv)
                # --- norm does not grow
                led.check(np.linalg.norm(vc) <= nrm0 * (1 + KE), f"post:{fn}:norm_not_increased", fn,
                          f"norm {np.linalg.norm(vc)} > {nrm0}", key + ("norm",), fields, rep, nontriv)
                # --- discarded-weight sandwich with the kept counts actually realised
                err = float(np.linalg.norm(vc - v0))
                kept = bd[1:n]
                ub = np.sqrt(sum(tail(spectra[b], kept[b]) for b in range(n - 1)))
                lb = np.sqrt(max([tail(spectra[b], kept[b]) for b in range(n - 1)] + [0.0]))
                led.check(err <= ub + KE * nrm0, f"post:{fn}:error_upper_bound", fn,
                          f"||psi-psi_c||={err:.3e} > sqrt(sum of discarded weights)={ub:.3e} (kept {kept})", key + ("ub",), fields, rep, nontriv)
                if crit == "fixed":
                    # the property's bound is stated for the limit as GIVEN: with M_b kept at bond b the error is at most the root of the summed tails beyond M_b of the
                    # original spectra (TT-SVD / Oseledets; projections only lower singular values) - keeping fewer than the limit allows must not exceed it either
                    lim_ = kw.get("per_bond") or [kw["M"]] * (n + 1)
                    ub_lim = np.sqrt(sum(tail(spectra[b], lim_[b + 1]) for b in range(n - 1)))
                    led.check(err <= ub_lim + KE * nrm0, f"post:{fn}:error_upper_bound_for_the_given_limits", fn,
                              f"||psi-psi_c||={err:.3e} > sqrt(sum over bonds of the weight beyond the limit)={ub_lim:.3e} (limits {list(lim_)}, kept {kept})",
                              key + ("ub-lim",), fields, rep, nontriv)
                led.check(err >= lb - KE * nrm0, f"post:{fn}:error_lower_bound", fn,
                          f"||psi-psi_c||={err:.3e} < largest single-bond discarded weight {lb:.3e}", key + ("lb",), fields, rep, nontriv)
                # --- lossless when the limit is not binding
                if crit == "fixed" and kw.get("M") == 64:
                    led.check(err <= 1e-10 * nrm0, f"post:{fn}:lossless_when_limit_exceeds_rank", fn, f"error {err:.2e}", key + ("lossless",), fields, rep)
                # --- fixed criterion keeps exactly min(M, available) at the first truncated bond
                first = (n - 1) if direction == "left" else 1     # left-canonical state is swept from the right end
                if crit == "fixed" and n >= 2:
                    lim = kw.get("per_bond") or [kw["M"]] * (n + 1)
                    rank = int(np.sum(spectra[first - 1] > 1e-13 * max(spectra[first - 1].max(), 1e-300)))
                    led.check(bd[first] >= min(lim[first], rank), f"post:{fn}:keeps_min_of_limit_and_rank", fn,
                              f"bond {first}: kept {bd[first]}, limit {lim[first]}, rank {rank}", key + ("count",), fields, rep, nontriv)
                # --- threshold criterion at the first truncated bond: kept = #{sigma_i/||sigma|| > thr} (no upstream truncation yet)
                if crit == "threshold" and n >= 2:
                    s = spectra[first - 1]
                    want = int(np.sum(s / np.linalg.norm(s) > kw["thr"] * (1 + 1e-9)))
                    want_hi = int(np.sum(s / np.linalg.norm(s) > kw["thr"] * (1 - 1e-9)))
                    led.check(want <= bd[first] <= max(want_hi, 1) or (want == 0 and bd[first] == 0), f"post:{fn}:threshold_count", fn,
                              f"bond {first}: kept {bd[first]}, dense spectrum gives {want}", key + ("thr",), fields, rep, nontriv)
                led.check(not S.qnv_violations(out), f"post:{fn}:qn_valid", fn, "labels invalid after compress", key + ("qnv",), fields, rep, nontriv)
            # --- ret_s: singular values returned equal the dense spectra when nothing is truncated
            mp = set_config(base.copy(), "fixed", M=64)
            try:
                _, sarr = mp.compress(ret_s=True)
                order = list(range(n - 1)) if direction == "right" else list(range(n - 2, -1, -1))
                ok = True
                what = ""
                for row, b in zip(sarr, order):
                    sd = spectra[b]
                    k = min(len(row), len(sd))
                    a_, b_ = np.sort(np.asarray(row))[::-1][:k], np.sort(sd)[::-1][:k]
                    if np.abs(a_ - b_).max() > 1e-9 * nrm0 or np.abs(np.asarray(row)[k:]).max(initial=0) > 1e-9 or np.abs(sd[k:]).max(initial=0) > 1e-9:
                        ok, what = False, f"cut {b + 1}: returned {np.asarray(row)} vs dense {sd}"
                led.check(ok, f"post:{fn}:ret_s_equals_dense_spectra", fn, what, (name, n, label, direction, "ret_s"),
                          {"direction": direction}, {"model": name, "nsites": n, "state": label, "canonical": direction, "seed": seed})
            except Exception as e:
                led.check(False, f"post:{fn}:ret_s_total", fn, f"compress(ret_s=True) raised {e!r}", (name, n, label, direction, "ret_s"), {}, {})
            # --- ret_s together with an actual truncation: the values returned for the FIRST cut of the sweep are the complete spectrum of the original state there
            #     (what is discarded is read off them), not the kept part
            if n >= 2:
                mp = set_config(base.copy(), "fixed", M=64)
                try:
                    _, sarr = mp.compress(temp_m_trunc=1, ret_s=True)
                    b = 0 if direction == "right" else n - 2
                    sd = np.sort(spectra[b])[::-1]
                    row = np.sort(np.asarray(sarr[0]))[::-1]
                    k = min(len(row), len(sd))
                    ok = np.abs(row[:k] - sd[:k]).max() <= 1e-9 * nrm0 and np.abs(row[k:]).max(initial=0) <= 1e-9 and np.abs(sd[k:]).max(initial=0) <= 1e-9 * nrm0
                    led.check(ok, f"post:{fn}:ret_s_first_cut_is_the_spectrum_before_truncation", fn, f"cut {b + 1} with temp_m_trunc=1: returned {row[:4]} vs dense {sd[:4]}",
                              (name, n, label, direction, "ret_s-trunc"), {"direction": direction}, {"model": name, "nsites": n, "state": label, "canonical": direction, "seed": seed},
                              nontrivial=bool(np.sum(sd > 1e-9 * nrm0) > 1))
                except Exception as e:
                    led.check(False, f"post:{fn}:ret_s_total", fn, f"compress(temp_m_trunc=1, ret_s=True) raised {e!r}", (name, n, label, direction, "ret_s-trunc"), {}, {})


def w_config_copy(case, led):
    """CompressConfig.copy(): every field equal, per-bond limits kept, and independent of the original (the objects derived from a state - copies, sums, operator
    images, density operators, tree copies - all obtain their configuration through it)"""
    from renormalizer.utils import CompressConfig, CompressCriteria
    _, seed = case
    rng = np.random.default_rng([seed, 555])
    for k in range(40):
        crit = [CompressCriteria.fixed, CompressCriteria.threshold, CompressCriteria.both][k % 3]
        c = CompressConfig(crit, threshold=float(rng.uniform(1e-4, 0.5)), max_bonddim=int(rng.integers(1, 40)), vmethod=["1site", "2site"][k % 2])
        if k % 2:
            c.max_dims = np.array([1] + [int(x) for x in rng.integers(1, 9, size=int(rng.integers(1, 7)))] + [1])
        d = c.copy()
        diff = []
        for name_, v in vars(c).items():
            w = vars(d).get(name_, "<missing>")
            same = np.array_equal(np.asarray(v, dtype=object), np.asarray(w, dtype=object)) if isinstance(v, (list, tuple, np.ndarray)) or isinstance(w, (list, tuple, np.ndarray)) else (v == w or v is w)
            if not same:
                diff.append((name_, repr(v)[:40], repr(w)[:40]))
        key = ("config-copy", seed, k)
        rep = {"criteria": str(crit), "fields": {n_: repr(v_)[:60] for n_, v_ in vars(c).items()}}
        led.check(not diff, "post:CompressConfig.copy:all_fields_equal", "CompressConfig.copy", f"fields differ after copy(): {diff[:3]}", key, {"per_bond": bool(k % 2)}, rep)
        if c.max_dims is not None and d.max_dims is not None:
            d.max_dims[0] = 99
            led.check(c.max_dims[0] != 99, "post:CompressConfig.copy:independent_of_the_original", "CompressConfig.copy", "per-bond limits are shared with the original", key + ("indep",), {}, rep)

    # CompressConfig.update (how sums merge the rules of their operands): threshold the smaller one, per-bond limits the element-wise larger ones and nothing beyond them;
    # the sum of two states carrying the same per-bond limits is compressed within those limits
    from renormalizer.model import Model, Op
    from renormalizer.model.basis import BasisSHO
    from renormalizer.mps import Mps
    for k in range(6):
        crit = [CompressCriteria.fixed, CompressCriteria.both][k % 2]
        nsite = 4 + k % 3
        la = np.array([1] + [int(x) for x in rng.integers(1, 6, size=nsite - 1)] + [1])
        lb = la.copy() if k < 4 else np.array([1] + [int(x) for x in rng.integers(1, 6, size=nsite - 1)] + [1])
        ca = CompressConfig(crit, threshold=1e-10, max_bonddim=int(rng.integers(8, 30)))
        cb = CompressConfig(crit, threshold=1e-8, max_bonddim=int(rng.integers(8, 30)))
        ca.max_dims, cb.max_dims = la.copy(), lb.copy()
        key = ("config-update", seed, k)
        rep = {"criteria": str(crit), "limits_a": la.tolist(), "limits_b": lb.tolist()}
        cu = ca.copy()
        cu.update(cb)
        led.check(cu.threshold == 1e-10 and np.array_equal(np.asarray(cu.max_dims), np.maximum(la, lb)), "post:CompressConfig.update:smaller_threshold_and_larger_per_bond_limits",
                  "CompressConfig.update", f"threshold {cu.threshold}, per-bond limits {np.asarray(cu.max_dims).tolist()} vs {np.maximum(la, lb).tolist()}", key, {}, rep)
        np.random.seed(seed * 31 + k)
        model = Model([BasisSHO(i, 1.0, 3) for i in range(nsite)], [Op("x", 0)])
        a, b = Mps.random(model, 0, 6, percent=1.0), Mps.random(model, 0, 6, percent=1.0)
        a.compress_config, b.compress_config = ca.copy(), cb.copy()
        c = a + b
        c.canonicalise()
        c.compress()
        lim = np.maximum(la, lb)
        led.check(all(int(x) <= int(l) for x, l in zip(c.bond_dims, lim)), "post:MatrixProduct.add+compress:sum_obeys_the_merged_per_bond_limits", "MatrixProduct.compress",
                  f"bond dimensions {list(c.bond_dims)} of the compressed sum vs merged limits {lim.tolist()}", key + ("sum",), {}, rep)


def check(run):
    from props import C05_proof
    C05_proof.prove(run)
    run_cases(run, w_config_copy, [("cfgcopy", run.seed + i) for i in range(2 if run.tier == "quick" else 6)])
    seeds = [run.seed] if run.tier == "quick" else [run.seed, run.seed + 1, run.seed + 2]
    ns = [2, 3, 4] if run.tier == "quick" else [2, 3, 4, 5]
    cases = [(name, n, s, run.tier) for name in ("spin", "spinqn", "spin2qn", "holstein") for n in ns for s in seeds]
    run_cases(run, worker, cases)
    from props import C05_tree
    C05_tree.check(run)
    # which entry of a per-bond / per-node limit applies to which bond, decided for all tensor values in kernel-stub mode: chain two-site update and tree
    # compress / update_2site with "limit 1 everywhere except on the bond being cut" and with limits equal to the current bond dimensions
    from vk.symx.harness import guarded
    from props import C04_kernel, C11_sym
    guarded(run, C04_kernel.prove, only_updates=True)
    guarded(run, C11_sym.prove, only=("limit", "per_bond"))
    run.rule = ("chain states (random per sector incl. complex; Bell-pair products with exactly degenerate singular values) x both canonical forms x "
                "{fixed M=1,2,3,64, non-uniform per-bond limits, threshold 0.5/0.1/1e-3, both}; contracts: bond limit, no growth, norm, "
                "Eckart-Young lower and TT-SVD upper bound from numpy SVD of the dense vector at every cut, kept counts at the first truncated bond, "
                "returned singular values; trees: see C05_tree; non-trivial = some bond was actually truncated; distinct = (model,size,state,direction,config,clause)")
    run.sample({"model": "spinqn", "nsites": 4, "canonical": "left", "criteria": "fixed", "per_bond": [1, 2, 1, 3, 1],
                "contract": "bond_dims <= limits and lb <= ||psi-psi_c|| <= ub"})
    run.explanation = ("Proved for all inputs (pyvc/z3): the kept count returned by _fixed_m_trunc/_threshold_m_trunc/compute_m_trunc never exceeds the number "
                       "of available singular values nor, for fixed/both, the configured limit of the bond that compress/_update_ms truncates (idx+1 when "
                       "sweeping right, idx otherwise); the link to the callers is a structural obligation on the call sites. The error bound itself is a "
                       "theorem about SVD (cited) whose hypotheses about svd_qn/compress are checked by runtime contracts on bounded inputs.")
    run.trusted += ["cited lemma: Eckart-Young (best rank-M approximation) and TT-SVD quasi-optimality sqrt(sum_b tail_b)", "numpy.linalg.svd of the dense vector"]
