"""C08 Ground- and excited-state searches are variational and consistent."""
from vk.symx.harness import guarded
import numpy as np

from vk.rtc.harness import run_cases
from vk.specs import chain as S
from vk.specs import universe as U
from vk.specs import dyn as Dn

LEVEL = "other"
TECHNIQUE = ("Engine S: the matrix diagonalised at every site / pair of sites (real Environ.GetLR + get_ham_direct, also with the omega target, and the preconditioner of the "
             "iterative path) equals the projection J^H H J of the Hamiltonian onto the local tensor, as polynomials in all other tensor entries; "
             "runtime contracts from the variational theorem against exact diagonalisation of the sector-projected dense Hamiltonian (every reported energy is an "
             "upper bound, exact at sufficient bond dimension, returned states normalised / in sector / consistent with the reported energy), chains and trees "
             "(bounded stand-in; optimiser convergence is outside any deductive verifier here)")
KE = 1e-9


def sector_spectrum(Hd, mask):
    Hs = Hd[np.ix_(mask, mask)]
    Hs = (Hs + Hs.conj().T) / 2
    return np.linalg.eigvalsh(Hs)


def worker(case, led):
    kind = case[0]
    from renormalizer.mps import Mpo, Mps, optimize_mps
    if kind == "chain":
        _, name, n, method, nroots, M, seed, tier = case
        # "+stackedK": the same Hamiltonian handed to the optimiser as a StackedMpo of K operators (its terms dealt round-robin; the pieces need not be Hermitian)
        full_name, stk = name, 0
        inv = name.endswith("+inv")      # optimize_config.inverse = -1: the optimiser minimises -H (the documented switch for the highest states)
        if inv:
            name = name[:-4]
        ranks = name.endswith("+ranks")  # procedure entries are CompressConfig objects with NON-UNIFORM per-bond limits equal to the complete ranks of each cut
        if ranks:
            name = name[:-6]
        if "+stacked" in name:
            name, k_ = name.split("+stacked")
            stk = int(k_)
        rng = np.random.default_rng([seed, n, 808, sum(map(ord, name))])
        model, terms, sectors = Dn.hamiltonian(name, n, rng)
        H = Mpo(model, terms)
        if stk:
            from renormalizer.mps import StackedMpo
            Hopt = StackedMpo([Mpo(model, terms[i::stk]) for i in range(stk) if terms[i::stk]])
        else:
            Hopt = H
        Hd = Dn.dense_h(model, terms)
        if inv:
            # every oracle below is stated for the operator that is minimised: -H (reported values are eigenvalue estimates of -H)
            H = H.scale(-1.0)
            Hd = -Hd
        # (long chains: the half-filled sector, whose middle bonds reach the limit - that is what takes the local problem over the 1000-amplitude switch)
        for q in ([sectors[len(sectors) // 2]] if n >= 10 else (sectors[1:3] if len(sectors) > 2 else sectors[:1])):
            mask = S.sector_mask(model, q)
            lam = sector_spectrum(Hd, mask)
            if len(lam) < nroots:
                continue
            mps = U.make_state(model, q, max(M, 2) if M else 8, rng)
            if mps is None:
                continue
            # the initial guess may be any state reachable by arithmetic / gauge moves (sums, operator images, unnormalised, centre anywhere, metadata of
            # either direction): the optimiser has to bring it to a canonical gauge itself
            rng_g = np.random.default_rng([seed, n, 809, sum(map(ord, name)), nroots, 0 if M is None else M, 1 if method == "1site" else 2, sum(np.abs(np.asarray(q).reshape(-1)))])
            guess = ["fresh", "cano", "cano2", "right", "center", "sum", "H@", "scaled", "sum-of-right", "H@right", "sum-of-left"][int(rng_g.integers(11))]
            if guess in ("sum-of-right", "H@right", "sum-of-left"):
                # metadata of a canonical state (centre at an end, matching direction) on tensors that are not canonical any more
                mps = mps.ensure_right_canonical() if "right" in guess else mps.ensure_left_canonical()
                guess = "sum" if guess.startswith("sum") else "H@"
                prepared = True
            else:
                prepared = False
            if guess in ("fresh", "cano", "cano2", "right", "center"):
                mps = S.apply_gauge(mps, guess, int(rng.integers(n)))
            elif guess == "sum":
                other = U.make_state(model, q, 2, rng)
                if other is not None:
                    if prepared:
                        other = other.ensure_right_canonical() if mps.qnidx == 0 else other.ensure_left_canonical()
                    mps = mps.add(other.scale(0.7))
            elif guess == "H@":
                cand = H.apply(mps)
                if np.abs(S.dense(cand)).max() > 1e-6:
                    cand.optimize_config = mps.optimize_config
                    mps = cand
            else:
                mps = mps.scale(3.0)
            if H.is_complex and not mps.is_complex:
                # precondition of the optimiser: a complex Hamiltonian needs a complex guess (with a real one the library stops with an assertion when it stores
                # the first complex eigenvector - loud, not a wrong result)
                mps = mps.to_complex()
            full = M is None
            Mv = 32 if full else M
            mps.optimize_config.procedure = [[Mv, 0.4], [Mv, 0.2], [Mv, 0.0], [Mv, 0.0], [Mv, 0.0]]
            if ranks:
                from renormalizer.utils import CompressConfig, CompressCriteria
                dims_ = [b.nbas for b in model.basis]
                caps = [1] + [int(min(np.prod(dims_[:i]), np.prod(dims_[i:]))) for i in range(1, n)] + [1]
                def cfg_():
                    c_ = CompressConfig(CompressCriteria.fixed, max_bonddim=int(max(caps)))
                    c_.max_dims = np.array(caps, dtype=int)          # the documented per-bond table (user-assigned)
                    return c_
                mps.optimize_config.procedure = [[cfg_(), pc_] for pc_ in (0.4, 0.2, 0.0, 0.0, 0.0)]
            mps.optimize_config.method = method
            mps.optimize_config.nroots = nroots
            if inv:
                mps.optimize_config.inverse = -1.0
            key = (full_name, n, str(q), method, nroots, M)
            rep = {"model": full_name, "nsites": n, "sector": q, "method": method, "nroots": nroots, "M": Mv, "seed": seed, "exact_levels": lam[:4].tolist(), "initial_guess": guess + (" of canonical operands" if prepared else ""),
                   "guess_meta": {"qnidx": int(mps.qnidx), "to_right": bool(mps.to_right), "bond_dims": [int(b) for b in mps.bond_dims]}}
            fields = {"method": method, "nroots": nroots, "stacked": bool(stk)}
            st = np.random.get_state()
            np.random.seed(seed + 17)
            try:
                energies, out = optimize_mps(mps, Hopt)
            except Exception as e:
                led.check(False, "post:optimize_mps:total", "optimize_mps", f"raised {type(e).__name__}: {e}", key, fields, rep)
                continue
            finally:
                np.random.set_state(st)
            # with several roots every micro-iteration reports up to nroots values (fewer where the local space is smaller): keep them ragged
            rows = [np.sort(np.atleast_1d(np.asarray(e, dtype=float)).ravel()) for e in energies]
            E = np.concatenate(rows) if rows else np.zeros(0)
            scale = max(1.0, np.abs(lam).max())
            if nroots == 1:
                led.check(np.all(E >= lam[0] - KE * scale), "post:optimize_mps:energies_are_upper_bounds", "optimize_mps",
                          f"a reported energy {E.min():.10f} is below the exact sector ground energy {lam[0]:.10f}", key + ("var",), fields, rep)
                outs = [out]
            else:
                bad = [(r.tolist(), lam[:len(r)].tolist()) for r in rows if len(r) > nroots or np.any(r < lam[:len(r)] - 1e-7 * scale)]
                led.check(not bad, "post:optimize_mps:energies_are_upper_bounds", "optimize_mps",
                          f"state-averaged energies fall below the exact levels (Cauchy interlacing): {bad[:2]}", key + ("var",), fields, rep)
                outs = list(out)
            for k, o in enumerate(outs):
                v = S.dense(o)
                leak = float(np.abs(v[~mask]).max()) if (~mask).any() else 0.0
                led.check(abs(np.linalg.norm(v) - 1) <= 1e-8 and leak <= 1e-9 and not S.qnv_violations(o), "post:optimize_mps:state_normalised_in_sector", "optimize_mps",
                          f"root {k}: norm {np.linalg.norm(v):.10f}, leak {leak:.1e}, qnv {S.qnv_violations(o)[:1]}", key + ("state", k), fields, rep)
                e_state = np.vdot(v, Hd @ v).real
                led.check(e_state >= lam[0] - KE * scale, "post:optimize_mps:state_energy_is_upper_bound", "optimize_mps",
                          f"root {k}: <H> = {e_state:.10f} < {lam[0]:.10f}", key + ("evar", k), fields, rep)
                e2 = o.expectation(H)
                led.check(abs(e2 - e_state) <= 1e-9 * scale, "post:Mps.expectation:consistent_with_dense", "Mps.expectation", f"{e2} vs {e_state}", key + ("exp", k), fields, rep)
            if nroots == 1 and full:
                # (with a truncating bond limit the energy reported by the local eigensolver precedes the truncation of the update)
                v = S.dense(outs[0])
                e_state = np.vdot(v, Hd @ v).real
                # the returned state is the one stored at the site that was optimal in the previous sweep (documented in single_sweep), i.e. possibly
                # before the last sweep has passed the remaining sites: it agrees with the lowest reported energy to the optimiser's own
                # convergence tolerance (optimize_config.e_rtol / e_atol), not better
                oc = outs[0].optimize_config
                tol_conv = 10 * (oc.e_rtol * abs(E.min()) + oc.e_atol)
                led.check(abs(e_state - E.min()) <= max(1e-7 * scale, tol_conv), "post:optimize_mps:returned_state_has_reported_energy", "optimize_mps",
                          f"<psi|H|psi> = {e_state:.10f} vs lowest reported {E.min():.10f}", key + ("consistent",), fields, rep)
            if full:
                if nroots == 1:
                    led.check(abs(E.min() - lam[0]) <= 1e-7 * scale, "post:optimize_mps:exact_at_sufficient_bond_dimension", "optimize_mps",
                              f"lowest reported {E.min():.10f} vs exact {lam[0]:.10f}", key + ("exact",), fields, rep)
                else:
                    Es = np.sort(E.reshape(-1, nroots), axis=1)
                    led.check(np.abs(Es[-1] - lam[:nroots]).max() <= 1e-6 * scale, "post:optimize_mps:exact_roots_at_sufficient_bond_dimension", "optimize_mps",
                              f"final roots {Es[-1]} vs exact {lam[:nroots]}", key + ("exact",), fields, rep)
                    # ... and the returned states carry these energies (each is the eigenvector of its root at the site that was optimal)
                    es_ = np.sort([np.vdot(S.dense(o_), Hd @ S.dense(o_)).real for o_ in outs])
                    oc = outs[0].optimize_config
                    led.check(np.abs(es_ - lam[:len(es_)]).max() <= max(2e-6 * scale, 10 * (oc.e_rtol * abs(lam[0]) + oc.e_atol)), "post:optimize_mps:returned_states_have_the_exact_root_energies", "optimize_mps",
                              f"energies of the returned states {es_} vs exact {lam[:len(es_)]}", key + ("exact-states",), fields, rep)
    elif kind == "omega":
        _, name, n, seed, tier = case
        rng = np.random.default_rng([seed, n, 818, sum(map(ord, name))])
        model, terms, sectors = Dn.hamiltonian(name, n, rng)
        # the operator handed to the optimiser is NOT the Hamiltonian stored in its model: a rescaled copy plus one more term (operators produced by
        # arithmetic or from an explicit term list carry a model whose own terms differ)
        extra_t = U.random_terms(model, np.random.default_rng([seed, n, 819]), 1)
        H = Mpo(model, terms).scale(1.3)
        Hd = 1.3 * Dn.dense_h(model, terms)
        if extra_t and seed % 2 == 0:
            et = extra_t[0] * 0.4
            herm = Mpo(model, [et]).add(Mpo(model, [et]).conj_trans())
            H = H.add(herm)
            Hd = Hd + U.dense_terms(model, [et]) + U.dense_terms(model, [et]).conj().T
        Hd = np.real_if_close(Hd)
        q = sectors[len(sectors) // 2]
        mask = S.sector_mask(model, q)
        lam = sector_spectrum(Hd, mask)
        if len(lam) < 3:
            return
        omega = float((lam[1] + lam[2]) / 2 + 0.1 * (lam[2] - lam[1]))
        mps = U.make_state(model, q, 8, rng)
        if mps is None:
            return
        mps.optimize_config.procedure = [[32, 0.4], [32, 0.2], [32, 0.0], [32, 0.0], [32, 0.0], [32, 0.0]]
        mps.optimize_config.method = "2site"
        key = (name, n, "omega")
        rep = {"model": name, "nsites": n, "sector": q, "omega": omega, "exact_levels": lam[:5].tolist(), "seed": seed}
        try:
            energies, out = optimize_mps(mps, H, omega=omega)
        except Exception as e:
            led.check(False, "post:optimize_mps:omega_total", "optimize_mps", f"raised {type(e).__name__}: {e}", key, {}, rep)
            return
        target = np.min((lam - omega) ** 2)
        E = np.asarray(energies, dtype=float)
        led.check(np.all(E >= target - 1e-9) and abs(E.min() - target) <= 1e-6 * max(1, target), "post:optimize_mps:omega_targets_min_of_shifted_square", "optimize_mps",
                  f"reported min {E.min():.10f} vs min_k (lambda_k - omega)^2 = {target:.10f}", key, {}, rep)
        v = S.dense(out)
        val = np.vdot(v, (Hd - omega * np.eye(len(Hd))) @ (Hd - omega * np.eye(len(Hd))) @ v).real
        led.check(abs(val - E.min()) <= 1e-6 * max(1, target), "post:optimize_mps:omega_state_consistent", "optimize_mps", f"<(H-w)^2> = {val} vs {E.min()}", key + ("state",), {}, rep)


def check(run):
    seeds = [run.seed] if run.tier == "quick" else [run.seed, run.seed + 1]
    cases = []
    models = [("spinqn", 4), ("holstein", 4), ("spin", 4), ("spinqn", 6)] if run.tier == "quick" else [("spinqn", 4), ("spinqn", 6), ("holstein", 4), ("holstein", 6), ("spin", 4), ("spin2qn", 4)]
    for s in seeds:
        for name, n in models:
            for method in ("2site", "1site"):
                for nroots in (1, 2, 3) if run.tier == "quick" else (1, 2, 3, 4):
                    for M in (None, 2, 3):
                        if nroots > 1 and M is not None and M < nroots:
                            continue
                        cases.append(("chain", name, n, method, nroots, M, s, run.tier))
            cases.append(("omega", name, n, s, run.tier))
        # local problems with >= 1000 amplitudes (bond 16 x 2 x 2 x 16): the sweep switches from the dense local solver to the iterative one (Davidson with the
        # matrix-free product); complex Hermitian Hamiltonian, one and several roots
        for nroots in (1, 3):
            cases.append(("chain", "spinqn-flux", 10, "2site", nroots, 16, s, run.tier))
        # the Hamiltonian as a StackedMpo (sum of several operators, one environment each): same contract
        for name, n, k_ in (("spinqn", 4, 2), ("holstein", 4, 3)) + ((("spinqn", 6, 3), ("spin", 4, 2)) if run.tier != "quick" else ()):
            for method in ("2site", "1site"):
                for nroots, M in ((1, None), (1, 2), (2, None)):
                    cases.append(("chain", f"{name}+stacked{k_}", n, method, nroots, M, s, run.tier))
        cases.append(("chain", "spinqn-flux+stacked2", 10, "2site", 1, 16, s, run.tier))
        # per-bond limits given as CompressConfig procedure entries, equal to the complete ranks of every cut (non-uniform): nothing is truncated
        for nroots in (1, 2, 3):
            for method in ("2site",):       # (one-site sweeps cannot grow a bond: at exactly complete caps they may stay in the subspace of the start)
                cases.append(("chain", "spin+ranks", 6, method, nroots, None, s, run.tier))
                cases.append(("chain", "spinqn+ranks", 6, method, nroots, None, s, run.tier))
        # the switch inverse = -1 (highest states), alone and together with a StackedMpo, dense and iterative local solver
        for nm, n_, M_ in (("spinqn+inv", 4, None), ("holstein+inv", 4, 3), ("spinqn+stacked2+inv", 4, None), ("holstein+stacked3+inv", 4, None), ("spinqn+stacked2+inv", 10, 16), ("spinqn+inv", 10, 16), ("spinqn+inv", 10, None)):
            for method in ("2site", "1site") if n_ < 10 else ("2site",):
                for nroots in (1, 2) if n_ < 10 else (1,):
                    cases.append(("chain", nm, n_, method, nroots, M_, s, run.tier))
    run_cases(run, worker, cases)
    # on-the-fly site swapping switched on (the property's quantifier includes it): the optimiser contract with the re-ordered operator as oracle - variational
    # bound, exactness at complete bond dimension, valid labels, the operator re-ordered consistently - is the one stated in props/C17 (worker_opt); here the
    # criteria x {complete, truncating first sweeps} on spin / spin+qn / vibronic chains
    from props import C17 as _c17
    ofs_cases = [("opt", fam, 4, ofs, False, regime, s, run.tier) for s in seeds for fam in ("spin", "spinqn", "vibronic") for ofs in _c17.OFS_NAMES
                 for regime in (("full", "trunc") if run.tier != "quick" or ofs != "ofs_debug" else ("full",))]
    run_cases(run, _c17.worker, ofs_cases)
    from props import C08_sym
    guarded(run, C08_sym.prove)
    # the sweep poses the projected eigenproblems with the environments of the current state and hands back the state of the requested site (call by contract
    # at the local eigensolver)
    from props import C08_sweep_sym
    guarded(run, C08_sweep_sym.prove)
    from props import C08_tree_sweep_sym
    guarded(run, C08_tree_sweep_sym.prove)
    from props import C04_kernel
    guarded(run, C04_kernel.prove, only_updates=True)      # renormalised-basis update (single root and state-averaged) in kernel-stub mode
    from props import C08_tree
    C08_tree.check(run)
    run.rule = ("small Hamiltonians with dense reference {spin+qn 4/6 sites, electron-phonon 4(6), spin 4, two-component qn} x 2 sectors x {1site, 2site} x "
                "roots 1..3(4) x bond limits {2, 3, sufficient}; omega targeting; trees in C08_tree; distinct = (model,size,sector,method,roots,limit,clause)")
    run.sample({"model": "spinqn", "nsites": 6, "sector": 3, "method": "1site", "nroots": 2, "M": 3,
                "contract": "sorted reported energies >= lowest exact sector eigenvalues; returned states normalised, in sector, QN-valid"})
    run.explanation = ("Decided exactly (Engine S, all tensor values per enumerated shape): the local matrix / matrix-free product is the projected Hamiltonian, the sweeps of the "
                       "chain and tree optimisers pose exactly these eigenproblems in the state the previous update produced and hand back the state of the requested site "
                       "(call by contract at the local eigensolver). Bounded: the eigensolvers themselves, orthonormal frames, the variational theorem against exact "
                       "diagonalisation as oracle; no proof is claimed for convergence (DESIGN §11).")
    run.trusted += ["numpy.linalg.eigvalsh of the sector-projected dense Hamiltonian", "cited: variational (min-max) theorem"]
