"""Shared clause of C01 / C02: operators whose coefficients span many orders of magnitude (a strong local term plus weak couplings far above the resolution of
double precision): the weak part, obtained by subtracting the exactly known strong diagonal part, is still the dense sum of the weak terms (bounded)."""
import numpy as np


def _setup(seed):
    from renormalizer.model import Op, basis as ba
    rng = np.random.default_rng([seed, 4242])
    basis = [ba.BasisHalfSpin("s0"), ba.BasisSHO("v0", 1.0, 3), ba.BasisHalfSpin("s1"), ba.BasisSHO("v1", 1.0, 3)]
    names, dims = ["s0", "v0", "s1", "v1"], [2, 3, 2, 3]
    sz, sx = np.diag([1.0, -1.0]), np.array([[0.0, 1.0], [1.0, 0.0]])
    b = np.diag(np.sqrt(np.arange(1, 3)), k=1)
    xm, nm = np.sqrt(0.5) * (b + b.T), b.T @ b                    # written out here, independent of the library's tables

    def dense_term(d):
        out = np.eye(1)
        for nme, dim in zip(names, dims):
            out = np.kron(out, d.get(nme, np.eye(dim)))
        return out
    big = float(10.0 ** rng.integers(2, 4))
    small = float(rng.uniform(1.0, 5.0)) * 1e-11 * big              # ratio 1e-11 .. 5e-11
    strong = [(Op("sigma_z", "s0", big), {"s0": sz})]
    weak = [(Op("sigma_x x", ["s0", "v0"], small), {"s0": sx, "v0": xm}), (Op("sigma_x sigma_x", ["s0", "s1"], 2 * small), {"s0": sx, "s1": sx}),
            (Op(r"b^\dagger b", "v1", 0.5 * small), {"v1": nm})]
    order = [int(i) for i in rng.permutation(4)]
    terms = [(strong + weak)[i][0] for i in order]
    d_strong = sum(t.factor * dense_term(m) for t, m in strong)
    d_weak = sum(t.factor * dense_term(m) for t, m in weak)
    return basis, terms, d_strong, d_weak, big, small


def w_tree(case, led):
    _, seed = case
    from renormalizer.tn import BasisTree, TTNO, TreeNodeBasis
    basis, terms, d_strong, d_weak, big, small = _setup(seed)
    root = TreeNodeBasis()
    root.add_child([TreeNodeBasis(basis[:2]), TreeNodeBasis(basis[2]), TreeNodeBasis(basis[3])])
    for tname, tree in (("linear", BasisTree.linear(basis)), ("binary", BasisTree.binary(basis)), ("mctdh", BasisTree.binary_mctdh(basis)), ("grouped", BasisTree(root))):
        for algo in ("Hopcroft-Karp", "Hungarian"):
            key = ("range", seed, tname, algo)
            rep = {"tree": tname, "algo": algo, "strong": big, "weak": small, "terms": [repr(t) for t in terms]}
            try:
                d = np.asarray(TTNO(tree, terms, algo=algo).todense(basis)).reshape(d_strong.shape)
                err = float(np.abs(d - d_strong - d_weak).max() / np.abs(d_weak).max())
                led.check(err <= 1e-4, "post:TTNO.__init__:weak_terms_next_to_strong_ones_are_kept", "TTNO.__init__",
                          f"{tname}/{algo}: weak part (coefficients {small:.1e} next to {big:.0e}) deviates by {err:.2e} relative to itself", key, {"algo": algo}, rep)
            except Exception as e:
                led.check(False, "post:TTNO.__init__:weak_terms_total", "TTNO.__init__", f"{tname}/{algo}: raised {type(e).__name__}: {e}", key, {"algo": algo}, rep)


def w_chain(case, led):
    _, seed = case
    from renormalizer.model import Model
    from renormalizer.mps import Mpo
    basis, terms, d_strong, d_weak, big, small = _setup(seed)
    model = Model(basis, [])
    for algo in ("Hopcroft-Karp", "Hungarian"):
        key = ("range", seed, algo)
        rep = {"algo": algo, "strong": big, "weak": small, "terms": [repr(t) for t in terms]}
        try:
            d = np.asarray(Mpo(model, terms, algo=algo).todense())
            err = float(np.abs(d - d_strong - d_weak).max() / np.abs(d_weak).max())
            led.check(err <= 1e-4, "post:Mpo.__init__:weak_terms_next_to_strong_ones_are_kept", "Mpo.__init__",
                      f"{algo}: weak part (coefficients {small:.1e} next to {big:.0e}) deviates by {err:.2e} relative to itself", key, {"algo": algo}, rep)
        except Exception as e:
            led.check(False, "post:Mpo.__init__:weak_terms_total", "Mpo.__init__", f"{algo}: raised {type(e).__name__}: {e}", key, {"algo": algo}, rep)
