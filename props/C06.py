"""C06 Conserved quantum numbers are never violated by any operation."""
from vk.symx.harness import guarded
import numpy as np

from vk.rtc.harness import run_cases
from vk.specs import chain as S
from vk.specs import universe as U
from vk.specs import dyn as Dn
from vk.specs import walker

LEVEL = "other"
TECHNIQUE = ("QN-valid representation invariant as contract on every state-producing operation: proved for all sizes for move_qnidx (pyvc/z3); decided exactly by "
             "Engine S for all tensor values per shape for sums, differences, operator images (also charged), adjoints, and - in kernel-stub mode - canonicalise, "
             "ensure_*, partial sweeps and lossless compression; "
             "evaluated at run time (labels vs non-zero blocks, exact zero amplitude outside the sector) over random operation histories, "
             "constructors and all sectors incl. extreme ones (bounded stand-in)")


def w_history(case, led):
    name, n, seed, length, tier = case
    walker.walk(name, n, seed, length, led, {"sector"}, tier)


def w_constructors(case, led):
    name, n, seed, tier = case
    from renormalizer.mps import Mps, Mpo, MpDm, optimize_mps
    rng = np.random.default_rng([seed, n, 606, sum(map(ord, name))])
    model, terms, sectors = Dn.hamiltonian(name, n, rng)
    H = Mpo(model, terms)
    key0 = (name, n)
    led.check(not S.qnv_violations(H) and np.all(np.asarray(H.qntot) == 0), "post:Mpo.__init__:conserving_hamiltonian_is_neutral_and_qn_valid", "Mpo.__init__",
              f"qntot={H.qntot}, qnv={S.qnv_violations(H)[:1]}", key0 + ("H",), {}, {"model": name, "nsites": n, "seed": seed})
    for q in sectors:     # every sector, including the empty and the completely filled one
        for m in (1, 2, 5, [1] + [int(rng.integers(1, 5)) for _ in range(n - 1)] + [1]):
            key = key0 + (str(q), str(m))
            rep = {"model": name, "nsites": n, "sector": q, "m_max": m, "seed": seed, "call": "Mps.random(model, qntot, m_max, percent=1.0)"}
            st = np.random.get_state()
            np.random.seed(int(rng.integers(2 ** 31 - 1)))
            try:
                mps = Mps.random(model, q, m, percent=1.0)
            except (FloatingPointError, ValueError, AssertionError, IndexError) as e:
                led.ok("skipped:Mps.random:sector_not_representable", "Mps.random", key, nontrivial=False)
                continue
            finally:
                np.random.set_state(st)
            d = S.dense(mps)
            if not np.all(np.isfinite(d)):
                led.ok("skipped:Mps.random:sector_not_representable", "Mps.random", key, nontrivial=False)
                continue
            mk = S.sector_mask(model, q)
            leak = float(np.abs(d[~mk]).max()) if (~mk).any() else 0.0
            v = S.qnv_violations(mps)
            extreme = (np.sum(mk) == 1)
            led.check(not v and leak == 0.0 and np.all(np.asarray(mps.qntot).reshape(-1) == np.asarray(q).reshape(-1)), "post:Mps.random:in_sector_and_qn_valid",
                      "Mps.random", f"leak={leak:.1e} qnv={v[:1]} qntot={mps.qntot}", key, {"extreme_sector": bool(extreme)}, rep)
            bd = mps.bond_dims
            lim = m if isinstance(m, list) else [m] * (n + 1)
            led.check(all(bd[i] <= max(1, lim[i]) for i in range(1, n)), "post:Mps.random:bond_limit", "Mps.random", f"bond dims {bd} exceed {lim}", key + ("bd",), {}, rep)
            # a short conserving workload: H|psi>, canonicalise, compress, one TDVP step, DMRG
            r = H.apply(mps).canonicalise().canonicalise()
            led.check(not S.qnv_violations(r) and (float(np.abs(S.dense(r)[~mk]).max()) if (~mk).any() else 0.0) <= 1e-12,
                      "post:Mpo.apply+canonicalise:stays_in_sector", "Mpo.apply", "H|psi> left the sector or labels invalid", key + ("Hpsi",), {}, rep)
        # product states with explicit occupation
    for trial in range(3):
        occ = {}
        for b in model.basis:
            if len(np.unique(np.asarray(b.sigmaqn), axis=0)) > 1 and rng.random() < 0.6:
                occ[b.dofs[0]] = int(rng.integers(b.nbas))
        for qn_idx in (None, 0, n // 2):
            key = key0 + ("hartree", str(sorted(occ.items(), key=str)), qn_idx)
            rep = {"model": name, "nsites": n, "condition": {str(k): v for k, v in occ.items()}, "qn_idx": qn_idx}
            try:
                hp = Mps.hartree_product_state(model, dict(occ), qn_idx)
            except Exception as e:
                led.check(False, "post:Mps.hartree_product_state:total", "Mps.hartree_product_state", f"raised {e!r}", key, {}, rep)
                continue
            want = np.sum([np.asarray(model.dof_to_basis[d].sigmaqn)[s] for d, s in occ.items()], axis=0) if occ else np.zeros(model.qn_size, dtype=int)
            d = S.dense(hp)
            mk = S.sector_mask(model, want)
            led.check(not S.qnv_violations(hp) and np.all(np.asarray(hp.qntot).reshape(-1) == np.asarray(want).reshape(-1)) and
                      (not (~mk).any() or np.abs(d[~mk]).max() == 0) and abs(np.linalg.norm(d) - 1) < 1e-12,
                      "post:Mps.hartree_product_state:in_sector_and_qn_valid", "Mps.hartree_product_state",
                      f"qntot={hp.qntot} want {want}, qnv={S.qnv_violations(hp)[:1]}", key, {}, rep)
    # the T = 0 / T = infinity reference states (Mps.ground_state): a product state in the zero sector with valid labels
    kinds = {type(b).__name__ for b in model.basis}
    if kinds <= {"BasisSHO", "BasisSimpleElectron", "BasisHalfSpin", "BasisMultiElectronVac", "BasisSineDVR", "BasisHopsBoson"}:
        for max_ent in (False, True):
            charged_spin = any(type(b).__name__ == "BasisHalfSpin" and np.any(np.asarray(b.sigmaqn) != 0) for b in model.basis)
            if max_ent and charged_spin:
                continue        # an equal superposition of the two spin states has no definite charge: outside the contract
            for normalize in (True, False):
                key = key0 + ("ground_state", max_ent, normalize)
                rep = {"model": name, "nsites": n, "max_entangled": max_ent, "normalize": normalize}
                try:
                    g = Mps.ground_state(model, max_ent, normalize=normalize)
                except Exception as e:
                    led.check(False, "post:Mps.ground_state:total", "Mps.ground_state", f"raised {e!r}", key, {}, rep)
                    continue
                vecs = []
                for b in model.basis:
                    v_ = np.zeros(b.nbas)
                    spread = max_ent and (b.is_phonon or type(b).__name__ == "BasisHalfSpin")
                    if spread:
                        v_[:] = 1.0 / np.sqrt(b.nbas) if normalize else 1.0
                    else:
                        v_[0] = 1.0
                    vecs.append(v_)
                want = vecs[0]
                for v_ in vecs[1:]:
                    want = np.kron(want, v_)
                d = S.dense(g)
                mk = S.sector_mask(model, np.zeros(model.qn_size, dtype=int))
                led.check(d.shape == want.shape and np.abs(d - want).max() <= 1e-13 and not S.qnv_violations(g) and np.all(np.asarray(g.qntot) == 0)
                          and (not (~mk).any() or np.abs(d[~mk]).max() == 0), "post:Mps.ground_state:product_state_in_the_zero_sector", "Mps.ground_state",
                          f"differs from the product of the local reference vectors by {np.abs(d - want).max() if d.shape == want.shape else 'shape'}; qntot={g.qntot}, qnv={S.qnv_violations(g)[:1]}",
                          key, {"max_entangled": max_ent, "normalize": normalize}, rep)
    # vector-valued conditions: a local state given by coefficients.  Either the occupied local states share ONE label (every component) and the product state lies in
    # that sector, or the call refuses ("Quantum numbers are mixed"); a state labelled with a sector it does not lie in must never come back
    if name == "spin2qn" and n == 2:
        from renormalizer.model import Model, basis as ba
        mix_model = Model([ba.BasisMultiElectron(["u", "d"], [[1, 0], [0, 1]]), ba.BasisHalfSpin("s", sigmaqn=[[0, 0], [1, 0]]),
                           ba.BasisMultiElectron(["p", "q", "r"], [[1, 0], [1, 0], [0, 1]])], [])
        for cond, label in (({"u": [0.6, 0.8]}, "states (1,0) and (0,1): equal total, different components"), ({"p": [0.6, 0.8, 0.0]}, "two states of label (1,0)"),
                            ({"p": [0.6, 0.0, 0.8]}, "states (1,0) and (0,1) of a three-state site"), ({"s": [0.6, 0.8]}, "states (0,0) and (1,0)")):
            key = key0 + ("hartree-vector", label)
            rep = {"basis": "MultiElectron(u,d; (1,0),(0,1)) x HalfSpin(s; (0,0),(1,0)) x MultiElectron(p,q,r; (1,0),(1,0),(0,1))", "condition": {k: v for k, v in cond.items()}}
            try:
                hp = Mps.hartree_product_state(mix_model, dict(cond))
            except ValueError:
                led.ok("post:Mps.hartree_product_state:mixed_labels_refused", "Mps.hartree_product_state", key, nontrivial=True)
                continue
            except Exception as e:
                led.check(False, "post:Mps.hartree_product_state:total", "Mps.hartree_product_state", f"raised {e!r}", key, {}, rep)
                continue
            d = S.dense(hp)
            mk = S.sector_mask(mix_model, np.asarray(hp.qntot).reshape(-1))
            leak = float(np.abs(d[~mk]).max()) if (~mk).any() else 0.0
            led.check(leak == 0.0 and not S.qnv_violations(hp), "post:Mps.hartree_product_state:returned_state_lies_in_the_sector_it_is_labelled_with", "Mps.hartree_product_state",
                      f"{label}: labelled sector {np.asarray(hp.qntot).tolist()}, amplitude {leak:.2f} outside it; qnv {S.qnv_violations(hp)[:1]}", key, {"case": label}, rep)
    # ground-state search conserves the sector
    if n >= 2:
        for q in sectors[1:3]:
            mps = U.make_state(model, q, 4, rng)
            if mps is None:
                continue
            mk = S.sector_mask(model, q)
            for method in ("2site", "1site"):
                m2 = mps.copy()
                m2.optimize_config.procedure = [[4, 0.4], [4, 0.0], [4, 0.0]]
                m2.optimize_config.method = method
                key = key0 + (str(q), "dmrg", method)
                rep = {"model": name, "nsites": n, "sector": q, "method": method, "seed": seed}
                try:
                    e, out = optimize_mps(m2, H)
                except Exception as ex:
                    led.check(False, "post:optimize_mps:total", "optimize_mps", f"raised {ex!r}", key, {}, rep)
                    continue
                d = S.dense(out)
                leak = float(np.abs(d[~mk]).max()) if (~mk).any() else 0.0
                led.check(not S.qnv_violations(out) and leak <= 1e-10 and np.all(np.asarray(out.qntot).reshape(-1) == np.asarray(q).reshape(-1)),
                          "post:optimize_mps:stays_in_sector", "optimize_mps", f"leak {leak:.1e}, qnv {S.qnv_violations(out)[:1]}", key, {}, rep)


def check(run):
    from props import C03_proof
    C03_proof.prove(run)
    # the label clauses decided exactly by Engine S for all tensor values: arithmetic (sum, difference, operator images incl. charged operators, adjoint)
    # and gauge moves / lossless compression in kernel-stub mode
    from props import C03_sym, C04_kernel
    guarded(run, C03_sym.prove)
    guarded(run, C04_kernel.prove)
    nseeds = 2 if run.tier == "quick" else 8
    length = 30 if run.tier == "quick" else 60
    cases = [(name, n, run.seed * 1000 + s, length, run.tier) for name in ("spinqn", "holstein", "spin2qn") for n in (2, 3, 4) for s in range(nseeds)]
    run_cases(run, w_history, cases)
    cases2 = [(name, n, run.seed, run.tier) for name in ("spinqn", "holstein", "spin2qn") for n in ((1, 2, 3, 4) if run.tier == "quick" else (1, 2, 3, 4, 5))]
    run_cases(run, w_constructors, cases2)
    # operators whose sites were exchanged (on-the-fly swapping): their bond labels describe the re-ordered operator - the swap contract of props/C17 (label
    # validity, labels stay integer arrays, operator re-ordered consistently) on spin+qn, vibronic and ab-initio models, with and without the Jordan-Wigner remap
    from props import C17 as _c17
    swap_cases = [("swap", fam, n, False, run.seed, run.tier) for fam, n in (("spinqn", 3), ("spinqn", 4), ("vibronic", 3))] + \
                 [("swap", "qc_short", 4, jw, run.seed, run.tier) for jw in (False, True)] + [("swap", "spinqn@qr", 4, False, run.seed, run.tier), ("swap", "qc_short@qr", 4, False, run.seed, run.tier)]
    run_cases(run, _c17.worker, swap_cases)
    from props import C06_tree
    C06_tree.check(run)
    run.rule = ("(a) random operation histories as in C13 with the sector clauses audited on every live object after every step (labels consistent with "
                "non-zero blocks, zero amplitude outside the sector, expected sector after charged operators); (b) Mps.random for EVERY sector of each model "
                "(incl. empty and completely filled), bond limits 1,2,5 and per-bond lists, hartree_product_state with explicit occupations and centres, "
                "H|psi>+canonicalise, DMRG (1site/2site) in the sector; trees: C06_tree; distinct = (model,size,sector/seed,step,clause)")
    run.sample({"model": "spin2qn", "nsites": 4, "sector": [2, 1], "op": "apply sigma_- (charge [1,0]) then canonicalise",
                "contract": "qntot shifted by the charge, QNV, zero amplitude outside the new sector"})
    run.explanation = ("move_qnidx preserves QNV for all sizes (proved, pyvc/z3). All other clauses are runtime contracts over bounded histories; "
                       "kernel-level label contracts are C18.")
    run.trusted += ["sector masks computed from BasisSet.sigmaqn by vk/specs/chain.py"]
