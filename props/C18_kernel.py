"""Engine S part of C18: the label / block bookkeeping of svd_qn around the LAPACK calls, for all matrix entries.

svd_qn runs on a matrix of independent indeterminates (allowed AND forbidden positions) with the factorisation calls replaced by trivial exact
factorisations of each symmetry block (vk.symx.shims.KERNEL_STUBS; the full variants get fresh indeterminates in the columns that multiply zero
singular values).  Decided exactly for every enumerated label pattern:
  reconstruction   sum_k u[:,k] s[k] v[:,k]  (resp. u v^T)  ==  the matrix with the forbidden entries set to zero,
  labels           u[i,k] != 0 => qnl[i] == new_qnl[k];  v[j,k] != 0 => qnr[j] == new_qnr[k];  new_qnl[k] + new_qnr[k] == qntot,
  shapes           number of columns == number of labels == number of singular values (SVD); economic: sum_b min(m_b, n_b),
  full             the extra columns carry singular value 0 and su == sv on the common part.
Orthonormality and ordering/optimality of the singular values belong to the numeric kernels (bounded part of C18)."""
import itertools

import numpy as np

from vk.symx import shims as SH
from vk.symx.harness import decide, decide_true, native_pair, native_cond
from vk.symx.poly import Poly, VarFactory

MODES = (("svd", None, False), ("svd", None, True), ("qr", "L", False), ("qr", "R", False), ("qr", "L", True), ("qr", "R", True))


def patterns(tier):
    out = []
    sizes = [(1, 1), (1, 2), (2, 1), (2, 2), (2, 3), (3, 2), (3, 3)] if tier == "quick" else [(m, n) for m in range(1, 5) for n in range(1, 5)]
    for m, n in sizes:
        for ql in itertools.product(range(3), repeat=m):
            if list(ql) != sorted(ql) and m * n > (4 if tier == "quick" else 6):
                continue            # label multisets per side for the larger blocks (every order of rows/columns is covered by the small blocks)
            for qr in itertools.product(range(3), repeat=n):
                if list(qr) != sorted(qr) and m * n > (4 if tier == "quick" else 6):
                    continue
                for tot in range(0, 5):
                    if any(a + b == tot for a in ql for b in qr):
                        out.append((ql, qr, (tot,)))
    # two components
    for m, n in ((2, 2), (2, 3)) if tier == "quick" else ((2, 2), (2, 3), (3, 2), (3, 3)):
        alpha = [(0, 0), (0, 1), (1, 0), (1, 1)]
        for ql in itertools.combinations_with_replacement(alpha, m):
            for qr in itertools.combinations_with_replacement(alpha, n):
                for tot in ((1, 1), (1, 0), (2, 1)):
                    if any(tuple(np.add(a, b)) == tot for a in ql for b in qr):
                        out.append((ql, qr, tot))
    return out


def prove(run):
    import renormalizer.mps.svd_qn as sq
    pats = patterns(run.tier)
    ncase = 0
    for ql, qr, tot in pats:
        qs = len(tot)
        qnl = np.array(ql).reshape(len(ql), qs)
        qnr = np.array(qr).reshape(len(qr), qs)
        qntot = np.array(tot)
        m, n = len(ql), len(qr)
        vf = VarFactory()
        A = vf.array((m, n))
        mask = np.array([[bool(np.all(qnl[i] + qnr[j] == qntot)) for j in range(n)] for i in range(m)])
        masked = np.where(mask, A, Poly())
        for dec, system, full in MODES:
            ncase += 1
            tag = f"{dec}{'-' + system if system else ''}{'-full' if full else ''}:{ql}|{qr}|{tot}"
            case = {"qnbigl": [list(map(int, x)) for x in qnl], "qnbigr": [list(map(int, x)) for x in qnr], "qntot": list(map(int, qntot)), "mode": dec, "system": system,
                    "full_matrices": full}
            fn = "svd_qn"

            def call(mat):
                if dec == "svd":
                    return sq.svd_qn(mat, qnl, qnr, qntot, full_matrices=full)
                return sq.svd_qn(mat, qnl, qnr, qntot, QR=True, system=system, full_matrices=full)

            def native():
                rng = np.random.default_rng(abs(hash(tag)) % (2 ** 32))
                M = rng.normal(size=(m, n)) + 1j * rng.normal(size=(m, n))
                r = call(M.copy())
                if dec == "svd":
                    u, su, _, v, sv, _ = r
                    return (u * su[None, :]) @ v.T, np.where(mask, M, 0)
                u, _, v, _ = r
                return u @ v.T, np.where(mask, M, 0)
            how = "props.C18_kernel: svd_qn on a random complex matrix with these labels (real LAPACK kernels)"
            with SH.kernel_stub_mode():
                try:
                    r = call(A.copy())
                except Exception as e:
                    decide_true(run, f"post:svd_qn:total@{tag}", fn, False, f"raised on an indeterminate matrix with stubbed kernels: {type(e).__name__}: {e}", case,
                                numeric_replay=native_cond(lambda: (native() is not None, "ran"), how))
                    continue
                if dec == "svd":
                    u, su, nql, v, sv, nqr = r
                    kmin = sum(min(int(np.sum(np.all(qnl == q, axis=1))), int(np.sum(np.all(qnr == qntot - q, axis=1)))) for q in {tuple(x) for x in qnl}
                               if np.any(np.all(qnr == qntot - np.array(q), axis=1)))
                    ok_shape = u.shape[1] == len(nql) == len(su) and v.shape[1] == len(nqr) == len(sv)
                    if not full:
                        ok_shape = ok_shape and u.shape[1] == v.shape[1] == kmin
                    else:
                        ok_shape = ok_shape and np.all(np.asarray(su[kmin:], dtype=float) == 0) and np.all(np.asarray(sv[kmin:], dtype=float) == 0) \
                            and np.all(np.asarray(su[:kmin], dtype=float) == np.asarray(sv[:kmin], dtype=float))
                    kk = min(u.shape[1], v.shape[1])
                    rec = (np.asarray(u, dtype=object)[:, :kk] * np.asarray(su, dtype=object)[None, :kk]).dot(np.asarray(v, dtype=object)[:, :kk].T)
                else:
                    u, nql, v, nqr = r
                    ok_shape = u.shape[1] == len(nql) and v.shape[1] == len(nqr)
                    kk = min(u.shape[1], v.shape[1])
                    rec = np.asarray(u, dtype=object)[:, :kk].dot(np.asarray(v, dtype=object)[:, :kk].T)
                decide(run, f"post:svd_qn:reconstructs_the_masked_matrix@{tag}", fn, rec, masked, case, numeric_replay=native_pair(native, how))
                bad = []
                nql_, nqr_ = np.array(nql).reshape(-1, qs), np.array(nqr).reshape(-1, qs)
                for k in range(u.shape[1]):
                    for i in range(m):
                        if bool(Poly.coerce(u[i, k])) and not np.all(qnl[i] == nql_[k]):
                            bad.append(("u", i, k))
                for k in range(v.shape[1]):
                    for j in range(n):
                        if bool(Poly.coerce(v[j, k])) and not np.all(qnr[j] == nqr_[k]):
                            bad.append(("v", j, k))
                if not full or dec == "svd":
                    # (in the full SVD the columns beyond the common part carry singular value zero and are not paired across u and v)
                    for k in range(min(len(nql_), len(nqr_)) if not full else kmin):
                        if not np.all(nql_[k] + nqr_[k] == qntot):
                            bad.append(("sum", k))
                decide_true(run, f"post:svd_qn:labels_describe_the_support@{tag}", fn, not bad, f"label rule broken at {bad[:3]}", case)
                decide_true(run, f"post:svd_qn:shapes@{tag}", fn, bool(ok_shape), f"columns {u.shape[1]}/{v.shape[1]}, labels {len(nql)}/{len(nqr)}", case)
    run.extra.setdefault("symx", {})["C18_kernel_stub"] = {"label_patterns": len(pats), "modes": [list(map(str, x)) for x in MODES], "cases": ncase, "kernel_stubs": SH.KERNEL_STUBS}
    if ncase == 0:
        run.crash("C18_kernel: no case generated")


def prove_eigh(run):
    """eigh_qn (density-matrix path of the state-averaged sweeps) in kernel-stub mode: every symmetry block of the input is built as V diag(w) V^H from indeterminate V
    and fixed positive w, the forbidden entries are independent indeterminates, and `scipy.linalg.eigh` as seen from svd_qn returns exactly those factors for the
    block it is handed.  Decided exactly per label pattern: only sectors with a partner label on the complementary side are kept; u diag(s^2) u^H restores exactly
    those blocks; the label of every column describes its support; s = sqrt(w)."""
    import renormalizer.mps.svd_qn as sq
    from fractions import Fraction
    pats = []
    for m in (1, 2, 3):
        for n in (1, 2):
            for ql in itertools.product(range(3), repeat=m):
                for qr in itertools.combinations_with_replacement(range(3), n):
                    for tot in range(0, 4):
                        pats.append((tuple((a,) for a in ql), tuple((b,) for b in qr), (tot,)))
    alpha = [(0, 0), (0, 1), (1, 0), (1, 1)]
    for m in (2, 3):
        for ql in itertools.combinations_with_replacement(alpha, m):
            for qr in itertools.combinations_with_replacement(alpha, 2):
                for tot in ((1, 1), (1, 0), (2, 1)):
                    pats.append((ql, qr, tot))
    if run.tier == "quick":
        pats = pats[::2]
    ncase = 0
    for ql, qr, tot in pats:
        qs = len(tot)
        qn_sys = np.array(ql).reshape(len(ql), qs)
        qn_comp = np.array(qr).reshape(len(qr), qs)
        qntot = np.array(tot)
        m = len(ql)
        for system in ("L", "R"):
            vf = VarFactory()
            dm = vf.array((m, m))                    # forbidden / skipped entries: independent indeterminates
            registry = []
            kept_rows = []
            for lab in sorted({tuple(x) for x in qn_sys}):
                rows = [i for i in range(m) if tuple(qn_sys[i]) == lab]
                partner = bool(np.any(np.all(qn_comp == qntot - np.array(lab), axis=1)))
                k = len(rows)
                V = vf.array((k, k))
                w = np.array([4.0 ** (1 - j) for j in range(k)])      # perfect squares: sqrt is exact in floating point
                B = (V * np.array([Poly.const(Fraction(float(x))) for x in w], dtype=object)[None, :]).dot(np.vectorize(lambda x: Poly.coerce(x).conjugate(), otypes=[object])(V).T)
                for a_, i in enumerate(rows):
                    for b_, j in enumerate(rows):
                        dm[i, j] = B[a_, b_]
                registry.append((B, w, V))
                if partner:
                    kept_rows.append((lab, rows, B))
            ncase += 1
            tag = f"eigh-{system}:{ql}|{qr}|{tot}"
            case = {"system": system, "labels_system_side": [list(map(int, x)) for x in qn_sys], "labels_complementary_side": [list(map(int, x)) for x in qn_comp], "qntot": list(map(int, qntot))}

            def stub_eigh(block, *a, **k):
                block = np.asarray(block, dtype=object)
                for B, w, V in registry:
                    if B.shape == block.shape and all(Poly.coerce(x) == Poly.coerce(y) for x, y in zip(B.reshape(-1), block.reshape(-1))):
                        return w.copy(), V
                raise AssertionError("kernel stub: eigh called on a block that is not one of the symmetry blocks of the input")

            class Lin:
                eigh = staticmethod(stub_eigh)

                def __getattr__(self, name):
                    import scipy.linalg
                    return getattr(scipy.linalg, name)

            class Sc:
                linalg = Lin()
            qnl, qnr = (qn_sys, qn_comp) if system == "L" else (qn_comp, qn_sys)
            with SH.symbolic_mode():
                saved = sq.scipy
                sq.scipy = Sc()
                try:
                    u, s_, nq = sq.eigh_qn(dm.copy(), qnl, qnr, qntot, system)
                except Exception as e:
                    sq.scipy = saved
                    if not kept_rows and isinstance(e, ValueError):
                        # no sector has a partner: nothing to return (np.concatenate of an empty list) - outside the function's domain
                        continue
                    decide_true(run, f"post:eigh_qn:total@{tag}", "eigh_qn", False, f"raised on an indeterminate density matrix with stubbed eigh: {type(e).__name__}: {e}", case)
                    continue
                finally:
                    sq.scipy = saved
            u = np.asarray(u, dtype=object)
            want = np.empty((m, m), dtype=object)
            want.fill(Poly())
            for lab, rows, B in kept_rows:
                for a_, i in enumerate(rows):
                    for b_, j in enumerate(rows):
                        want[i, j] = B[a_, b_]
            s2 = np.array([Poly.const(Fraction(float(x)) ** 2) for x in np.asarray(s_, dtype=float)], dtype=object)
            rec = (u * s2[None, :]).dot(np.vectorize(lambda x: Poly.coerce(x).conjugate(), otypes=[object])(u).T)
            decide(run, f"post:eigh_qn:restores_exactly_the_partnered_sectors@{tag}", "eigh_qn", rec, want, case)
            nq_ = np.array(nq).reshape(-1, qs)
            bad = [(i, k) for k in range(u.shape[1]) for i in range(m) if bool(Poly.coerce(u[i, k])) and not np.all(qn_sys[i] == nq_[k])]
            nocomp = [k for k in range(len(nq_)) if not np.any(np.all(qn_comp == qntot - nq_[k], axis=1))]
            decide_true(run, f"post:eigh_qn:labels_describe_the_support_and_have_a_partner@{tag}", "eigh_qn", not bad and not nocomp and u.shape[1] == len(nq_) == len(s_) == sum(len(r) for _, r, _ in kept_rows),
                        f"support/label mismatch {bad[:2]}, columns without partner label {nocomp[:2]}, shapes {u.shape[1]}/{len(nq_)}/{len(s_)}", case)
    run.extra.setdefault("symx", {})["C18_eigh_qn"] = {"cases": ncase}
    if ncase == 0:
        run.crash("C18_kernel.prove_eigh: no case generated")
