"""C07 Observables computed from the network equal their dense definitions."""
from vk.symx.harness import guarded
import itertools

import numpy as np

from vk.rtc.harness import run_cases
from vk.specs import chain as S
from vk.specs import universe as U
from vk.specs import dyn as Dn

LEVEL = "other"
TECHNIQUE = ("contracts on the real measurement methods: exact symbolic execution (all tensor values, enumerated shapes and operator lists) decides "
             "expectation == sesquilinear form and batched fast path == one-by-one path as polynomial identities; runtime contracts against the dense "
             "vector for occupations, reduced density matrices and entropies (bounded stand-in)")
TOL = 1e-10


def product_ops(model, rng, k):
    """k product operators over a per-site alphabet {I, diagonal, ladder/flip}: many share prefixes / suffixes / whole site tensors"""
    from renormalizer.model import Op
    letters = []
    for b in model.basis:
        name = type(b).__name__
        d = b.dofs[0]
        if name == "BasisHalfSpin":
            neutral = np.all(np.asarray(b.sigmaqn) == 0)
            letters.append([None, ("sigma_z", d)] + ([("sigma_x", d)] if neutral else []))
        elif name == "BasisSimpleElectron":
            letters.append([None, (r"a^\dagger a", d)])
        elif name == "BasisSHO":
            letters.append([None, (r"b^\dagger b", d), ("x", d)])
        else:
            letters.append([None])
    allw = [w for w in itertools.product(*[range(len(l)) for l in letters]) if any(w)]
    rng.shuffle(allw)
    ops = []
    for w in allw[:k]:
        t = None
        for s, i in enumerate(w):
            if letters[s][i] is None:
                continue
            sym, d = letters[s][i]
            nsym = len(sym.split(" "))
            qn = None
            if sym == r"a^\dagger a":
                b = model.dof_to_basis[d]
                one = np.asarray(b.sigmaqn)[1].tolist()
                qn = [one, [-x for x in one]] if model.qn_size > 1 else [one[0], -one[0]]
            elif model.qn_size > 1:
                qn = [[0] * model.qn_size] * nsym
            o = Op(sym, [d] * nsym if nsym > 1 else d, 1.0, qn=qn)
            t = o if t is None else t * o
        ops.append(t)
    return ops


def rdm_ref(psi, dims, sites):
    k = len(sites)
    m = np.moveaxis(psi.reshape(dims), sites, list(range(k))).reshape(int(np.prod([dims[s] for s in sites])), -1)
    return m @ m.conj().T


def entropy(p):
    p = np.asarray(p, dtype=float)
    p = p[p > 1e-15]
    p = p / p.sum()
    return float(-(p * np.log(p)).sum())


def worker(case, led):
    name, n, seed, tier = case
    from renormalizer.mps import Mpo, Mps, MpDm
    rng = np.random.default_rng([seed, n, 707, sum(map(ord, name))])
    model, terms, sectors = Dn.hamiltonian(name, n, rng)
    dims = [b.nbas for b in model.basis]
    H = Mpo(model, terms)
    Hd = Dn.dense_h(model, terms)
    ops = product_ops(model, rng, 8 if tier == "quick" else 16)
    mpos = [Mpo(model, o) for o in ops]
    dens = [U.dense_terms(model, [o]) for o in ops]
    sel = list(sectors)
    rng.shuffle(sel)
    for q in sel[:2]:
        for cplx in (False, True):
            psi = U.make_state(model, q, 4, rng, complex_=cplx)
            phi = U.make_state(model, q, 3, rng, complex_=cplx)
            if psi is None or phi is None:
                continue
            for gauge in ("fresh", "cano", "center"):
                a = S.apply_gauge(psi, gauge, int(rng.integers(n)))
                a.coeff = 1
                v, w = S.dense(a), S.dense(phi)
                key = (name, n, str(q), cplx, gauge)
                rep = {"model": name, "nsites": n, "sector": q, "complex": cplx, "gauge": gauge, "seed": seed,
                       "ops": [repr(o) for o in ops]}
                fields = {"complex_state": cplx}
                # ---- single expectation / transition amplitude
                e = a.expectation(H)
                ref = np.vdot(v, Hd @ v)
                led.check(abs(e - ref) <= TOL * max(1, abs(ref)), "post:Mps.expectation:dense_value", "Mps.expectation", f"{e} vs {ref}", key + ("H",), fields, rep)
                t = a.expectation(H, self_conj=phi.conj())
                ref = np.vdot(w, Hd @ v)
                led.check(abs(t - ref) <= TOL * max(1, abs(ref)), "post:Mps.expectation:transition_amplitude", "Mps.expectation",
                          f"<phi|H|psi> {t} vs {ref}", key + ("Ht",), fields, rep)
                # ---- batched: every ordered pair / sampled longer lists; fast path == slow path == dense
                lists = [list(p) for p in itertools.product(range(len(mpos)), repeat=2)]
                if tier == "quick":
                    rng.shuffle(lists)
                    lists = lists[:24]
                lists += [[int(x) for x in rng.integers(len(mpos), size=int(rng.integers(3, 6)))] for _ in range(10 if tier == "quick" else 40)]
                lists.append(list(range(len(mpos))))
                for lst in lists:
                    ms = [mpos[i] for i in lst]
                    try:
                        fast = np.asarray(a.expectations(ms, opt=True))
                    except Exception as e:
                        led.check(False, "post:Mps.expectations:total", "Mps.expectations", f"list {lst}: raised {type(e).__name__}: {e}", key + ("list", tuple(lst)),
                                  fields, dict(rep, list=lst))
                        continue
                    slow = np.asarray(a.expectations(ms, opt=False))
                    dn = np.array([np.vdot(v, dens[i] @ v) for i in lst])
                    k2 = key + ("list", tuple(lst))
                    led.check(fast.shape == slow.shape and np.abs(fast - slow).max() <= TOL, "post:Mps.expectations:fast_path_equals_one_by_one", "Mps.expectations",
                              f"list {lst}: max diff {np.abs(fast - slow).max() if fast.shape == slow.shape else 'shape'}", k2, fields, dict(rep, list=lst),
                              nontrivial=len(set(lst)) < len(lst) or len(lst) > 1)
                    led.check(np.abs(fast - dn).max() <= TOL * max(1, np.abs(dn).max()), "post:Mps.expectations:dense_values", "Mps.expectations",
                              f"list {lst}: {fast} vs {dn}", k2 + ("dense",), fields, dict(rep, list=lst))
                lst = [int(x) for x in rng.integers(len(mpos), size=4)]
                fast = np.asarray(a.expectations([mpos[i] for i in lst], self_conj=phi.conj(), opt=True))
                dn = np.array([np.vdot(w, dens[i] @ v) for i in lst])
                led.check(np.abs(fast - dn).max() <= TOL * max(1, np.abs(dn).max()), "post:Mps.expectations:transition_amplitudes", "Mps.expectations",
                          f"list {lst} with bra != ket: {fast} vs {dn}", key + ("bra",), fields, dict(rep, list=lst))
                # ---- occupations (per-model operator cache)
                if getattr(model, "e_dofs", None):
                    occ = np.asarray(a.e_occupations)
                    refs = []
                    for d in model.e_dofs:
                        b = model.dof_to_basis[d]
                        from renormalizer.model import Op
                        refs.append(np.vdot(v, U.dense_terms(model, [Op(r"a^\dagger a", d)]) @ v).real)
                    led.check(np.abs(occ - np.array(refs)).max() <= TOL, "post:Mps.e_occupations:dense_values", "Mps.e_occupations", f"{occ} vs {refs}",
                              key + ("eocc",), fields, rep)
                if getattr(model, "v_dofs", None):
                    occ = np.asarray(a.ph_occupations)
                    refs = []
                    for d in model.v_dofs:
                        from renormalizer.model import Op
                        refs.append(np.vdot(v, U.dense_terms(model, [Op(r"b^\dagger b", d)]) @ v).real)
                    led.check(np.abs(occ - np.array(refs)).max() <= TOL * max(1, max(refs)), "post:Mps.ph_occupations:dense_values", "Mps.ph_occupations",
                              f"{occ} vs {refs}", key + ("vocc",), fields, rep)
                # ---- reduced density matrices = partial traces of |psi><psi|
                r1 = a.calc_1site_rdm()
                for i in range(n):
                    ref = rdm_ref(v, dims, [i])
                    got = np.asarray(r1[i])
                    rel = "equal" if np.abs(got - ref).max() <= TOL else ("result == conj(rho)" if np.abs(got - ref.conj()).max() <= TOL else "other")
                    led.check(rel == "equal", "post:Mps.calc_1site_rdm:partial_trace", "Mps.calc_1site_rdm",
                              f"site {i}: differs from Tr_rest|psi><psi| ({rel})", key + ("rdm1", i), dict(fields, relation=rel), dict(rep, site=i))
                r2 = a.calc_2site_rdm()
                for (i, j), got in r2.items():
                    ref = rdm_ref(v, dims, [i, j])
                    got = np.asarray(got)
                    rel = "equal" if np.abs(got - ref).max() <= TOL else ("result == conj(rho)" if np.abs(got - ref.conj()).max() <= TOL else "other")
                    led.check(rel == "equal", "post:Mps.calc_2site_rdm:partial_trace", "Mps.calc_2site_rdm",
                              f"sites {(i, j)}: differs from the partial trace ({rel})", key + ("rdm2", i, j), dict(fields, relation=rel), dict(rep, sites=[i, j]))
                # call-history independence: measure, change the SAME object in place, measure again - the second measurement is that of the state the object now holds
                try:
                    a2 = a.copy()
                    a2.calc_1site_rdm()
                    for how_, act in (("scale(-0.5, inplace=True)", lambda x_: x_.scale(-0.5, inplace=True)), ("normalize('mps_norm_to_coeff')", lambda x_: x_.normalize("mps_norm_to_coeff")),
                                      ("scale(2j, inplace=True)", lambda x_: x_.scale(2j, inplace=True)), ("canonicalise()", lambda x_: x_.canonicalise())):
                        act(a2)
                        # (the observables of the package are those of the tensors; the separate prefactor `coeff` keeps the norm that normalize(...) took out)
                        v2 = S.dense(a2, with_coeff=False)
                        ra = a2.calc_1site_rdm()
                        ok = all(np.abs(np.asarray(ra[i]) - rdm_ref(v2, dims, [i])).max() <= TOL * max(1.0, np.vdot(v2, v2).real) for i in range(n))
                        led.check(ok, "post:Mps.calc_1site_rdm:second_measurement_after_an_in_place_change", "Mps.calc_1site_rdm",
                                  f"after {how_} on the measured object its RDMs are not those of the state it now holds", key + ("rdm-history", how_), dict(fields, change=how_),
                                  dict(rep, history=f"measure; {how_}; measure"))
                except Exception as e:
                    led.check(False, "post:Mps.calc_1site_rdm:total", "Mps.calc_1site_rdm", f"measure / change in place / measure raised {type(e).__name__}: {e}", key + ("rdm-history",), fields, rep)
                if n >= 2:
                    led.check(set(r2.keys()) == {(i, j) for i in range(n) for j in range(i + 1, n)}, "post:Mps.calc_2site_rdm:all_pairs", "Mps.calc_2site_rdm",
                              f"keys {sorted(r2.keys())}", key + ("rdm2keys",), fields, rep)
                if getattr(model, "e_dofs", None) and len(model.e_dofs) >= 1:
                    from renormalizer.model import Op
                    er = np.asarray(a.calc_edof_rdm())
                    ref = np.zeros_like(er)
                    for i, d1 in enumerate(model.e_dofs):
                        for j, d2 in enumerate(model.e_dofs):
                            o = Op(r"a^\dagger a", [d1, d2]) if d1 != d2 else Op(r"a^\dagger a", d1)
                            ref[i, j] = np.vdot(v, U.dense_terms(model, [o]) @ v)
                    led.check(np.abs(er - ref).max() <= TOL, "post:Mps.calc_edof_rdm:correlation_matrix", "Mps.calc_edof_rdm",
                              f"max diff {np.abs(er - ref).max():.2e}", key + ("edof",), fields, rep)
                # ---- entropies (normalised state)
                nrm = np.linalg.norm(v)
                if nrm > 1e-8 and n >= 2:
                    an = a.copy()
                    an = an.scale(1.0 / nrm)
                    vn = v / nrm
                    e1 = an.calc_entropy("1site")
                    e2 = an.calc_entropy("2site")
                    eb = np.asarray(an.calc_entropy("bond"))
                    em = np.asarray(an.calc_entropy("mutual"))
                    ok1 = all(abs(e1[i] - entropy(np.linalg.eigvalsh(rdm_ref(vn, dims, [i])))) <= 1e-8 for i in range(n))
                    led.check(ok1, "post:Mps.calc_entropy:1site", "Mps.calc_entropy", f"{e1}", key + ("s1",), fields, rep)
                    ok2 = all(abs(e2[(i, j)] - entropy(np.linalg.eigvalsh(rdm_ref(vn, dims, [i, j])))) <= 1e-8 for (i, j) in e2)
                    led.check(ok2, "post:Mps.calc_entropy:2site", "Mps.calc_entropy", "2-site entropy differs from dense", key + ("s2",), fields, rep)
                    refb = []
                    for bnd in range(1, n):
                        s = np.linalg.svd(vn.reshape(int(np.prod(dims[:bnd])), -1), compute_uv=False)
                        refb.append(entropy(s ** 2))
                    led.check(len(eb) == n - 1 and np.abs(eb - np.array(refb)).max() <= 1e-8, "post:Mps.calc_bond_entropy:dense_schmidt_spectrum", "Mps.calc_bond_entropy",
                              f"{eb} vs {refb}", key + ("sb",), fields, rep)
                    # the Schmidt values do not depend on the compression rule the state happens to carry, and measuring leaves that rule alone
                    from renormalizer.utils import CompressConfig, CompressCriteria
                    for ci, cfg in enumerate((CompressConfig(CompressCriteria.fixed, max_bonddim=1), CompressConfig(CompressCriteria.threshold, threshold=0.3),
                                              CompressConfig(CompressCriteria.both, threshold=0.2, max_bonddim=2))):
                        ac = an.copy()
                        ac.compress_config = cfg
                        sv = ac.calc_bond_singular_values()
                        oks = len(sv) == n - 1
                        for bnd in range(1, n):
                            ref = np.linalg.svd(vn.reshape(int(np.prod(dims[:bnd])), -1), compute_uv=False)
                            got = np.sort(np.asarray(sv[bnd - 1]))[::-1] if oks else np.zeros(0)
                            m_ = max(len(ref), len(got))
                            oks = oks and np.abs(np.pad(got, (0, m_ - len(got))) - np.pad(ref, (0, m_ - len(ref)))).max() <= 1e-9
                        led.check(oks, "post:Mps.calc_bond_singular_values:dense_schmidt_values_whatever_the_carried_rule", "Mps.calc_bond_singular_values",
                                  f"state carrying rule #{ci} ({cfg.criteria}): singular values differ from the dense Schmidt values",
                                  key + ("svcfg", ci), dict(fields, carried_rule=str(cfg.criteria)), dict(rep, carried_rule=str(cfg.criteria)))
                        led.check(ac.compress_config is cfg and np.abs(S.dense(ac) - vn).max() <= 1e-12, "frame:Mps.calc_bond_singular_values:state_and_rule_unchanged",
                                  "Mps.calc_bond_singular_values", "measuring changed the state or its compression rule", key + ("svcfgframe", ci), fields, rep)
                    okm = True
                    for i in range(n):
                        for j in range(i + 1, n):
                            si = entropy(np.linalg.eigvalsh(rdm_ref(vn, dims, [i])))
                            sj = entropy(np.linalg.eigvalsh(rdm_ref(vn, dims, [j])))
                            sij = entropy(np.linalg.eigvalsh(rdm_ref(vn, dims, [i, j])))
                            okm = okm and abs(em[i, j] - (si + sj - sij) / 2) <= 1e-8 and abs(em[j, i] - em[i, j]) <= 1e-12
                    led.check(okm, "post:Mps.calc_2site_mutual_entropy:definition", "Mps.calc_2site_mutual_entropy", "mutual entropy differs", key + ("sm",), fields, rep)
                    led.check(np.abs(S.dense(an) - vn).max() <= 1e-12, "frame:Mps.calc_entropy:state_unchanged", "Mps.calc_entropy", "measuring changed the state",
                              key + ("frame",), fields, rep)
                    # states that are not normalised (slightly or grossly): the entropies are those of rho / Tr rho, i.e. of the normalised dense vector
                    ref1 = [entropy(np.linalg.eigvalsh(rdm_ref(vn, dims, [i]))) for i in range(n)]
                    for sc in (0.97, 1.04, 3.0):
                        au = an.scale(sc)
                        try:
                            eu1 = au.calc_entropy("1site")
                            eub = np.asarray(au.calc_entropy("bond"))
                            oku = all(abs(eu1[i] - ref1[i]) <= 1e-8 for i in range(n)) and len(eub) == n - 1 and np.abs(eub - np.array(refb)).max() <= 1e-8
                            led.check(oku, "post:Mps.calc_entropy:unnormalised_state_has_the_entropies_of_the_normalised_one", "Mps.calc_entropy",
                                      f"norm {sc}: 1-site {[float(eu1[i]) for i in range(n)]} vs {ref1}; bond {eub} vs {refb}", key + ("unnorm", sc), dict(fields, norm=sc), dict(rep, norm=sc))
                        except Exception as e:
                            led.check(False, "post:Mps.calc_entropy:unnormalised_total", "Mps.calc_entropy", f"norm {sc}: raised {type(e).__name__}: {e}", key + ("unnorm", sc),
                                      dict(fields, norm=sc), dict(rep, norm=sc))
            # ---- density-operator form: <O> = Tr(A^dagger O A)
            try:
                A0 = MpDm.from_mps(psi)
                led.check(np.abs(S.dense(A0) - np.diag(S.dense(psi))).max() <= 1e-14 and not S.qnv_violations(A0),
                          "post:MpDm.from_mps:diagonal_embedding", "MpDm.from_mps", "dense(from_mps(psi)) != diag(psi) (or labels invalid)",
                          (name, n, str(q), cplx, "from_mps"), {"complex_state": cplx}, {"model": name, "nsites": n, "sector": q, "complex": cplx, "seed": seed})
                A = H.apply(MpDm.from_mps(psi))
                Ad = S.dense(A)
                e = A.expectation(H)
                ref = np.trace(Ad.conj().T @ Hd @ Ad)
                led.check(abs(e - ref) <= 1e-9 * max(1, abs(ref)), "post:MpDm.expectation:trace_formula", "MpDm._expectation_path",
                          f"{e} vs Tr(A^+ H A) = {ref}", (name, n, str(q), cplx, "mpdm"), {"complex_state": cplx}, {"model": name, "nsites": n, "sector": q, "seed": seed})
                lst = [0, 1, 0] if len(mpos) > 1 else [0]
                fast = np.asarray(A.expectations([mpos[i] for i in lst]))
                dn = np.array([np.trace(Ad.conj().T @ dens[i] @ Ad) for i in lst])
                led.check(np.abs(fast - dn).max() <= 1e-9 * max(1, np.abs(dn).max()), "post:MpDm.expectations:trace_formula", "Mps.expectations",
                          f"{fast} vs {dn}", (name, n, str(q), cplx, "mpdm-list"), {"complex_state": cplx}, {"model": name, "nsites": n, "sector": q, "seed": seed})
            except Exception as e:
                led.check(False, "post:MpDm.expectation:total", "MpDm._expectation_path", f"raised {type(e).__name__}: {e}", (name, n, str(q), cplx, "mpdm"), {}, {})
            # ---- density-operator form: RDMs and entropies of rho = A A^+ (physical legs kept, ancilla legs traced); A is made asymmetric under
            #      physical <-> ancilla by operators acting from the physical side only
            try:
                mpdm_observables(led, name, n, seed, q, cplx, psi, H, mpos, dims, rng)
            except Exception as e:
                led.check(False, "post:MpDm.calc_rdm:total", "Mps.calc_1site_rdm", f"raised {type(e).__name__}: {e}", (name, n, str(q), cplx, "mpdm-rdm"), {}, {})


def rdm_ref_dm(Ad, dims, sites):
    """Tr_{other physical sites, all ancillas} A A^+ from the dense operator A[(p_1..p_n), (a_1..a_n)]"""
    k = len(sites)
    m = np.moveaxis(Ad.reshape(list(dims) + list(dims)), sites, list(range(k))).reshape(int(np.prod([dims[s] for s in sites])), -1)
    return m @ m.conj().T


def mpdm_observables(led, name, n, seed, q, cplx, psi, H, mpos, dims, rng):
    from renormalizer.mps import MpDm
    A = H.apply(MpDm.from_mps(psi))
    for kick in range(2):
        if kick:
            A = mpos[int(rng.integers(len(mpos)))].apply(A)     # product operator (flips / diagonals): not Hermitian in general
            if cplx and np.abs(S.dense(A)).max() > 1e-10:      # (the library refuses to scale the zero operator: precondition)
                A = A.scale(0.6 + 0.8j)
        for gauge in ("fresh", "cano"):
            a = A.copy()
            if gauge == "cano":
                a.canonicalise()
            a.coeff = 1
            Ad = S.dense(a)
            if np.abs(Ad).max() < 1e-10:
                continue
            key = (name, n, str(q), cplx, "mpdm-rdm", kick, gauge)
            rep = {"model": name, "nsites": n, "sector": q, "complex": cplx, "gauge": gauge, "seed": seed, "state": "H.apply(MpDm.from_mps(psi))" + (" then a product operator" if kick else "")}
            fields = {"complex_state": cplx, "density_operator": True}
            asym = float(np.abs(Ad - Ad.T).max())
            r1 = a.calc_1site_rdm()
            for i in range(n):
                ref = rdm_ref_dm(Ad, dims, [i])
                got = np.asarray(r1[i])
                rel = "equal" if got.shape == ref.shape and np.abs(got - ref).max() <= TOL * max(1, np.abs(ref).max()) else (
                    "result == conj(rho)" if got.shape == ref.shape and np.abs(got - ref.conj()).max() <= TOL * max(1, np.abs(ref).max()) else "other")
                led.check(rel == "equal", "post:MpDm.calc_1site_rdm:partial_trace_of_A_Adagger", "Mps.calc_1site_rdm",
                          f"site {i}: differs from Tr_rest,ancilla A A^+ ({rel})", key + ("rdm1", i), dict(fields, relation=rel), dict(rep, site=i), nontrivial=asym > 1e-6)
            sub = int(rng.integers(n))
            one = a.calc_1site_rdm(sub)
            led.check(set(one.keys()) == {sub} and np.abs(np.asarray(one[sub]) - np.asarray(r1[sub])).max() <= 1e-12 * max(1, np.abs(r1[sub]).max()),
                      "post:Mps.calc_1site_rdm:index_selection", "Mps.calc_1site_rdm", f"idx={sub}: keys {sorted(one.keys())}", key + ("rdm1idx",), fields, rep)
            if n >= 2:
                r2 = a.calc_2site_rdm()
                for (i, j) in r2:
                    ref = rdm_ref_dm(Ad, dims, [i, j])
                    got = np.asarray(r2[(i, j)]).reshape(ref.shape)
                    ok = np.abs(got - ref).max() <= TOL * max(1, np.abs(ref).max())
                    led.check(ok, "post:MpDm.calc_2site_rdm:partial_trace_of_A_Adagger", "Mps.calc_2site_rdm", f"sites {(i, j)}: differs from the partial trace of A A^+",
                              key + ("rdm2", i, j), fields, dict(rep, sites=[i, j]), nontrivial=asym > 1e-6)
                nrm = np.linalg.norm(Ad)
                an = a.scale(1.0 / nrm)
                An = Ad / nrm
                e1 = an.calc_entropy("1site")
                ok1 = all(abs(e1[i] - entropy(np.linalg.eigvalsh(rdm_ref_dm(An, dims, [i])))) <= 1e-8 for i in range(n))
                led.check(ok1, "post:MpDm.calc_entropy:1site", "Mps.calc_entropy", f"{e1}", key + ("s1",), fields, rep, nontrivial=asym > 1e-6)
                em = np.asarray(an.calc_entropy("mutual"))
                okm = True
                for i in range(n):
                    for j in range(i + 1, n):
                        si = entropy(np.linalg.eigvalsh(rdm_ref_dm(An, dims, [i])))
                        sj = entropy(np.linalg.eigvalsh(rdm_ref_dm(An, dims, [j])))
                        sij = entropy(np.linalg.eigvalsh(rdm_ref_dm(An, dims, [i, j])))
                        okm = okm and abs(em[i, j] - (si + sj - sij) / 2) <= 1e-7 and abs(em[j, i] - em[i, j]) <= 1e-12
                led.check(okm, "post:MpDm.calc_2site_mutual_entropy:definition", "Mps.calc_2site_mutual_entropy", "mutual entropy of a density operator differs", key + ("sm",),
                          fields, rep, nontrivial=asym > 1e-6)
                # bond entropy: Schmidt spectrum of the purification between sites [0, b) and [b, n) (physical and ancilla legs of a site stay together)
                T = An.reshape(list(dims) + list(dims))
                perm = [x for i in range(n) for x in (i, n + i)]
                T = T.transpose(perm)
                eb = np.asarray(an.calc_entropy("bond"))
                refb = []
                for bnd in range(1, n):
                    sv = np.linalg.svd(T.reshape(int(np.prod(dims[:bnd])) ** 2, -1), compute_uv=False)
                    refb.append(entropy(sv ** 2))
                led.check(len(eb) == n - 1 and np.abs(eb - np.array(refb)).max() <= 1e-8, "post:MpDm.calc_bond_entropy:dense_schmidt_spectrum", "Mps.calc_bond_entropy",
                          f"{eb} vs {refb}", key + ("sb",), fields, rep)
                led.check(np.abs(S.dense(an) - An).max() <= 1e-12, "frame:Mps.calc_entropy:state_unchanged", "Mps.calc_entropy", "measuring changed the density operator",
                          key + ("frame",), fields, rep)


def check(run):
    from props import C07_sym
    guarded(run, C07_sym.prove)
    seeds = [run.seed] if run.tier == "quick" else [run.seed, run.seed + 1]
    ns = [2, 3, 4] if run.tier == "quick" else [1, 2, 3, 4, 5]
    cases = [(name, n, s, run.tier) for name in ("spin", "spinqn", "holstein", "spin2qn") for n in ns for s in seeds]
    run_cases(run, worker, cases)
    run.rule = ("models x 2..4(5) sites x 2 sectors x real/complex x gauges {fresh, canonicalised, centre moved}; operator lists over a per-site alphabet "
                "{I, diagonal, flip}: all ordered pairs (sampled in quick), random lists of length 3..5 with repetitions, the full list; bra != ket; "
                "occupations, 1-/2-site/electronic RDMs, 1-site/2-site/mutual/bond entropies, density-operator form; non-trivial lists = repeated or several operators")
    run.sample({"model": "holstein", "nsites": 4, "complex": True, "list": [3, 0, 3, 5],
                "contract": "expectations(list, opt=True) == [expectation(o) for o in list] == dense <psi|O|psi>"})
    run.explanation = ("Engine S decides, for every enumerated shape and operator list, that the cached fast path returns exactly the polynomial of the "
                       "one-by-one path and that both equal the dense sesquilinear form for all tensor values; the remaining observables are runtime "
                       "contracts against the dense vector (bounded).")
    run.trusted += ["dense partial traces / numpy eigvalsh / svd as oracles"]
