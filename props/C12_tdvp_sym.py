"""Engine S part of C12: the tree projector-splitting schemes pose exactly the local problems of the integrator (call by contract at the local propagator).

Same construction as props/C09_tdvp_sym.py, on every rooted ordered tree shape of the universe: `expm_krylov` inside renormalizer.tn.time_evolution is replaced by
a recording stub that returns an ARBITRARY vector (fresh indeterminates on the structural support of the Krylov space of the start vector); the real
evolve_tdvp_ps / evolve_tdvp_ps2 run end to end in kernel-stub mode.  Obligations, all exact polynomial identities:

  schedule      one-site scheme: first sweep in post-order - one-site problem at every node, then the zero-site problem on its bond to the parent (none for the root);
                second sweep in pre-order - one-site problem at the node, then for every child the zero-site problem on that bond followed by the child's subtree.
                two-site scheme: recursive sweep with a two-site problem on every bond and a one-site problem at the parent in between, mirrored in the second sweep.
  generator     A x t equals  coeff tau/2  J^H H J  (forward problems) resp.  -coeff tau/2  J^H H J  (backward problems), J the frame map (local tensor -> dense
                vector) contracted independently (vk.specs.tree) from the node tensors held at that moment, H the exactly lifted dense TTNO;
  continuity    every problem is posed in the state the previous one produced; the first state is the input and the result is the state of the last problem.
"""
import numpy as np

from vk.specs import tree as T
from vk.specs import treeuniv as TU
from vk.symx import shims as SH
from vk.symx.harness import decide, decide_true, native_pass
from vk.symx.poly import Poly, VarFactory
from props.C09_tdvp_sym import conj_arr, unit_vec, _obj, is_zero


class TreeRecorder:
    def __init__(self, vf, work, real_kernel=None):
        self.vf, self.work, self.real, self.calls = vf, work, real_kernel, []

    @property
    def sym(self):
        return self.real is None

    def snapshot(self):
        w = self.work
        return {"tensors": [(_obj(nd.tensor) if self.sym else np.asarray(nd.tensor)).copy() for nd in w.node_list], "coeff": w.coeff}

    def expm_krylov(self, afun, dt, v, *a, **k):
        from vk.symx.harness import budget_check
        budget_check()      # safe point: between two local problems
        n = len(np.asarray(getattr(v, "array", v), dtype=object if self.sym else None).ravel())
        cols = [np.asarray(_obj(afun(unit_vec(n, j, True))) if self.sym else afun(unit_vec(n, j, False))).ravel() for j in range(n)]
        amat = np.array(cols, dtype=object if self.sym else complex).T
        if not self.sym:
            v = np.asarray(v).ravel()
            y, j = self.real(afun, dt, v, *a, **k)
            self.calls.append({"A": amat, "t": complex(dt), "v": v.copy(), "y": np.asarray(y).ravel().copy(), "snap": self.snapshot()})
            return y, j
        v = _obj(v).ravel()
        supp = np.array([not is_zero(x) for x in v])
        w = v
        for _ in range(3):
            w = amat.dot(w)
            supp |= np.array([not is_zero(x) for x in w])
        y = np.empty(n, dtype=object)
        for i in range(n):
            y[i] = self.vf.fresh() if supp[i] else Poly()
        self.calls.append({"A": amat, "t": complex(dt), "v": v, "y": y, "snap": self.snapshot()})
        return y, 1


def schedule(ttns, two_site):
    """(kind, node index): one-site scheme 'F1' node / 'B0' bond of that (child) node; two-site scheme 'F2' bond of that child / 'B1' node"""
    idx = ttns.node_idx
    out = []
    root = ttns.root
    if not two_site:
        def fwd(x):
            for c in x.children:
                fwd(c)
            out.append(("F1", idx[x]))
            if x.parent is not None:
                out.append(("B0", idx[x]))

        def bwd(x):
            out.append(("F1", idx[x]))
            for c in x.children:
                out.append(("B0", idx[c]))
                bwd(c)
        fwd(root)
        bwd(root)
    else:
        def fwd2(x):
            for i, c in enumerate(x.children):
                if c.children:
                    fwd2(c)
                out.append(("F2", idx[c]))
                if not (x is root and i == len(x.children) - 1):
                    out.append(("B1", idx[x]))

        def bwd2(x):
            for i, c in reversed(list(enumerate(x.children))):
                if not (x is root and i == len(x.children) - 1):
                    out.append(("B1", idx[x]))
                out.append(("F2", idx[c]))
                if c.children:
                    bwd2(c)
        fwd2(root)
        bwd2(root)
    return out


def dense_of(template, tensors, coeff, order):
    x = template.metacopy() if hasattr(template, "metacopy") else template.copy()
    for nd, t in zip(x.node_list, tensors):
        nd.tensor = t
    x.coeff = coeff
    return T.dense_ttns(x, order)


def local_shape_of(template, snap, kind, i):
    Ts = snap["tensors"]
    nd = template.node_list[i]
    if kind in ("F1", "B1"):
        return tuple(Ts[i].shape)
    p = template.node_idx[nd.parent]
    ich = nd.parent.children.index(nd)
    if kind == "B0":
        return (Ts[i].shape[-1], Ts[p].shape[ich])
    ps = list(Ts[p].shape)
    del ps[ich]
    return tuple(Ts[i].shape[:-1]) + tuple(ps)


def place(template, Ts, kind, i, loc, sym):
    Ts = list(Ts)
    nd = template.node_list[i]
    if kind in ("F1", "B1"):
        Ts[i] = loc
        return Ts
    p = template.node_idx[nd.parent]
    ich = nd.parent.children.index(nd)
    if kind == "B0":
        # bond matrix C[c, p]: c contracts with the parent leg of the child, p is the child leg of the parent
        if Ts[i].shape[-1] != loc.shape[0] or Ts[p].shape[ich] != loc.shape[1]:
            raise ValueError("bond matrix does not fit the bond")
        Ts[i] = np.tensordot(Ts[i], loc, axes=([-1], [0]))
        return Ts
    own = tuple(Ts[i].shape[:-1])
    F = int(np.prod(own)) if own else 1
    ident = np.empty(own + (F,), dtype=object if sym else complex)
    ident.fill(Poly() if sym else 0.0)
    for flat, multi in enumerate(np.ndindex(*own) if own else [()]):
        ident[multi + (flat,)] = Poly.const(1) if sym else 1.0
    rest = tuple(loc.shape[len(own):])
    Ts[i] = ident
    Ts[p] = np.moveaxis(loc.reshape((F,) + rest), 0, ich)
    return Ts


def frame(template, snap, kind, i, shp, order, sym):
    n = int(np.prod(shp))
    cols = []
    from vk.symx.harness import budget_check
    for j in range(n):
        budget_check()
        e = unit_vec(n, j, sym).reshape(shp)
        cols.append(dense_of(template, place(template, snap["tensors"], kind, i, e, sym), snap["coeff"], order))
    return np.array(cols, dtype=object if sym else complex).T


def execute(x, Hobj, coeff, tau, two_site, rec):
    import renormalizer.tn.time_evolution as te
    saved = te.expm_krylov
    te.expm_krylov = rec.expm_krylov
    try:
        return (te.evolve_tdvp_ps2 if two_site else te.evolve_tdvp_ps)(x, Hobj, coeff, tau)
    finally:
        te.expm_krylov = saved


def clauses(rec, sched, template, Hd, va, result, coeff, tau, order, sym):
    cj = conj_arr if sym else np.conj
    mul = (lambda m, c: m * Poly.const(c)) if sym else (lambda m, c: m * c)
    yield ("schedule_is_the_two_sweep_composition", "", len(rec.calls), len(sched), f"{len(rec.calls)} local problems posed, the integrator has {len(sched)}")
    prev_after, complete = va, True
    for k, (c, (kind, i)) in enumerate(zip(rec.calls, sched)):
        ctag = f":call{k}:{kind}@node{i}"
        shp, J = None, None
        try:
            shp = local_shape_of(template, c["snap"], kind, i)
            if int(np.prod(shp)) == len(c["v"]):
                J = frame(template, c["snap"], kind, i, shp, order, sym)
        except (ValueError, IndexError):
            J = None
        if J is None:
            yield ("start_vector", ctag, 0, 1, f"local problem {k} ({len(c['v'])} unknowns) does not fit the integrator's problem {kind} at node {i} (shape {shp}) in the state held at that moment")
            complete = False
            break
        ref = cj(J).T.dot(Hd.dot(J))
        if not sym:
            yield ("frames_are_orthonormal", ctag, cj(J).T.dot(J), np.eye(J.shape[1]) * abs(c["snap"]["coeff"]) ** 2, None)
        want_t = complex(coeff) * tau / 2 * (1 if kind.startswith("F") else -1)
        yield ("generator_times_time_is_the_projected_hamiltonian_step", ctag, mul(c["A"], c["t"]), mul(ref, want_t), None)
        yield ("posed_in_the_state_the_previous_problem_produced", ctag, J.dot(c["v"]), prev_after, None)
        prev_after = J.dot(c["y"])
    if complete and len(rec.calls) == len(sched):
        yield ("result_is_the_state_of_the_last_local_problem", "", T.dense_ttns(result, order), prev_after, None)


def native_replay(a0c, H, Hn, coeff, tau, two_site, order):
    def go():
        import renormalizer.tn.time_evolution as te
        from renormalizer.utils import CompressConfig, CompressCriteria
        x = a0c.copy()
        x.compress_config = CompressConfig(CompressCriteria.fixed, max_bonddim=10 ** 4)
        x.canonicalise()          # the schemes expect (and assert) a state that is canonical at the root
        rec = TreeRecorder(None, x, real_kernel=te.expm_krylov)
        va = T.dense_ttns(x, order)
        try:
            r = execute(x, H, coeff, tau, two_site, rec)
        except Exception as e:
            return True, {"raised": repr(e)}
        failed = []
        scale = max(1.0, float(np.abs(Hn).max()))
        for cl, ctag, lhs, rhs, msg in clauses(rec, schedule(a0c, two_site), a0c, Hn, va, r, coeff, tau, order, False):
            if msg is not None:
                if lhs != rhs:
                    failed.append({"clause": cl + ctag, "what": msg})
                continue
            err = float(np.abs(np.asarray(lhs) - np.asarray(rhs)).max())
            if err > 1e-8 * scale:
                failed.append({"clause": cl + ctag, "max_abs_difference": err})
        return bool(failed), {"how": "props.C12_tdvp_sym.native_replay: same tree / state with random phases, real QR and the REAL expm_krylov (recorded, not replaced); every local "
                                     "problem compared with J^H H J from the dense TTNO", "failed_clauses": failed[:6]}
    return go


def worker(case, led):
    """one tree (seed, shape) x one scheme: real and imaginary time, under a cooperative wall-clock budget (polynomial arithmetic on large local spaces is slow)"""
    from vk.symx.harness import run_with_budget
    run_with_budget(case[5], _worker, case, led, list(case[:4]))


def _worker(case, led):
    from renormalizer.utils import CompressConfig, CompressCriteria
    seed, n_nodes, flavour, two_site, max_dim, _budget = case
    su = TU.setup(seed, n_nodes, flavour, max_dim=max_dim)
    bt, order, H, Hn, sectors, rng = su["bt"], su["order"], su["H"], su["Hd"], su["sectors"], su["rng"]
    q = sectors[len(sectors) // 2]
    a0 = TU.random_ttns(bt, q, 2, rng)
    a0c = a0.to_complex()
    for node in a0c.node_list:
        t = np.asarray(node.tensor)
        node.tensor = t * np.exp(2j * np.pi * rng.random(t.shape))
    case0 = dict(TU.describe_tree(bt), flavour=flavour, seed=seed, shape=repr(su["shape"]), sector=q)
    ncalls = 0
    for coeff, tau, label in ((-1j, 0.25, "real time"), (-1.0, 0.125, "imaginary time")):
        method = "evolve_tdvp_ps2" if two_site else "evolve_tdvp_ps"
        tag = f"{method}:{flavour}:{su['shape']!r}:{label}"
        cs = dict(case0, method=method, time=label)
        vf = VarFactory()
        a = SH.symbolic_ttns(a0, vf)
        Hs = SH.const_ttno(H)
        replay = native_replay(a0c, H, Hn, coeff, tau, two_site, order)
        with SH.kernel_stub_mode_tree():
            Hd = T.dense_ttno(Hs, order)
            va = T.dense_ttns(a, order)
            x = a.copy()
            x.compress_config = CompressConfig(CompressCriteria.fixed, max_bonddim=10 ** 4)      # per case: set_bonddim sizes the limit table for this tree
            vf2 = VarFactory()
            vf2.n = 50000
            rec = TreeRecorder(vf2, x)
            try:
                r = execute(x, Hs, coeff, tau, two_site, rec)
            except Exception as e:
                decide_true(led, f"post:{method}:total[{tag}]", method, False, f"raised on symbolic tensors: {type(e).__name__}: {e}", cs, numeric_replay=replay)
                continue
            ncalls += len(rec.calls)
            for cl, ctag, lhs, rhs, msg in clauses(rec, schedule(a, two_site), a, Hd, va, r, coeff, tau, order, True):
                pre = "post:" + method if cl.startswith("result_") else "pre:local_propagator"
                oid = f"{pre}:{cl}[{tag}{ctag}]"
                if msg is not None:
                    decide_true(led, oid, method, lhs == rhs, msg, cs, fields={"method": method}, numeric_replay=replay)
                else:
                    decide(led, oid, method, lhs, rhs, cs, fields={"method": method}, numeric_replay=replay)
            bad = T.qnv_tree_violations(r)
            decide_true(led, f"post:{method}:qn_valid[{tag}]", method, not bad, f"labels of the result invalid: {bad[:2]}", cs)
        native_pass(led, f"rtc:{method}:local_problems_with_the_real_kernels_incl_orthonormal_frames", method, replay, (tag,), cs)
    led.extra["ncalls"] = ncalls


def prove(run):
    from vk.symx.harness import pool_cases
    nmax = 4 if run.tier == "quick" else 5
    cases = []
    for n_nodes in range(2, nmax + 1):
        for flavour in ("spinqn", "holstein"):
            seen = set()
            shapes = T.tree_shapes(n_nodes)
            seed = run.seed * 1000 + 900
            tries = 0
            # the dense space of the two-site problems grows quickly: trees are drawn until every shape is seen, under a dense-dimension limit
            max_dim = 40 if run.tier == "quick" else 100
            while len(seen) < len(shapes) and tries < 40 * len(shapes):
                tries += 1
                seed += 1
                su = TU.setup(seed, n_nodes, flavour, max_dim=max_dim)
                if su is None or su["shape"] in seen:
                    continue
                q = su["sectors"][len(su["sectors"]) // 2]
                if TU.random_ttns(su["bt"], q, 2, su["rng"]) is None:
                    continue
                seen.add(su["shape"])
                for two_site in (False, True):
                    if run.tier == "quick" and n_nodes >= 4 and (two_site or flavour != "spinqn"):
                        continue      # quick: four-node trees only for the one-site scheme on two-level sites (small local spaces)
                    cases.append((seed, n_nodes, flavour, two_site, max_dim, 20 if run.tier == "quick" else 180))
    leds = pool_cases(run, worker, cases)
    ncalls = sum(l.extra.get("ncalls", 0) for l in leds)
    skipped = [c for l in leds for c in l.extra.get("skipped", [])]
    run.extra.setdefault("symx", {})["C12_tdvp"] = {"scheme_cases": 2 * len(cases), "local_problems": ncalls, "kernel_stubs": SH.KERNEL_STUBS, "shims": SH.TREE_SHIMS,
                                                    "cases_skipped_for_time": skipped,
                                                    "local_propagator_stub": "expm_krylov inside renormalizer.tn.time_evolution returns fresh indeterminates on the structural support "
                                                                             "of span{v, Av, A^2 v, A^3 v} and records (A as a matrix, time, v, node tensors of the working state)"}
    if not cases:
        run.crash("C12_tdvp_sym: no case generated")
