"""Engine S part of C15: the operator algebra with *indeterminate factors*.

The leaf operators of the three universes of props/C15.py get independent complex indeterminates as factors; the real Op / OpSum arithmetic
(+, -, *, unary -, scalar multiples on either side, Op.product, OpSum products, sums, squeeze_identity, split_elementary) is executed on them and the exact
denotation (vk.specs.opalg integer words x polynomial factors) of every result is compared with the same expression of the operand denotations.
Equality of polynomials = the homomorphism law for ALL factor values at each enumerated expression shape.  simplify() thresholds on |factor| and is outside
this mode (bounded part).  Shim: Op.__mul__/__rmul__ accept an exact polynomial as scalar (the type check lists int/float/complex only)."""
import itertools

import numpy as np

from vk.specs import opalg as A
from vk.symx.harness import decide, decide_true, native_pair
from vk.symx.poly import Poly, VarFactory
from props.C01_sym import op_shim


def den(uni, x):
    """exact matrix with polynomial entries"""
    terms = [x] if hasattr(x, "symbol") else list(x)
    out = np.empty((uni.D, uni.D), dtype=object)
    out.fill(Poly())
    for t in terms:
        w, _ = uni.word(t.symbol, t.dofs)
        f = Poly.coerce(t.factor)
        out = out + np.vectorize(lambda v: f * int(v), otypes=[object])(w)
    return out


def mm(a, b):
    return a.dot(b)


def sm(a, k):
    return np.vectorize(lambda v: Poly.coerce(v) * k, otypes=[object])(a)


def prove(run):
    from props.C15 import universe, UNIVERSES, leaves
    from renormalizer.model import Op, OpSum
    ncase = 0
    for uname in UNIVERSES:
        uni = universe(uname)
        base = [v.val for v in leaves(uni)]
        vf = VarFactory()
        with op_shim():
            L = [Op(o.symbol, o.dofs, vf.fresh(), o.qn_list) for o in base]
            Lnum = [Op(o.symbol, o.dofs, complex(0.3 + 0.1 * i, 0.2 - 0.15 * i), o.qn_list) for i, o in enumerate(base)]
            k = vf.fresh()

            def exprs(Ls, kk):
                """(tag, function name, value, reference denotation builder)"""
                n = len(Ls)
                D = lambda x: den(uni, x)           # noqa: E731
                for i in range(n):
                    a = Ls[i]
                    yield f"neg:{i}", "Op.__neg__", lambda a=a: -a, lambda a=a: -D(a)
                    yield f"rmul_scalar:{i}", "Op.__rmul__", lambda a=a: kk * a, lambda a=a: sm(D(a), kk)
                    yield f"mul_scalar:{i}", "Op.__mul__", lambda a=a: a * kk, lambda a=a: sm(D(a), kk)
                    yield f"squeeze_identity:{i}", "Op.squeeze_identity", lambda a=a: a.squeeze_identity(), lambda a=a: D(a)
                    for j in range(n):
                        b = Ls[j]
                        yield f"mul:{i},{j}", "Op.__mul__", lambda a=a, b=b: a * b, lambda a=a, b=b: mm(D(a), D(b))
                        yield f"add:{i},{j}", "Op.__add__", lambda a=a, b=b: a + b, lambda a=a, b=b: D(a) + D(b)
                        yield f"sub:{i},{j}", "Op.__sub__", lambda a=a, b=b: a - b, lambda a=a, b=b: D(a) - D(b)
                        yield f"product:{i},{j}", "Op.product", lambda a=a, b=b: Op.product([a, b]), lambda a=a, b=b: mm(D(a), D(b))
                        for m_ in range(n):
                            if (i + 2 * j + 3 * m_) % 4:      # a quarter of the triples
                                continue
                            c = Ls[m_]
                            yield f"opsum_mul_op:{i},{j},{m_}", "OpSum.__mul__", lambda a=a, b=b, c=c: (a + b) * c, lambda a=a, b=b, c=c: mm(D(a) + D(b), D(c))
                            yield f"op_mul_opsum:{i},{j},{m_}", "Op.__mul__", lambda a=a, b=b, c=c: a * (b + c), lambda a=a, b=b, c=c: mm(D(a), D(b) + D(c))
                            yield f"opsum_mul_opsum:{i},{j},{m_}", "OpSum.__mul__", lambda a=a, b=b, c=c: (a + b) * (c - a), lambda a=a, b=b, c=c: mm(D(a) + D(b), D(c) - D(a))
                            yield f"assoc:{i},{j},{m_}", "Op.__mul__", lambda a=a, b=b, c=c: (a * b) * c, lambda a=a, b=b, c=c: D(a * (b * c))
                            yield f"scalar_opsum:{i},{j},{m_}", "OpSum.__rmul__", lambda a=a, b=b, c=c: kk * (a + b - c), lambda a=a, b=b, c=c: sm(D(a) + D(b) - D(c), kk)
                            yield f"neg_opsum:{i},{j},{m_}", "OpSum.__neg__", lambda a=a, b=b, c=c: -(a - b + c), lambda a=a, b=b, c=c: -(D(a) - D(b) + D(c))
                            yield f"product3:{i},{j},{m_}", "Op.product", lambda a=a, b=b, c=c: Op.product([a, b, c]), lambda a=a, b=b, c=c: mm(mm(D(a), D(b)), D(c))
            sym = list(exprs(L, k))
            num = {t: (f, r) for t, _, f, r in exprs(Lnum, complex(0.7, -0.4))}
            for tag, fn, f, ref in sym:
                ncase += 1
                oid = f"post:{fn}:denotation_for_all_factors[{tag}]@{uname}"
                case = {"universe": uname, "expression": tag, "leaves": [[o.symbol, [repr(d) for d in o.dofs]] for o in base]}

                def native(tag=tag):
                    fn_, rf_ = num[tag]
                    import renormalizer.model.op as _o   # real arithmetic on float factors (the shim only adds a branch for polynomials)
                    return np.vectorize(complex, otypes=[complex])(den(uni, fn_())), np.vectorize(complex, otypes=[complex])(rf_())
                try:
                    val = f()
                except Exception as e:
                    decide_true(run, oid + ":total", fn, False, f"raised on indeterminate factors: {type(e).__name__}: {e}", case)
                    continue
                decide(run, oid, fn, den(uni, val), ref(), case, numeric_replay=native_pair(native, "props.C15_sym: the same expression on the leaves of props.C15.leaves with fixed complex factors"))
    run.extra.setdefault("symx", {})["C15"] = {"expressions": ncase, "shims": ["Op.__mul__/__rmul__ accept an exact polynomial as scalar factor"]}
    if ncase == 0:
        run.crash("C15_sym: no case generated")
