"""Deductive part of C14: crash safety of TdMpsJob.dump_dict over the ghost file system, from every admissible directory state (pyvc/z3).
Counter-models are replayed natively by injecting the fault into the real dump_dict."""
import io
import os
import shutil
import tempfile

import numpy as np

from contracts import tdmps as TD
from vk.pyvc.run import verify


class _Crash(BaseException):
    pass


def _write(path, state, gen):
    """state: 0 absent, 1 partial, >= 2 complete (generation state-2)"""
    if state == 0:
        return
    buf = io.BytesIO()
    np.savez(buf, step=np.array(state - 2 if state >= 2 else -1))
    raw = buf.getvalue()
    with open(path, "wb") as fh:
        fh.write(raw if state >= 2 else raw[: max(1, len(raw) // 3)])


def _loadable(path):
    try:
        with np.load(path) as z:
            return int(z["step"]) >= 0
    except Exception:
        return False


def replay(cex, locals_, ob):
    """rebuild the counter-model's directory, let the process die at the refuted crash point, inspect the directory with np.load"""
    import renormalizer.utils.tdmps as tdmps
    fs0 = cex.get("__fs__") or {}
    point = ob.oid.split(":")[-1]            # e.g. "before remove(bak_path)" / "during savez(tmp_path)"
    if not ob.oid.startswith("crash-inv:"):
        return False, "not a crash obligation"
    phase, rest = point.split(" ", 1)
    opname = rest.split("(")[0]
    target = rest[rest.index("(") + 1: rest.rindex(")")].split(",")[0].strip()
    d = tempfile.mkdtemp(prefix="c14_replay_")
    try:
        class Job(tdmps.TdMpsJob):
            def init_mps(self):
                return object()

            def process_mps(self, mps):
                pass

            def get_dump_dict(self):
                return {"step": np.array(10 ** 6)}
        job = Job(dump_dir=d, job_name="job")
        names = {"file_path": "job.npz", "bak_path": "job.npz.bak", "tmp_path": "job.npz.tmp.npz"}
        for key, val in fs0.items():
            nm = "job.npz" + key.split(".npz", 1)[1] if ".npz" in key else None
            if nm:
                _write(os.path.join(d, nm), int(val), None)
        tgt = os.path.join(d, names.get(target, target))
        real = {"remove": os.remove, "rename": os.rename, "replace": os.replace, "makedirs": os.makedirs, "savez": np.savez}

        class OsProxy:
            def __getattr__(self, n):
                return getattr(os, n)

            def _wrap(self, n):
                def f(*a, **k):
                    if n == opname and phase == "before" and (n == "makedirs" or os.path.abspath(a[0]) == os.path.abspath(tgt)):
                        raise _Crash()
                    return real[n](*a, **k)
                return f
            remove = property(lambda self: self._wrap("remove"))
            rename = property(lambda self: self._wrap("rename"))
            replace = property(lambda self: self._wrap("replace"))
            makedirs = property(lambda self: self._wrap("makedirs"))

        class NpProxy:
            def __getattr__(self, n):
                return getattr(np, n)

            def savez(self, path, **k):
                if opname == "savez" and os.path.abspath(path) == os.path.abspath(tgt):
                    if phase == "before":
                        raise _Crash()
                    buf = io.BytesIO()
                    np.savez(buf, **k)
                    with open(path, "wb") as fh:
                        fh.write(buf.getvalue()[:30])      # the process dies in the middle of the write
                    raise _Crash()
                return np.savez(path, **k)
        old_os, old_np = tdmps.os, tdmps.np
        tdmps.os, tdmps.np = OsProxy(), NpProxy()
        died = False
        try:
            job.dump_dict()
        except _Crash:
            died = True
        finally:
            tdmps.os, tdmps.np = old_os, old_np
        left = {n: _loadable(os.path.join(d, n)) for n in sorted(os.listdir(d))}
        ok = any(left.get(n) for n in ("job.npz", "job.npz.bak"))
        return (died and not ok), {"initial_directory_states": fs0, "crash_point": point, "process_died_there": died,
                                   "directory_after": left, "complete_result_file_remains": ok}
    finally:
        shutil.rmtree(d, ignore_errors=True)


def prove(run):
    verify(run, TD.REL, TD.dump_dict, contracts=TD.CALLEES, fingerprint={}, tag="restart-or-next-step", replay=replay,
           property_fields={"origin": "ghost-file-system"})
    verify(run, TD.REL, TD.first_dump, contracts=TD.CALLEES, fingerprint={}, tag="first-dump", replay=replay)
    run.trusted += ["POSIX semantics: os.remove / os.rename / os.replace are atomic; a crash during np.savez leaves an unreadable or truncated file",
                    "different path expressions (result file, '.bak', '.tmp.npz', mps dump path) denote different files",
                    "abstracted statement: the optional MPS dump writes to its own path only"]
