"""C20 Bipartite vertex cover is valid and minimum, so operator bonds are minimal."""
import itertools

import numpy as np

from contracts import bipartite as B
from vk.lean import lean_lemmas
from vk.pyvc.run import verify
from vk.rtc.native import holds
from vk.rtc.pool import pmap

LEVEL = "proof"
TECHNIQUE = ("deductive: pyvc VC generation over the real source of bipartite_vertex_cover/new_konig with loop invariants, "
             "z3/cvc5; bounded stand-in: exhaustive small graphs under the runtime contract")


# ---------------------------------------------------------------- runtime contract (Engine B)
def min_cover_size(bigraph, nV):
    nU = len(bigraph)
    edges = [(u, v) for u, vs in enumerate(bigraph) for v in vs]
    best = nU + nV
    for mask in range(1 << nU):
        need_v = {v for (u, v) in edges if not (mask >> u) & 1}
        best = min(best, bin(mask).count("1") + len(need_v))
    return best


def contract_cover(bigraph, algo, ret_exc=False):
    """returns None if the contract holds, else (obligation, what)"""
    from renormalizer.lib.bipartite_matching.bipartite_matching import bipartite_vertex_cover
    nU = len(bigraph)
    nV = max((max(a, default=-1) for a in bigraph), default=-1) + 1
    try:
        tu, tv = bipartite_vertex_cover([list(a) for a in bigraph], algo=algo)
    except Exception as e:  # the function is total on bipartite graphs
        return ("post:bipartite_vertex_cover:total", f"raised {type(e).__name__}: {e}")
    tu, tv = list(tu), list(tv)
    if len(tu) != nU or len(tv) != nV:
        return ("post:bipartite_vertex_cover:table_lengths", f"len(U table)={len(tu)} (nU={nU}), len(V table)={len(tv)} (nV={nV})")
    env = {"bigraph": bigraph, "nU": nU, "nV": nV, "result": (tu, tv)}
    if not holds(dict(B.ENSURES)["is_cover"], env):
        return ("post:bipartite_vertex_cover:is_cover", f"uncovered edge; tables {tu} {tv}")
    size = sum(map(bool, tu)) + sum(map(bool, tv))
    m = min_cover_size(bigraph, nV)
    if size != m:
        return ("post:bipartite_vertex_cover:minimum", f"cover size {size} != minimum {m}")
    return None


def graphs(nU, nV):
    for bits in itertools.product([0, 1], repeat=nU * nV):
        yield [[v for v in range(nV) if bits[u * nV + v]] for u in range(nU)]


def _job(args):
    g, algo = args
    r = contract_cover(g, algo)
    if r is None:
        r = stored_cover_survives_later_calls(g, algo)
    return (g, algo, r)


def stored_cover_survives_later_calls(g, algo):
    """the cover is a value: a caller may keep it while asking for the covers of other graphs (either algorithm) - it must not change behind its back"""
    from renormalizer.lib.bipartite_matching.bipartite_matching import bipartite_vertex_cover
    try:
        tu, tv = bipartite_vertex_cover([list(a) for a in g], algo=algo)
        before = ([bool(x) for x in tu], [bool(x) for x in tv])
        nV = len(before[1])
        others = [[[v for v in range(max(nV, 1))] for _ in range(max(len(g), 1))], [[] for _ in range(len(g) + 1)], [[0], [0, 1], [1]]]
        for h in others:
            for a2 in ("Hopcroft-Karp", "Hungarian"):
                bipartite_vertex_cover([list(a) for a in h], algo=a2)
        after = ([bool(x) for x in tu], [bool(x) for x in tv])
    except Exception as e:
        return ("post:bipartite_vertex_cover:total", f"raised {type(e).__name__}: {e} in a sequence of calls")
    if before != after:
        return ("post:bipartite_vertex_cover:stored_result_unchanged_by_later_calls", f"the cover tables kept from the call on {g} changed from {before} to {after} after covers of other graphs were computed")
    return None


# ---------------------------------------------------------------- consequence for operators: every bond of a graph-built MPO is a minimum cover of its cut
def _kuhn(adj, nV):
    match = [-1] * nV

    def aug(u, seen):
        for v in adj[u]:
            if not seen[v]:
                seen[v] = True
                if match[v] < 0 or aug(match[v], seen):
                    match[v] = u
                    return True
        return False
    return sum(aug(u, [False] * nV) for u in range(len(adj)))


def cut_cover(words, b):
    """minimum vertex cover (= maximum matching, Koenig) of the bipartite graph {distinct left parts} x {distinct right parts} of the term words at cut b;
    own augmenting-path matching, independent of the library"""
    L = sorted(set(w[:b] for w in words))
    R = sorted(set(w[b:] for w in words))
    adj = [set() for _ in L]
    for w in words:
        adj[L.index(w[:b])].add(R.index(w[b:]))
    return _kuhn([sorted(a) for a in adj], len(R))


def term_words(rng, structured):
    alpha = ["I", "sigma_x", "sigma_z", "sigma_+"]
    n = int(rng.integers(3, 6))
    words = set()
    if structured == 2:
        # twins: t >= 3 left partial terms (one operator on one of the first t sites each) share exactly the same d = 2 right partners, and a few unrelated terms
        # live on the right sites only, so the twins' side stays the smaller one: the minimum cover takes the d partners, not the t twins
        t = int(rng.integers(3, 5))
        n = t + 2
        lop = alpha[int(rng.integers(1, 4))]
        rops = [alpha[int(rng.integers(1, 4))] for _ in range(2)]
        for i in range(t):
            for j in range(2):
                w = ["I"] * n
                w[i] = lop
                w[t + j] = rops[j]
                words.add(tuple(w))
        extra = [("sigma_z", "I"), ("I", "sigma_z"), ("sigma_z", "sigma_z"), ("sigma_x", "sigma_z"), ("sigma_+", "I")]
        for a_, b_ in extra[: int(rng.integers(3, 6))]:
            if (a_, b_) != (rops[0], "I") and (a_, b_) != ("I", rops[1]):
                words.add(tuple(["I"] * t + [a_, b_]))
    elif structured:
        # several local operators of the first site share ONE right partner while another one has several: fewer rows than columns, yet the rows violate
        # Hall's condition (the minimum cover keeps a complementary operator for the sharing rows)
        k, m = 2, int(rng.integers(3, 5))
        rights = set()
        while len(rights) < m + 1:
            r = tuple(alpha[int(x)] for x in rng.integers(0, len(alpha), size=n - 1))
            if any(x != "I" for x in r):
                rights.add(r)
        rights = sorted(rights)
        heads = ["sigma_x", "sigma_z", "sigma_+"]
        for h in heads[:k]:
            words.add((h,) + rights[0])
        for r in rights[1:]:
            words.add((heads[k],) + r)
    else:
        nt = int(rng.integers(2, 9))
        while len(words) < nt:
            w = tuple(alpha[int(x)] for x in rng.integers(0, len(alpha), size=n))
            if any(x != "I" for x in w):
                words.add(w)
    return n, sorted(words)


def w_bonds(case, led):
    from renormalizer.model import Model, Op, basis as ba
    from renormalizer.mps import Mpo
    seed, chunk, per = case
    rng = np.random.default_rng([seed, chunk, 2020])
    for t in range(per):
        n, words = term_words(rng, structured=(1 if t % 4 == 0 else 2 if t % 4 == 2 else 0))
        terms = []
        # every fifth table on sites WITH a conserved number: the letters carry charges (sigma_+ / sigma_- change it), terms of different total charge share
        # complementary operators - a column still costs one bond index
        charged = (t % 5 == 4)
        if charged:
            words = sorted({tuple("sigma_-" if x == "sigma_x" else x for x in w) for w in words})
        chg = {"sigma_+": -1, "sigma_-": 1, "sigma_z": 0}
        for w in words:
            sym = " ".join(x for x in w if x != "I")
            dofs = [i for i, x in enumerate(w) if x != "I"]
            f_ = float(rng.uniform(0.5, 2.0)) * (1 if rng.random() < 0.5 else -1)
            terms.append(Op(sym, dofs, f_, qn=[chg[x] for x in w if x != "I"]) if charged else Op(sym, dofs, f_))
        # a product of two one-body sums with FACTORISING coefficients (a_i b_j): the coefficient matrix of the middle cut has rank one, the cover of the term
        # graph does not - the bond of a graph-built operator is the cover (a rank-revealing construction behind a graph algorithm's name would be smaller)
        if t % 6 == 5 and not charged:
            n = 4
            al, be = rng.uniform(0.5, 2.0, size=2), rng.uniform(0.5, 2.0, size=2)
            words, terms = [], []
            for i in range(2):
                for j in range(2):
                    w = ["I"] * n
                    w[i], w[2 + j] = "sigma_z", "sigma_z"
                    words.append(tuple(w))
                    terms.append(Op("sigma_z sigma_z", [i, 2 + j], float(al[i] * be[j])))
        # duplicates whose coefficients cancel only up to rounding (0.1 + 0.2 - 0.3): the word is not part of the operator and costs no bond index
        if t % 4 == 3 and len(words) >= 3:
            wcancel = words[int(rng.integers(len(words)))]
            sym_c = " ".join(x for x in wcancel if x != "I")
            dofs_c = [i for i, x in enumerate(wcancel) if x != "I"]
            terms = [tm for tm, w in zip(terms, words) if w != wcancel]
            for f_c in (0.1, 0.2, -0.3):
                terms.append(Op(sym_c, dofs_c, f_c, qn=[chg[x] for x in wcancel if x != "I"]) if charged else Op(sym_c, dofs_c, f_c))
            words = [w for w in words if w != wcancel]
        # a constant term E0 * 1 together with the `offset` argument: the table holds (E0 - offset) times the identity string - nothing when they cancel
        offset = None
        ref_words = set(words)
        ident = tuple(["I"] * n)
        if t % 3 == 1:
            e0 = float(rng.uniform(0.5, 2.0))
            terms.append(Op("I", 0, e0))
            offset = e0 if t % 2 else e0 / 2
            if offset != e0:
                ref_words.add(ident)
        words = sorted(ref_words)
        model = Model([ba.BasisHalfSpin(i, sigmaqn=[0, 1]) if charged else ba.BasisHalfSpin(i) for i in range(n)], terms)
        want = [1] + [cut_cover(words, b) for b in range(1, n)] + [1]
        hall_fails = any(cut_cover(words, b) < min(len(set(w[:b] for w in words)), len(set(w[b:] for w in words))) for b in range(1, n))
        for algo in ("Hopcroft-Karp", "Hungarian"):
            rep = {"nsites": n, "algo": algo, "terms": [repr(x) for x in terms], "minimum_cover_per_cut": want, "offset": offset, "letters_carry_charges": bool(charged),
                   "how": "Mpo(Model([BasisHalfSpin(i)...], terms), algo=algo).bond_dims vs the maximum matching of the (left part, right part) graph of the terms at every cut"}
            try:
                if offset is None:
                    got = [int(x) for x in Mpo(model, algo=algo).bond_dims]
                else:
                    from renormalizer.utils import Quantity
                    got = [int(x) for x in Mpo(model, offset=Quantity(offset), algo=algo).bond_dims]
            except Exception as e:
                led.check(False, "post:Mpo.__init__:total", "Mpo.__init__", f"raised {type(e).__name__}: {e}", (seed, chunk, t, algo), {"algo": algo}, rep)
                continue
            led.check(got == want, "post:Mpo.__init__:every_bond_is_a_minimum_cover_of_its_cut", "_decompose_graph",
                      f"bond_dims {got}, minimum covers {want}", (seed, chunk, t, algo), {"algo": algo}, dict(rep, bond_dims=got), nontrivial=hall_fails)


def w_swap_bonds(case, led):
    """after an exchange of neighbouring sites the operator is rebuilt on those two sites with the graph algorithm: no bond may exceed the number of distinct left /
    right partial terms of the operator in the new order (reference: own Jordan-Wigner strings in the new order; plain permutation when swap_jw is off)"""
    from renormalizer.model import Model, Op
    from renormalizer.model.basis import BasisHalfSpin
    from renormalizer.mps import Mpo
    n, i, jw, seed = case
    rng = np.random.default_rng([seed, n, i, int(jw), 2021])
    t = {(a, b): float(rng.uniform(0.5, 1.5)) for a in range(n) for b in range(a + 1, n)}
    mu = [float(rng.uniform(0.5, 1.5)) for _ in range(n)]

    def jw_terms(order):
        pos = {d: k for k, d in enumerate(order)}
        out = []
        for (a, b), v in t.items():
            x, y = sorted((a, b), key=lambda d: pos[d])
            between = [d for d in order if pos[x] < pos[d] < pos[y]]
            for sa, sb in (("+", "-"), ("-", "+")):
                ops = {x: sa, y: sb}
                ops.update({d: "Z" for d in between})
                out.append((v, ops))
        for d in range(n):
            out.append((mu[d], {d: "Z"}))
        return out
    order0 = list(range(n))
    order1 = list(order0)
    order1[i], order1[i + 1] = order1[i + 1], order1[i]
    terms0 = jw_terms(order0)
    ops0 = [Op(" ".join(o[d] for d in sorted(o)), sorted(o), f) for f, o in terms0]
    key = ("swap-bonds", n, i, jw, seed)
    rep = {"nsites": n, "swapped_sites": [i, i + 1], "swap_jw": jw, "symbols": "short (+, -, Z)", "seed": seed,
           "how": "Jordan-Wigner chain with all-pairs hopping and on-site Z written with the short symbols; Mpo(model, algo='Hopcroft-Karp'); try_swap_site(new model, swap_jw)"}
    try:
        mpo = Mpo(Model([BasisHalfSpin(d) for d in order0], ops0), algo="Hopcroft-Karp")
        mpo.try_swap_site(Model([BasisHalfSpin(d) for d in order1], []), swap_jw=jw)
    except Exception as e:
        led.ok("skipped:Mpo.try_swap_site:raised", "Mpo.try_swap_site", key + (type(e).__name__,), nontrivial=False)
        return
    dims = [int(m.shape[0]) for m in mpo] + [1]
    # the operator in the new order: fermionic re-ordering (own strings along the new order) resp. the same strings permuted
    new_terms = jw_terms(order1) if jw else terms0
    strings = [tuple(o.get(d, "I") for d in order1) for f, o in new_terms]
    bad = []
    for cut in range(1, n):
        bound = min(len({s_[:cut] for s_ in strings}), len({s_[cut:] for s_ in strings}))
        if dims[cut] > bound:
            bad.append((cut, dims[cut], bound))
    led.check(not bad, "post:Mpo.try_swap_site:bonds_within_the_distinct_partial_terms", "swap_site",
              f"after exchanging sites {i},{i + 1} (swap_jw={jw}): (cut, bond, distinct partial terms) = {bad}; bonds {dims}", key, {"swap_jw": bool(jw), "symbols": "short"}, rep)


def replay_factory():
    def replay(cex, locals_, ob):
        g = cex.get("bigraph")
        if not isinstance(g, list):
            return False, "no graph in counter-model"
        g = [[int(v) for v in row if isinstance(v, int) and v >= 0] for row in g]
        out = {}
        fired = False
        for algo in ("Hopcroft-Karp", "Hungarian"):
            r = contract_cover(g, algo)
            out[algo] = r
            fired = fired or (r is not None and not (r[0].endswith(":total") and not any(g)))
        # replay with the counter-model's own matching (stub satisfying the assumed MATCHING contract)
        mv = locals_.get("matchV")
        if isinstance(mv, list):
            import renormalizer.lib.bipartite_matching.bipartite_matching as M
            orig = M.max_bipartite_matching2
            try:
                M.max_bipartite_matching2 = lambda bg: list(mv)
                r = contract_cover(g, "Hungarian")
                out["Hungarian(with counter-model matching)"] = r
                fired = fired or r is not None
            except Exception as e:
                out["stub-replay-error"] = repr(e)
            finally:
                M.max_bipartite_matching2 = orig
        return fired, out
    return replay


def _is_matching(bigraph, match):
    used = [m for m in match if m is not None]
    return (len(set(used)) == len(used) and all(m is None or (0 <= m < len(bigraph) and v in bigraph[m]) for v, m in enumerate(match)))


def replay_mbm2(cex, locals_, ob):
    """native replay: the real max_bipartite_matching2 on the counter-model's graph must return a matching covering every V index"""
    from renormalizer.lib.bipartite_matching.bipartite_matching import max_bipartite_matching2
    g = cex.get("bigraph")
    if not isinstance(g, list):
        return False, "no graph in counter-model"
    g = [[int(v) for v in row if isinstance(v, int) and v >= 0] for row in g]
    try:
        m = max_bipartite_matching2([list(r) for r in g])
    except Exception as e:
        return True, f"raised {e!r} on {g}"
    nV = max((max(a, default=-1) for a in g), default=-1) + 1
    bad = (not _is_matching(g, m)) or len(m) < nV
    return bad, {"bigraph": g, "result": m}


def replay_augment(cex, locals_, ob):
    """native replay of the recursive augment on the counter-model's entry state: contract clauses evaluated on the real result"""
    from renormalizer.lib.bipartite_matching.bipartite_matching import augment
    g, u, visit, match = cex.get("bigraph"), cex.get("u"), cex.get("visit"), cex.get("match")
    if not (isinstance(g, list) and isinstance(u, int) and isinstance(visit, list) and isinstance(match, list)):
        return False, "counter-model lacks an entry state"
    env0 = {"u": u, "bigraph": g, "visit": visit, "match": match}
    if not all(holds(r, env0) for r in B.AUG_REQUIRES):
        return False, "entry state of the counter-model is not admissible (intermediate state of an inductive step)"
    v2, m2 = list(visit), list(match)
    try:
        res = augment(u, g, v2, m2)
    except Exception as e:
        return True, f"raised {e!r}"
    env = {"u": u, "bigraph": g, "visit": v2, "match": m2, "old_visit": visit, "old_match": match, "result": res}
    failed = [cid for cid, en in B.AUG_ENSURES if not holds(en, env)]
    return bool(failed), {"entry": env0, "exit": {"visit": v2, "match": m2, "result": res}, "failed_clauses": failed}


def check(run):
    run.trusted += [
        "assumed contract MATCHING on scipy.sparse.csgraph.maximum_bipartite_matching only (result is a matching of the graph); for "
        "algo='Hungarian' MATCHING is proved: augment / max_bipartite_matching2 are under contract (recursion by the function's own contract). "
        "Maximality is assumed only for the two assert obligations, via ghost predicate reach",
        "Lean 4 kernel + Mathlib (lemmas/Konig.lean: selection_le_matching, matching_le_cover, cover_le_of_cover - the counting lemma and weak "
        "duality are machine-checked, no longer cited); the correspondence between the Lean hypotheses and the contract clauses is by name",
    ]
    run.assumptions += ["termination of new_konig is not proved (partial correctness)",
                        "list-comprehension bodies carry no index-bounds obligations"]
    run.explanation = ("Every obligation generated from the current source of bipartite_vertex_cover (abstracting the matching "
                       "producers by the assumed contract MATCHING) is discharged for all graphs; the bounded part runs the same "
                       "post-conditions plus brute-force minimality on exhaustive small graphs for both algorithms.")
    rp = replay_factory()
    verify(run, B.REL, B.partial, fingerprint=B.FINGERPRINT, tag="partial", replay=rp)
    verify(run, B.REL, B.total, fingerprint=B.FINGERPRINT, tag="asserts", replay=rp)
    # the Hungarian matching producer is under contract itself: augment (recursive, own contract at the recursive call),
    # max_bipartite_matching2 (call by contract), and bipartite_vertex_cover restricted to algo='Hungarian' with nothing abstracted
    verify(run, B.REL, B.augment, contracts={"augment": B.augment_callee}, fingerprint=B.AUG_FINGERPRINT, replay=replay_augment)
    verify(run, B.REL, B.mbm2, contracts={"augment": B.augment_callee}, fingerprint=B.MBM2_FINGERPRINT, replay=replay_mbm2)
    verify(run, B.REL, B.hungarian, contracts={"max_bipartite_matching2": B.MBM2_CALLEE}, fingerprint=B.FINGERPRINT, tag="hungarian", replay=rp)
    # the step from the proved post-conditions to "minimum": counting lemma + weak duality, checked by Lean on every run
    lean_lemmas(run, "lemmas/Konig.lean", ["selection_le_matching", "matching_le_cover", "cover_le_of_cover"], "bipartite_vertex_cover[minimality]",
                links={"hsel_u": "selected_u_matched", "hsel_v": "selected_v_matched", "hone": "one_endpoint_per_matching_edge"},
                clause_ids=[c for c, _ in B.ENSURES])
    run.vacuity_min_obligs = 60

    # ---- Engine B: exhaustive graphs
    n = 3 if run.tier == "quick" else 4
    jobs = []
    jobs += [([], a) for a in ("Hopcroft-Karp", "Hungarian")]        # the graph without any vertex: the empty cover
    for nU in range(1, n + 1):
        for nV in range(0, n + 1):
            if nV == 0:
                jobs += [([[] for _ in range(nU)], a) for a in ("Hopcroft-Karp", "Hungarian")]
                continue
            for g in graphs(nU, nV):
                for a in ("Hopcroft-Karp", "Hungarian"):
                    jobs.append((g, a))
                    # neighbour lists are sets: the same graph with every list written in descending order
                    if nV >= 2 and any(len(x) >= 2 for x in g):
                        jobs.append(([list(reversed(x)) for x in g], a))
    # vertex labels beyond the 16-bit range (a few U vertices, V labels up to 70 000: still decided by brute force over the subsets of U)
    for g in ([[69999], [3, 65536], [65536, 2], [], [7, 69999, 65540], [65541]], [[65535, 65536], [65536], [0, 65535]], [[70000], [70000], [4]]):
        for a in ("Hopcroft-Karp", "Hungarian"):
            jobs.append((g, a))
    res = pmap(_job, jobs)
    for g, algo, r in res:
        nontrivial = any(g) and (any(len(a) == 0 for a in g) or min_cover_size(g, max((max(a, default=-1) for a in g), default=-1) + 1) < min(len(g), 1 + max(max(a, default=-1) for a in g)))
        run.bounded_eval("rtc:bipartite_vertex_cover", "bipartite_vertex_cover", key=(repr(g), algo), nontrivial=nontrivial)
        if r is not None:
            oid, what = r
            edgeless = not any(g)
            trailing_isolated = len(g) > 0 and len(g[-1]) == 0
            run.violation(oid, "bipartite_vertex_cover", f"{what} for bigraph={g} algo={algo}",
                          fields={"algo": algo, "edgeless": edgeless, "trailing_isolated_u": trailing_isolated},
                          replay={"bigraph": g, "algo": algo, "call": "bipartite_vertex_cover(bigraph, algo)"})
    # ---- consequence for operators (the property's second half): bonds of graph-built MPOs are minimum covers of their cuts
    from vk.rtc.harness import run_cases
    per = 12 if run.tier == "quick" else 60
    run_cases(run, w_bonds, [(run.seed, c, per) for c in range(16)])
    run_cases(run, w_swap_bonds, [(n_, i_, jw_, run.seed) for n_ in (4, 5) for i_ in range(n_ - 1) for jw_ in (False, True)])
    run.sample({"bigraph": [[0, 1], [1], []], "algo": "Hungarian", "contract": "cover & |cover| = brute-force minimum & table lengths"})
    run.sample({"obligation": "inv-step:bipartite_vertex_cover:while#0:I3-visited-v-matched-partner-seen[partial]", "engine": "pyvc/z3"})
    run.rule = (f"all bipartite graphs with 1..{n} U vertices and 0..{n} V vertices (adjacency lists) x both algorithms; "
                "non-trivial = has an edge and (has an isolated U vertex or minimum cover < min(|U|,|V|)); plus seeded term tables (3-5 spin sites, random and "
                "Hall-violating structures) x both algorithms: Mpo.bond_dims == maximum matching of the (left part, right part) graph at every cut, non-trivial = some cut "
                "whose minimum cover is smaller than both sides")
    run.exhaustive = True
