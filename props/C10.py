"""C10 Imaginary-time and thermal propagation yield the Gibbs state."""
from vk.symx.harness import guarded
import numpy as np
import scipy.linalg

from vk.rtc.harness import run_cases
from vk.specs import chain as S
from vk.specs import universe as U
from vk.specs import dyn as Dn
from props.C09 import METHODS, bound_for, prepare, evolve, solver_bound

LEVEL = "other"
TECHNIQUE = ("Engine S (kernel-stub mode): for imaginary time steps one step of every propagation-and-compression scheme equals the stage polynomial in (-tau H) applied to the "
             "state / density operator, for all tensor values; runtime contracts against dense matrix exponentials / Gibbs averages: imaginary-time branch of every scheme (theorem-derived bounds as C09), "
             "closed-form local propagator incl. shift and phase bookkeeping, purified maximally entangled states, thermal propagation (bounded stand-in)")


def holstein(nmol, scheme, pdim=3, seed=0):
    from renormalizer.model import Phonon, Mol, HolsteinModel
    from renormalizer.utils import Quantity
    variant = "distinct"
    if isinstance(nmol, tuple):      # (number of molecules, variant): modes that share frequency and basis size but differ in displacement
        nmol, variant = nmol
    rng = np.random.default_rng([seed, nmol, scheme, 1010, len(variant)])
    mols = []
    w_shared = float(rng.uniform(0.8, 1.4))
    for i in range(nmol):
        w = float(rng.uniform(0.8, 1.4)) if variant == "distinct" else w_shared
        phs = [Phonon.simple_phonon(Quantity(w), Quantity(float(rng.uniform(0.5, 1.2)) * (1 if i % 2 == 0 else -0.6)), pdim)]
        if variant == "twomodes":
            phs.append(Phonon.simple_phonon(Quantity(w), Quantity(float(rng.uniform(0.3, 1.5))), pdim))
        if variant == "shifted":
            # different curvature on the excited surface (omega_1 != omega_0)
            phs = [Phonon([Quantity(w), Quantity(w * float(rng.uniform(0.6, 1.5)))], [Quantity(0), Quantity(float(rng.uniform(0.5, 1.2)))], pdim)]
        mols.append(Mol(Quantity(float(rng.uniform(0.0, 0.5))), phs))
    j = np.zeros((nmol, nmol))
    for i in range(nmol - 1):
        j[i, i + 1] = j[i + 1, i] = -float(rng.uniform(0.2, 0.6))
    return HolsteinModel(mols, j, scheme=scheme)


def local_h(model, space):
    """dense H_loc of the exact propagator: sum_in omega b^dagger b (GS) / plus term10 (b^dagger+b) (EX); identity on electronic sites"""
    from renormalizer.utils.elementop import construct_ph_op_dict
    dims = [b.nbas for b in model.basis]
    D = int(np.prod(dims))
    H = np.zeros((D, D))
    phs = [ph for mol in model for ph in mol.ph_list]
    k = 0
    for isite, b in enumerate(model.basis):
        if not b.is_phonon:
            continue
        ph = phs[k]
        k += 1
        op = construct_ph_op_dict(ph.pbond)
        h = op[r"b^\dagger b"] * ph.omega[0]
        if space == "EX":
            # coefficient of (b^+ + b) on the excited surface, written out: -omega_1^2 d x with x = (b^+ + b) / sqrt(2 omega_0)  (not read from the package)
            h = h + op[r"b^\dagger + b"] * (-(ph.omega[1] ** 2) * ph.dis[1] / np.sqrt(2.0 * ph.omega[0]))
        mats = [np.eye(d) for d in dims]
        mats[isite] = h
        m = np.ones((1, 1))
        for a in mats:
            m = np.kron(m, a)
        H += m
    return H


def worker(case, led):
    kind = case[0]
    if kind == "imag":
        _, name, n, method, seed, tier = case
        rng = np.random.default_rng([seed, n, 1001, sum(map(ord, name))])
        prep = prepare(name, n, rng, complex_=False)
        if prep is None:
            return
        model, terms, H, Hd, q, a = prep
        hn = np.linalg.norm(Hd, 2)
        v0 = S.dense(a)
        for x in (0.1, 0.5):
            tau = x / hn
            ref = scipy.linalg.expm(-tau * Hd) @ v0
            ref = ref / np.linalg.norm(ref)
            for solver in ("krylov", "RK45"):
                if method.startswith("prop") and solver == "RK45":
                    continue
                key = (name, n, method, solver, x)
                rep = {"model": name, "nsites": n, "method": method, "ivp_solver": solver, "|H|tau": x, "seed": seed}
                fields = {"method": method, "ivp_solver": solver}
                try:
                    r, m = evolve(a, H, -1j * tau, method, ivp_solver=solver, guess_dt=-1j * tau)
                except Exception as e:
                    led.check(False, f"post:Mps.evolve[{method}]:imaginary_time_total", f"Mps._evolve_{method}", f"raised {type(e).__name__}: {e}", key, fields, rep)
                    continue
                v = S.dense(r)
                err = np.linalg.norm(v - ref)
                bnd = 3 * bound_for(method, x, m, n, 1.0) * np.exp(x)
                led.check(err <= bnd, f"post:Mps.evolve[{method}]:imaginary_time_normalised_exp", f"Mps._evolve_{method}",
                          f"|psi - e^(-tau H)psi0/|.|| = {err:.3e} > {bnd:.3e} at |H|tau={x}", key, fields, rep)
                led.check(abs(np.linalg.norm(v) - 1) <= 1e-9, f"post:Mps.evolve[{method}]:imaginary_time_result_normalised", f"Mps._evolve_{method}",
                          f"norm {np.linalg.norm(v)}", key + ("norm",), fields, rep)
                led.check(np.abs(S.dense(a) - v0).max() <= 1e-12, f"frame:Mps.evolve[{method}]:input_imaginary_time", f"Mps._evolve_{method}", "input changed",
                          key + ("frame",), fields, rep)
                # an input that carries a prefactor which is not a positive real (a phase i, a sign): the result is e^(-tau H) (c psi) / |.|, phase included
                if solver == "krylov" and x == 0.1:
                    for c_ in (1j, -1.0, 0.6 - 0.8j):
                        ac = a.copy()
                        ac.coeff = c_
                        try:
                            rc, _m = evolve(ac, H, -1j * tau, method, ivp_solver=solver, guess_dt=-1j * tau)
                            errc = np.linalg.norm(S.dense(rc) - c_ * ref)
                            led.check(errc <= bnd, f"post:Mps.evolve[{method}]:imaginary_time_keeps_the_phase_of_the_prefactor", f"Mps._evolve_{method}",
                                      f"input prefactor {c_}: |psi - c e^(-tau H)psi0/|.|| = {errc:.3e} > {bnd:.3e}", key + ("phase", str(c_)), fields, dict(rep, prefactor=str(c_)))
                        except Exception as e:
                            led.check(False, f"post:Mps.evolve[{method}]:imaginary_time_total", f"Mps._evolve_{method}", f"prefactor {c_}: raised {type(e).__name__}: {e}", key + ("phase", str(c_)), fields, rep)
    elif kind == "cmf_order":
        # the constant-mean-field scheme with the mid-point environment (the default) is second order in imaginary time as well: halving tau divides the one-step
        # error by ~8 (first order: ~4).  The mid-point environment has to be the state evolved by HALF THE IMAGINARY step.
        _, name, n, solver, seed, tier = case
        rng = np.random.default_rng([seed, n, 1003, sum(map(ord, name))])
        prep = prepare(name, n, rng, complex_=False)
        if prep is None:
            return
        model, terms, H, Hd, q, a = prep
        hn = np.linalg.norm(Hd, 2)
        v0 = S.dense(a)
        errs = []
        for x in (0.2, 0.1):
            tau = x / hn
            ref = scipy.linalg.expm(-tau * Hd) @ v0
            ref = ref / np.linalg.norm(ref)
            try:
                r, m = evolve(a, H, -1j * tau, "tdvp_mu_cmf", ivp_solver=solver, guess_dt=-1j * tau)
            except Exception as e:
                led.check(False, "post:Mps.evolve[tdvp_mu_cmf]:imaginary_time_total", "Mps._evolve_tdvp_mu_cmf", f"raised {type(e).__name__}: {e}", (name, n, solver, x), {}, {})
                return
            errs.append(float(np.linalg.norm(S.dense(r) - ref)))
        ratio = errs[0] / max(errs[1], 1e-300)
        led.check(ratio >= 5.5 or errs[0] <= 1e-9, "post:Mps.evolve[tdvp_mu_cmf]:imaginary_time_midpoint_scheme_is_second_order", "Mps._evolve_tdvp_mu_cmf",
                  f"one-step errors {errs[0]:.3e} (|H|tau=0.2) and {errs[1]:.3e} (0.1): ratio {ratio:.2f}, a second-order scheme gives ~8, a first-order one ~4",
                  (name, n, solver, "cmf-order"), {"ivp_solver": solver}, {"model": name, "nsites": n, "ivp_solver": solver, "seed": seed, "errors": errs})
    elif kind == "exactprop":
        _, nmol, scheme, seed, tier = case
        from renormalizer.mps import Mpo, Mps, MpDm
        from renormalizer.utils import Quantity
        model = holstein(nmol, scheme, seed=seed)
        for space in ("GS", "EX"):
            Hl = local_h(model, space)
            for x in (-0.7, 0.3, -0.4j, 0.25 + 0.1j):
                for shift in (0.0, 0.37):
                    key = (nmol, scheme, space, str(x), shift)
                    rep = {"nmol": nmol, "scheme": scheme, "space": space, "x": str(x), "shift": shift, "seed": seed}
                    try:
                        P = Mpo.exact_propagator(model, x, space=space, shift=shift)
                    except Exception as e:
                        led.check(False, "post:Mpo.exact_propagator:total", "Mpo.exact_propagator", f"raised {type(e).__name__}: {e}", key, {}, rep)
                        continue
                    ref = scipy.linalg.expm(x * (Hl + shift * np.eye(len(Hl))))
                    err = np.abs(S.dense(P) - ref).max()
                    led.check(err <= 1e-10 * max(1, np.abs(ref).max()), "post:Mpo.exact_propagator:dense_matrix_exponential", "Mpo.exact_propagator",
                              f"max deviation from expm(x (H_loc + shift)) = {err:.2e}", key, {"space": space}, rep)
                    led.check(all(b == 1 for b in P.bond_dims) and not S.qnv_violations(P), "post:Mpo.exact_propagator:bond_dimension_one_and_labels", "Mpo.exact_propagator",
                              f"bond dims {P.bond_dims}", key + ("bd",), {"space": space}, rep)
            # evolve_exact on states and density operators, zero and non-zero offsets
            for offset in (0.0, 0.41):
                hm = Mpo(model, offset=Quantity(offset))
                rng = np.random.default_rng([seed, nmol if isinstance(nmol, int) else nmol[0] + 10 * len(nmol[1]), scheme, 77])
                psi = U.make_state(model, 1, 3, rng)
                if psi is None:
                    continue
                psi.coeff = 0.8
                v0 = S.dense(psi)
                t = 0.6
                key = (nmol, scheme, space, "evolve_exact", offset)
                rep = {"nmol": nmol, "scheme": scheme, "space": space, "offset": offset, "t": t, "seed": seed}
                fields = {"offset_nonzero": offset != 0}
                new = psi.evolve_exact(hm, t, space)
                ref = scipy.linalg.expm(-1j * t * Hl) @ v0
                err = np.abs(S.dense(new) - ref).max()
                led.check(err <= 1e-10, "post:Mps.evolve_exact:local_propagator_with_phase", "Mps.evolve_exact",
                          f"dense(new)*coeff deviates from expm(-i H_loc t) dense(old)*coeff by {err:.2e} (offset {offset})", key, fields, rep)
                led.check(np.abs(S.dense(psi) - v0).max() <= 1e-14 and psi.coeff == 0.8, "frame:Mps.evolve_exact:input", "Mps.evolve_exact",
                          f"input changed: coeff {psi.coeff}", key + ("frame",), fields, rep)
                A = MpDm.from_mps(psi)
                A0 = S.dense(A)
                newA = A.evolve_exact(hm, t, space)
                refA = A0 @ scipy.linalg.expm(-1j * t * Hl)
                err = np.abs(S.dense(newA) - refA).max()
                led.check(err <= 1e-10, "post:MpDm.evolve_exact:right_multiplication_with_phase", "MpDm.evolve_exact",
                          f"deviates by {err:.2e} (offset {offset})", key + ("mpdm",), fields, rep)
                led.check(np.abs(S.dense(A) - A0).max() <= 1e-14, "frame:MpDm.evolve_exact:input", "MpDm.evolve_exact", "input changed", key + ("mpdm-frame",), fields, rep)
    elif kind == "thermal":
        _, nmol, scheme, method, beta, seed, tier = case
        from renormalizer.mps import Mpo, MpDm, ThermalProp
        from renormalizer.utils import EvolveConfig, EvolveMethod, CompressConfig, CompressCriteria
        model = holstein(nmol, scheme, seed=seed)
        Hd = U.dense_terms(model, model.ham_terms).real
        hn = np.linalg.norm(Hd, 2)
        # an explicit Hamiltonian model that differs from the model the identity state was built with (documented argument h_mpo_model): the result is the Gibbs
        # state of THAT Hamiltonian
        if method == "prop_and_compress":
            model2 = holstein(nmol, scheme, seed=seed + 101)
            Hd2 = U.dense_terms(model2, model2.ham_terms).real
            A0 = MpDm.max_entangled_ex(model)
            A0.compress_config = CompressConfig(CompressCriteria.fixed, max_bonddim=64)
            nsteps2 = 4
            db2 = beta / 2 / nsteps2
            key2 = (nmol, scheme, method, beta, "h_mpo_model")
            rep2 = {"nmol": nmol, "scheme": scheme, "method": method, "beta": beta, "seed": seed, "h_mpo_model": "props.C10.holstein(nmol, scheme, seed=seed+101)"}
            try:
                tp2 = ThermalProp(A0, h_mpo_model=model2, evolve_config=EvolveConfig(getattr(EvolveMethod, method), guess_dt=-1j * db2))
                tp2.evolve(evolve_dt=-1j * db2, nsteps=nsteps2)
                mask1 = S.sector_mask(model, 1)
                P1 = np.diag(mask1.astype(float))
                w2 = scipy.linalg.expm(-beta * Hd2) @ P1
                e2 = np.trace(w2 @ Hd2) / np.trace(w2)
                x2 = db2 * np.linalg.norm(Hd2, 2)
                tol2 = 4 * nsteps2 * bound_for(method, x2, tp2.latest_mps, len(model.basis), 1.0) * np.exp(x2) * 3 * max(1.0, np.linalg.norm(Hd2, 2))
                led.check(abs(tp2.energies[-1] - e2) <= tol2, "post:ThermalProp.evolve:explicit_hamiltonian_model_is_used", "ThermalProp.evolve_prop",
                          f"E={tp2.energies[-1]:.6f} vs the Gibbs average of the given h_mpo_model {e2:.6f} (tol {tol2:.2e}); Gibbs average of the state's own model would be "
                          f"{np.trace(scipy.linalg.expm(-beta * Hd) @ P1 @ Hd) / np.trace(scipy.linalg.expm(-beta * Hd) @ P1):.6f}", key2, {"method": method}, rep2)
            except Exception as e:
                led.check(False, "post:ThermalProp.evolve:total", "ThermalProp.evolve", f"h_mpo_model run raised {type(e).__name__}: {e}", key2, {"method": method, "h_mpo_model": True}, rep2)
        for sector, ctor in ((1, "max_entangled_ex"), (0, "max_entangled_gs")):
            if sector == 0 and method in ("tdvp_ps", "tdvp_vmf", "tdvp_mu_vmf", "tdvp_mu_cmf"):
                # one-site TDVP needs the bond-dimension expander, which the library supports (assert) for the one-exciton purified state only
                continue
            key = (nmol, scheme, method, beta, sector)
            rep = {"nmol": nmol, "scheme": scheme, "method": method, "beta": beta, "sector": sector, "seed": seed}
            fields = {"method": method, "sector": sector}
            A0 = getattr(MpDm, ctor)(model)
            mask = S.sector_mask(model, sector)
            Pq = np.diag(mask.astype(float))
            A0d = S.dense(A0)
            # purified identity on the sector: A0 A0^dagger proportional to the sector projector
            rho0 = A0d @ A0d.conj().T
            led.check(np.abs(rho0 / max(np.trace(rho0).real, 1e-300) - Pq / mask.sum()).max() <= 1e-12 and not S.qnv_violations(A0),
                      f"post:MpDm.{ctor}:identity_on_sector", f"MpDm.{ctor}", "A0 A0^+ is not proportional to the sector projector", key + ("init",), fields, rep)
            nsteps = 4 if tier == "quick" else 8
            dbeta = beta / 2 / nsteps
            x = dbeta * hn
            cfg = EvolveConfig(getattr(EvolveMethod, method), guess_dt=-1j * dbeta)
            A0.compress_config = CompressConfig(CompressCriteria.fixed, max_bonddim=64)
            try:
                # the bond expander behind auto_expand supports (assert) the one-exciton purified state only; the two-site scheme grows bonds itself
                kw = {"auto_expand": False} if (sector == 0 and method == "tdvp_ps2") else {}
                tp = ThermalProp(A0, evolve_config=cfg, **kw)
                tp.evolve(evolve_dt=-1j * dbeta, nsteps=nsteps)
            except Exception as e:
                led.check(False, "post:ThermalProp.evolve:total", "ThermalProp.evolve", f"raised {type(e).__name__}: {e}", key, fields, rep)
                continue
            w = scipy.linalg.expm(-beta * Hd) @ Pq
            Z = np.trace(w)
            e_ref = np.trace(w @ Hd) / Z
            m = tp.latest_mps
            per_step = bound_for(method, x, m, len(model.basis), 1.0) * np.exp(x) * 3
            tol = 4 * nsteps * per_step * max(1.0, hn)
            led.check(abs(tp.energies[-1] - e_ref) <= tol, "post:ThermalProp.evolve:energy_is_gibbs_average", "ThermalProp.evolve",
                      f"E={tp.energies[-1]:.6f} vs Tr(e^-bH H)/Z={e_ref:.6f} (tol {tol:.2e})", key + ("E",), fields, rep)
            from renormalizer.model import Op
            occ_ref = [np.trace(w @ U.dense_terms(model, [Op(r"a^\dagger a", d)]).real) / Z for d in model.e_dofs]
            occ = np.asarray(tp.e_occupations_array[-1])
            led.check(np.abs(occ - np.array(occ_ref)).max() <= 4 * nsteps * per_step + 1e-9, "post:ThermalProp.evolve:occupations_are_gibbs_averages", "ThermalProp.evolve",
                      f"{occ} vs {occ_ref}", key + ("occ",), fields, rep)
            ph_ref = [np.trace(w @ U.dense_terms(model, [Op(r"b^\dagger b", d)]).real) / Z for d in model.v_dofs]
            ph = np.asarray(tp.ph_occupations_array[-1])
            led.check(np.abs(ph - np.array(ph_ref)).max() <= 4 * nsteps * per_step * 3 + 1e-9, "post:ThermalProp.evolve:phonon_occupations_are_gibbs_averages",
                      "ThermalProp.evolve", f"{ph} vs {ph_ref}", key + ("ph",), fields, rep)
            Ad = S.dense(m)
            rho = Ad @ Ad.conj().T
            rho = rho / np.trace(rho)
            leak = np.abs(rho[~mask][:, ~mask]).max() if (~mask).any() else 0.0
            led.check(leak <= 1e-10 and not S.qnv_violations(m), "post:ThermalProp.evolve:stays_in_sector", "ThermalProp.evolve", f"weight outside the sector {leak:.2e}",
                      key + ("sector",), fields, rep)
            # the Gibbs averages do not depend on the norm of the purified identity the job starts from (the bond expander behind auto_expand mixes in its
            # random component relative to that norm): the same run from 1e-9 x the same start
            if sector == 1 and method in ("tdvp_ps", "tdvp_ps2"):
                try:
                    A1 = getattr(MpDm, ctor)(model).scale(1e-9)
                    A1.compress_config = CompressConfig(CompressCriteria.fixed, max_bonddim=64)
                    st_ = np.random.get_state()
                    np.random.seed(seed + 3)
                    try:
                        tp1 = ThermalProp(A1, evolve_config=EvolveConfig(getattr(EvolveMethod, method), guess_dt=-1j * dbeta))
                        tp1.evolve(evolve_dt=-1j * dbeta, nsteps=nsteps)
                    finally:
                        np.random.set_state(st_)
                    occ1 = np.asarray(tp1.e_occupations_array[-1])
                    # compared with the run from the unit-norm start (same scheme, same steps): the only difference allowed is the 1e-10 admixture of the expander
                    led.check(abs(tp1.energies[-1] - tp.energies[-1]) <= 1e-4 * max(1.0, abs(e_ref)) and np.abs(occ1 - occ).max() <= 1e-4,
                              "post:ThermalProp.evolve:gibbs_averages_independent_of_the_norm_of_the_start", "ThermalProp.evolve",
                              f"start scaled by 1e-9: E={tp1.energies[-1]:.8f} vs {tp.energies[-1]:.8f} from the unit-norm start, occupations {occ1} vs {occ}", key + ("tiny-start",), fields, dict(rep, start_scale=1e-9))
                except Exception as e:
                    led.check(False, "post:ThermalProp.evolve:total", "ThermalProp.evolve", f"start scaled by 1e-9: raised {type(e).__name__}: {e}", key + ("tiny-start",), fields, rep)
    elif kind == "thermal_exact":
        _, nmol, scheme, seed, tier = case
        from renormalizer.mps import MpDm, ThermalProp
        from renormalizer.utils import EvolveConfig
        model = holstein(nmol, scheme, seed=seed)
        for space, sector, ctor in (("GS", 0, "max_entangled_gs"), ("EX", 1, "max_entangled_ex")):
            A0 = getattr(MpDm, ctor)(model)
            A0d = S.dense(A0)
            Hl = local_h(model, space)
            beta = 1.3
            tp = ThermalProp(A0, exact=True, space=space)
            tp.evolve(None, 2, beta / 2j)
            Ad = S.dense(tp.latest_mps)
            ref = scipy.linalg.expm(-beta / 2 * Hl) @ A0d
            ref = ref / np.linalg.norm(ref)
            key = (nmol, scheme, space, "thermal_exact")
            led.check(np.abs(Ad / np.linalg.norm(Ad) - ref).max() <= 1e-9, "post:ThermalProp.evolve_exact:local_gibbs_state", "ThermalProp.evolve_exact",
                      f"deviates from the normalised expm(-beta/2 H_loc) A0 by {np.abs(Ad / np.linalg.norm(Ad) - ref).max():.2e}", key, {"space": space},
                      {"nmol": nmol, "scheme": scheme, "space": space, "beta": beta, "seed": seed})
            # the same job continued with a DIFFERENT step (tp.evolve twice): total inverse temperature = sum of the steps taken
            try:
                tp_c = ThermalProp(getattr(MpDm, ctor)(model), exact=True, space=space)
                tp_c.evolve(beta / 6j, 1)
                tp_c.evolve(beta / 3j, 1)
                Cd = S.dense(tp_c.latest_mps)
                dev = np.abs(Cd / np.linalg.norm(Cd) - ref).max()
                led.check(dev <= 1e-9, "post:ThermalProp.evolve_exact:continued_with_another_step_size", "ThermalProp.evolve_exact",
                          f"one step of beta/6 then one of beta/3 (same job): deviates from the normalised expm(-beta/2 H_loc) A0 by {dev:.2e}", key + ("two-steps",), {"space": space},
                          {"nmol": nmol, "scheme": scheme, "space": space, "beta": beta, "seed": seed, "calls": "tp.evolve(beta/6j, 1); tp.evolve(beta/3j, 1)"})
                led.check(abs(tp_c.evolve_times[-1] - (beta / 6j + beta / 3j)) <= 1e-12, "post:ThermalProp.evolve:times_accumulate", "ThermalProp.evolve",
                          f"evolve_times {tp_c.evolve_times}", key + ("two-steps-time",), {"space": space}, {})
            except Exception as e:
                led.check(False, "post:ThermalProp.evolve_exact:total", "ThermalProp.evolve_exact", f"continued job raised {type(e).__name__}: {e}", key + ("two-steps",), {"space": space}, {})
            # continued from a density operator that is NOT the identity on the vibrations (the result of the run above in the other space's propagator does not
            # commute with this one; a loaded / previously thermalised state): the propagator acts from the PHYSICAL side, P rho, not rho P
            try:
                other = "EX" if space == "GS" else "GS"
                B0 = tp.latest_mps.copy()
                B0d = S.dense(B0)
                Ho = local_h(model, other)
                tp3 = ThermalProp(B0, exact=True, space=other)
                tp3.evolve(None, 2, beta / 2j)
                Bd = S.dense(tp3.latest_mps)
                refB = scipy.linalg.expm(-beta / 2 * Ho) @ B0d
                refB = refB / np.linalg.norm(refB)
                wrong = B0d @ scipy.linalg.expm(-beta / 2 * Ho)
                nontriv = np.abs(wrong / np.linalg.norm(wrong) - refB).max() > 1e-6
                dev = np.abs(Bd / np.linalg.norm(Bd) - refB).max()
                led.check(dev <= 1e-9, "post:ThermalProp.evolve_exact:propagator_acts_from_the_physical_side", "ThermalProp.evolve_exact",
                          f"continued in space {other} from the thermal state of space {space}: deviates from expm(-beta/2 H_loc) rho by {dev:.2e}", key + ("continued",),
                          {"space": other, "start": "thermal state of the other space"}, {"nmol": nmol, "scheme": scheme, "space": other, "beta": beta, "seed": seed}, nontrivial=bool(nontriv))
            except Exception as e:
                led.check(False, "post:ThermalProp.evolve_exact:total", "ThermalProp.evolve_exact", f"continued run raised {type(e).__name__}: {e}", key + ("continued",), {"space": space}, {})
            # the same with an explicit Hamiltonian model (documented argument h_mpo_model) that differs from the model of the identity state
            if isinstance(nmol, int):
                model2 = holstein(nmol, scheme, seed=seed + 101)
                Hl2 = local_h(model2, space)
                try:
                    tp2 = ThermalProp(getattr(MpDm, ctor)(model), h_mpo_model=model2, exact=True, space=space)
                    tp2.evolve(None, 2, beta / 2j)
                    Ad2 = S.dense(tp2.latest_mps)
                    ref2 = scipy.linalg.expm(-beta / 2 * Hl2) @ A0d
                    ref2 = ref2 / np.linalg.norm(ref2)
                    dev = np.abs(Ad2 / np.linalg.norm(Ad2) - ref2).max()
                    led.check(dev <= 1e-9, "post:ThermalProp.evolve_exact:explicit_hamiltonian_model_is_used", "ThermalProp.evolve_exact",
                              f"deviates from the local Gibbs state of the given h_mpo_model by {dev:.2e} (from that of the state's own model by {np.abs(Ad2 / np.linalg.norm(Ad2) - ref).max():.2e})",
                              key + ("h_mpo_model",), {"space": space}, {"nmol": nmol, "scheme": scheme, "space": space, "beta": beta, "seed": seed, "h_mpo_model": "holstein(seed+101)"})
                except Exception as e:
                    led.check(False, "post:ThermalProp.evolve_exact:total", "ThermalProp.evolve_exact", f"h_mpo_model run raised {type(e).__name__}: {e}", key + ("h_mpo_model",), {"space": space}, {})


def check(run):
    seeds = [run.seed] if run.tier == "quick" else [run.seed, run.seed + 1]
    cases = []
    for s in seeds:
        # "-flux": complex Hermitian Hamiltonians (complex hopping amplitudes); the start states are real, so the schemes have to promote them themselves
        for name, n in (("spinqn", 4), ("holstein", 4), ("spinqn-flux", 4)) if run.tier == "quick" else (("spinqn", 4), ("holstein", 4), ("spin", 3), ("spinqn", 5), ("spinqn-flux", 4), ("holstein-flux", 4)):
            for method in METHODS:
                cases.append(("imag", name, n, method, s, run.tier))
        for name, n in (("spinqn", 4), ("holstein", 4)):
            for solver in ("RK45", "krylov"):
                cases.append(("cmf_order", name, n, solver, s, run.tier))
        for nmol in (1, 2, (2, "degenerate"), (1, "twomodes"), (1, "shifted"), (2, "shifted")) + (((2, "twomodes"),) if run.tier != "quick" else ()):
            for scheme in (2, 4):
                cases.append(("exactprop", nmol, scheme, s, run.tier))
                cases.append(("thermal_exact", nmol, scheme, s, run.tier))
        for method in ("prop_and_compress", "tdvp_ps", "tdvp_mu_vmf") if run.tier == "quick" else ("prop_and_compress", "tdvp_ps", "tdvp_ps2", "tdvp_mu_vmf", "prop_and_compress_tdrk4"):
            for beta in (0.2, 2.0) if run.tier == "quick" else (0.1, 0.5, 2.0, 10.0):
                for scheme in (2, 4):
                    cases.append(("thermal", 2, scheme, method, beta, s, run.tier))
    run_cases(run, worker, cases)
    from props import C09_sym
    guarded(run, C09_sym.prove, dts=(-0.0625j, -0.25j), key="C10")
    # imaginary-time branch of TDVP-PS / PS2: the local problems are those of the integrator for exp(-tau H) (the sign conventions differ per local solver)
    from props import C09_tdvp_sym
    guarded(run, C09_tdvp_sym.prove, dts=(complex(0, -0.25), complex(0, -0.0625)), key="C10")
    run.rule = ("(a) imaginary-time branch of the 8 schemes x solvers x |H|tau in {0.1,0.5} vs normalised expm(-tau H)psi; (b) exact_propagator for Holstein models "
                "(1-2 molecules, distinct and degenerate mode frequencies with different displacements, 1-2 modes per molecule, schemes 2 and 4, spaces GS/EX, real/imaginary/complex x, shift 0 and 0.37) vs dense expm; Mps/MpDm.evolve_exact with zero and non-zero "
                "offset incl. frame; (c) ThermalProp from max_entangled_ex/gs for beta over two decades, 3-5 schemes: energy, electronic and phonon occupations vs dense "
                "Gibbs averages in the sector; exact thermal propagation; distinct = case tuples x clause")
    run.sample({"nmol": 2, "scheme": 4, "method": "tdvp_ps", "beta": 2.0, "sector": 1, "contract": "E = Tr(e^{-beta H} H P_1)/Tr(e^{-beta H} P_1) within the accumulated scheme bound"})
    run.explanation = ("Decided exactly (Engine S): imaginary-time steps of the propagation-and-compression schemes are the stage polynomial in -tau H; the imaginary-time branch "
                       "of TDVP-PS / PS2 poses exactly the local problems of the integrator for exp(-tau H), both local solver forms. Bounded (floating-point convergence): accuracy "
                       "bounds as C09, accumulated over the steps; Gibbs averages; closed-form propagators.")
    run.trusted += ["scipy.linalg.expm, dense Gibbs averages", "Model.ham_terms of HolsteinModel as the definition of H (its agreement with the documented formula is C16)"]
