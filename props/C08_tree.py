"""Tree part of C08: optimize_ttns energies are upper bounds and exact at sufficient bond dimension (bounded)."""
import numpy as np

from vk.rtc.harness import run_cases
from vk.specs import tree as T
from vk.specs import treeuniv as TU
from vk.specs import chain as S


def worker(case, led):
    n_nodes, flavour, seed, tier = case
    from renormalizer.tn import optimize_ttns
    su = TU.setup(seed, n_nodes, flavour, max_dim=200)
    if su is None or len(su["bt"].node_list) < 2:
        return
    bt, order, model, H, Hd, sectors, rng = su["bt"], su["order"], su["model"], su["H"], su["Hd"], su["sectors"], su["rng"]
    q = sectors[len(sectors) // 2]
    mask = S.sector_mask(model, q)
    lam = np.linalg.eigvalsh(Hd[np.ix_(mask, mask)])
    scale = max(1.0, np.abs(lam).max())
    for M in (32, 2):
        a = TU.random_ttns(bt, q, 4, rng)
        if a is None:
            return
        key = (repr(su["shape"]), flavour, seed, M)
        rep = dict(TU.describe_tree(bt), flavour=flavour, seed=seed, sector=q, M=M, exact_ground_energy=float(lam[0]))
        st = np.random.get_state()
        np.random.seed(seed + 5)
        try:
            e_list = optimize_ttns(a, H, procedure=[[M, 0.4], [M, 0.2], [M, 0.0], [M, 0.0]])
        except Exception as e:
            led.check(False, "post:optimize_ttns:total", "optimize_ttns", f"raised {type(e).__name__}: {e}", key, {"M": M}, rep)
            continue
        finally:
            np.random.set_state(st)
        E = np.asarray(e_list, dtype=float)
        led.check(np.all(E >= lam[0] - 1e-9 * scale), "post:optimize_ttns:energies_are_upper_bounds", "optimize_ttns", f"reported {E.min():.10f} < exact {lam[0]:.10f}", key + ("var",), {"M": M}, rep)
        v = T.dense_ttns(a, order)
        leak = float(np.abs(v[~mask]).max()) if (~mask).any() else 0.0
        # optimize_ttns updates its argument in place and returns energies only; after a truncating update the state is not renormalised,
        # so normalisation is required at sufficient bond dimension and the Rayleigh quotient is used otherwise
        led.check((abs(np.linalg.norm(v) - 1) <= 1e-8 or M != 32) and leak <= 1e-9 and not T.qnv_tree_violations(a), "post:optimize_ttns:state_normalised_in_sector", "optimize_ttns",
                  f"norm {np.linalg.norm(v):.10f}, leak {leak:.1e}", key + ("state",), {"M": M}, rep)
        es = np.vdot(v, Hd @ v).real / max(np.vdot(v, v).real, 1e-300)
        led.check(es >= lam[0] - 1e-9 * scale, "post:optimize_ttns:state_energy_is_upper_bound", "optimize_ttns", f"{es} < {lam[0]}", key + ("evar",), {"M": M}, rep)
        if M == 32:
            led.check(abs(E[-1] - lam[0]) <= 1e-6 * scale and abs(es - lam[0]) <= 1e-6 * scale, "post:optimize_ttns:exact_at_sufficient_bond_dimension", "optimize_ttns",
                      f"final {E[-1]:.10f}, state {es:.10f}, exact {lam[0]:.10f}", key + ("exact",), {"M": M}, rep)


def check(run):
    seeds = list(range(run.seed * 100, run.seed * 100 + (2 if run.tier == "quick" else 6)))
    cases = [(nn, fl, s, run.tier) for s in seeds for nn in (2, 3, 4) for fl in ("spinqn", "holstein")]
    run_cases(run, worker, cases)
