"""Tree part of C08: optimize_ttns energies are upper bounds and exact at sufficient bond dimension (bounded)."""
import numpy as np

from vk.rtc.harness import run_cases
from vk.specs import tree as T
from vk.specs import treeuniv as TU
from vk.specs import chain as S


def worker(case, led):
    n_nodes, flavour, seed, tier = case
    from renormalizer.tn import optimize_ttns
    su = TU.setup(seed, n_nodes, flavour, max_dim=200)
    if su is None or len(su["bt"].node_list) < 2:
        return
    bt, order, model, H, Hd, sectors, rng = su["bt"], su["order"], su["model"], su["H"], su["Hd"], su["sectors"], su["rng"]
    from renormalizer.model import Op
    from renormalizer.tn import TTNO
    q = sectors[len(sectors) // 2]
    mask = S.sector_mask(model, q)
    lam0 = np.linalg.eigvalsh(Hd[np.ix_(mask, mask)])
    width = max(1.0, np.abs(lam0).max())
    dof0 = model.basis[0].dofs[0] if hasattr(model.basis[0], "dofs") and getattr(model.basis[0], "multi_dof", False) else model.basis[0].dof
    # eigensolvers available offline x position of the spectrum: as given / entirely positive / entirely negative (a solver picking the
    # eigenvalue of largest modulus, or the wrong end, is right for one sign of the spectrum only)
    combos = [("davidson", 0.0), ("arpack", 2.0 * width), ("direct", -2.0 * width), ("arpack", 0.0)]
    if tier != "quick":
        combos += [("davidson", 2.0 * width), ("arpack", -2.0 * width), ("direct", 2.0 * width), ("direct", 0.0), ("davidson", -2.0 * width)]
    for algo, shift in combos:
        if shift:
            Hs = TTNO(bt, list(su["terms"]) + [Op("I", dof0, float(shift))])
            Hds = Hd + shift * np.eye(Hd.shape[0])
            if np.abs(T.dense_ttno(Hs, order) - Hds).max() > 1e-9 * width:      # the shifted operator itself is C01's business
                continue
        else:
            Hs, Hds = H, Hd
        lam = lam0 + shift
        scale = max(1.0, np.abs(lam).max())
        for M in (32, 2):
            a = TU.random_ttns(bt, q, 4, rng)
            if a is None:
                return
            key = (repr(su["shape"]), flavour, seed, M, algo, round(float(shift), 6))
            rep = dict(TU.describe_tree(bt), flavour=flavour, seed=seed, sector=q, M=M, exact_ground_energy=float(lam[0]), algo=algo, shift=float(shift))
            fields = {"M": M, "algo": algo, "spectrum": "as given" if not shift else ("positive" if shift > 0 else "negative")}
            a.optimize_config.algo = algo
            st = np.random.get_state()
            np.random.seed(seed + 5)
            try:
                e_list = optimize_ttns(a, Hs, procedure=[[M, 0.4], [M, 0.2], [M, 0.0], [M, 0.0]])
            except Exception as e:
                led.check(False, "post:optimize_ttns:total", "optimize_ttns", f"algo={algo}: raised {type(e).__name__}: {e}", key, dict(fields, raised=type(e).__name__), rep)
                continue
            finally:
                np.random.set_state(st)
            E = np.asarray(e_list, dtype=float)
            led.check(np.all(E >= lam[0] - 1e-9 * scale), "post:optimize_ttns:energies_are_upper_bounds", "optimize_ttns", f"algo={algo}: reported {E.min():.10f} < exact {lam[0]:.10f}",
                      key + ("var",), fields, rep)
            v = T.dense_ttns(a, order)
            leak = float(np.abs(v[~mask]).max()) if (~mask).any() else 0.0
            # optimize_ttns updates its argument in place and returns energies only; after a truncating update the state is not renormalised,
            # so normalisation is required at sufficient bond dimension and the Rayleigh quotient is used otherwise
            led.check((abs(np.linalg.norm(v) - 1) <= 1e-8 or M != 32) and leak <= 1e-9 and not T.qnv_tree_violations(a), "post:optimize_ttns:state_normalised_in_sector", "optimize_ttns",
                      f"algo={algo}: norm {np.linalg.norm(v):.10f}, leak {leak:.1e}", key + ("state",), fields, rep)
            es = np.vdot(v, Hds @ v).real / max(np.vdot(v, v).real, 1e-300)
            led.check(es >= lam[0] - 1e-9 * scale, "post:optimize_ttns:state_energy_is_upper_bound", "optimize_ttns", f"algo={algo}: {es} < {lam[0]}", key + ("evar",), fields, rep)
            if M == 32:
                led.check(abs(E[-1] - lam[0]) <= 1e-6 * scale and abs(es - lam[0]) <= 1e-6 * scale, "post:optimize_ttns:exact_at_sufficient_bond_dimension", "optimize_ttns",
                          f"algo={algo}, spectrum shifted by {shift:+.3f}: final {E[-1]:.10f}, state {es:.10f}, exact {lam[0]:.10f}", key + ("exact",), fields, rep)


def check(run):
    seeds = list(range(run.seed * 100, run.seed * 100 + (2 if run.tier == "quick" else 6)))
    cases = [(nn, fl, s, run.tier) for s in seeds for nn in (2, 3, 4) for fl in ("spinqn", "holstein")]
    run_cases(run, worker, cases)
