def check(run):
    pass
