"""C13 beyond the chain walker: tree histories, sums of lists of states, operator / density-operator methods, and the static modifies clauses."""
import numpy as np

from vk.rtc.harness import run_cases
from vk.specs import chain as S
from vk.specs import universe as U
from vk.specs import dyn as Dn


def tree_worker(case, led):
    from vk.specs import treewalker
    _, seed, n_nodes, flavour, length, tier = case
    treewalker.walk(seed, n_nodes, flavour, length, led, tier)


def sums_worker(case, led):
    """compressed_sum / _sum over lists of 1..4 live states: every summand keeps its vector, the result is a new object"""
    from renormalizer.mps.lib import compressed_sum
    from renormalizer.mps import Mpo, MpDm
    from renormalizer.utils import CompressConfig, CompressCriteria
    _, name, n, seed, tier = case
    rng = np.random.default_rng([seed, n, 4242, sum(map(ord, name))])
    model, terms, sectors = Dn.hamiltonian(name, n, rng)
    H = Mpo(model, terms)
    Hd = S.dense(H).copy()
    for q in list(sectors)[:3]:
        for k in (1, 2, 3, 4):
            for M in (1, 2, 8):
                sts = [U.make_state(model, q, 3, rng, complex_=rng.random() < 0.3) for _ in range(k)]
                if any(s is None for s in sts):
                    continue
                for s in sts:
                    s.compress_config = CompressConfig(CompressCriteria.fixed, max_bonddim=M)
                    if rng.random() < 0.5:
                        s.coeff = 0.7
                before = [S.dense(s).copy() for s in sts]
                key = (name, n, seed, str(q), k, M)
                rep = {"model": name, "nsites": n, "seed": seed, "sector": q, "n_summands": k, "M": M,
                       "how": "states from vk.specs.universe.make_state(model, q, 3, rng) with this rng stream; compressed_sum(states)"}
                f = {"n_summands": k}
                try:
                    r = compressed_sum(list(sts), batchsize=3)
                except Exception as e:
                    led.ok("skipped:compressed_sum:raised", "compressed_sum", key + (type(e).__name__,), nontrivial=False)
                    r = None
                for i, s in enumerate(sts):
                    led.check(np.abs(S.dense(s) - before[i]).max() <= 1e-12 * max(1.0, np.abs(before[i]).max()), "frame:compressed_sum:summands_unchanged", "compressed_sum",
                              f"summand {i} of {k} changed by {np.abs(S.dense(s) - before[i]).max():.2e} (M={M})", key + ("frame", i), f, rep)
                if r is not None:
                    led.check(all(r is not s for s in sts), "frame:compressed_sum:result_is_new_object", "compressed_sum", "the result is one of the summands", key + ("new",), f, rep)
                    if np.abs(S.dense(r)).max() > 1e-8:
                        r.scale(2.0, inplace=True)
                        for i, s in enumerate(sts):
                            led.check(np.abs(S.dense(s) - before[i]).max() <= 1e-12 * max(1.0, np.abs(before[i]).max()), "frame:compressed_sum:mutating_result_leaves_summands",
                                      "compressed_sum", f"scaling the result in place changed summand {i}", key + ("mut", i), f, rep)
        # density operators and operators as inputs
        a = U.make_state(model, q, 2, rng)
        if a is None:
            continue
        rho = MpDm.from_mps(a)
        rd = S.dense(rho).copy()
        ad = S.dense(a).copy()
        key = (name, n, seed, str(q), "ops")
        rep = {"model": name, "nsites": n, "seed": seed, "sector": q}
        for opname, fn, call in (("H.apply(rho)", "Mpo.apply", lambda: H.apply(rho)), ("H @ rho", "Mpo.__matmul__", lambda: H @ rho), ("rho.conj_trans()", "MpDm.conj_trans", lambda: rho.conj_trans()),
                                 ("H.conj_trans()", "Mpo.conj_trans", lambda: H.conj_trans()), ("H.contract(a)", "Mpo.contract", lambda: H.contract(a)),
                                 ("rho.apply(H)", "MpDm.apply", lambda: rho.apply(H)), ("H.copy()+H", "MatrixProduct.add", lambda: H.copy().add(H)), ("H.scale(2)", "MatrixProduct.scale", lambda: H.scale(2.0)),
                                 ("rho.todense", "MpDm.todense", lambda: rho.todense()), ("rho.copy", "MatrixProduct.copy", lambda: rho.copy()), ("rho.conj", "MatrixProduct.conj", lambda: rho.conj()),
                                 ("rho.to_complex", "MatrixProduct.to_complex", lambda: rho.to_complex()), ("H.to_complex", "MatrixProduct.to_complex", lambda: H.to_complex()),
                                 ("a.expectation(H)", "Mps.expectation", lambda: a.expectation(H)), ("rho.expectation(H)", "MpDm.expectation", lambda: rho.expectation(H)),
                                 ("a.expectations", "Mps.expectations", lambda: a.expectations([H, H])), ("a.rdm", "Mps.calc_1site_rdm", lambda: (a.calc_1site_rdm(), a.calc_2site_rdm())),
                                 ("a.entropy", "Mps.calc_bond_entropy", lambda: a.calc_bond_entropy()), ("a.dot(a)", "MatrixProduct.dot", lambda: a.dot(a.conj())), ("a.norm", "Mps.norm", lambda: a.norm)):
            try:
                r = call()
            except Exception as e:
                led.ok(f"skipped:{fn}:raised", fn, key + (opname, type(e).__name__), nontrivial=False)
                r = None
            ok = np.abs(S.dense(rho) - rd).max() <= 1e-12 and np.abs(S.dense(H) - Hd).max() <= 1e-12 * max(1, np.abs(Hd).max()) and np.abs(S.dense(a) - ad).max() <= 1e-12
            led.check(ok, f"frame:{fn}:operands_unchanged", fn, f"{opname} changed one of its operands (H, rho or a)", key + (opname,), {"op": opname}, dict(rep, op=opname))
            if r is not None and hasattr(r, "scale") and hasattr(r, "qnidx") and np.abs(S.dense(r)).max() > 1e-8:
                r.scale(1.5, inplace=True)
                r.ensure_left_canonical()
                ok = np.abs(S.dense(rho) - rd).max() <= 1e-12 and np.abs(S.dense(H) - Hd).max() <= 1e-12 * max(1, np.abs(Hd).max()) and np.abs(S.dense(a) - ad).max() <= 1e-12
                led.check(ok, f"frame:{fn}:mutating_result_leaves_operands", fn, f"in-place scale + canonicalise of the result of {opname} changed an operand", key + (opname, "mut"),
                          {"op": opname}, dict(rep, op=opname))

        # chain -> tree conversion: the tree state is a new object whatever gauge the chain is in (a left-canonical chain needs no rewriting - it still is not shared)
        try:
            from renormalizer.tn.tree import from_mps
            for gname, src in (("as built", a.copy()), ("left-canonical", a.copy().ensure_left_canonical()), ("right-canonical", a.copy().ensure_right_canonical())):
                sd = S.dense(src).copy()
                _b, tt, _o = from_mps(src)
                tt.scale(3.0, inplace=True)
                led.check(np.abs(S.dense(src) - sd).max() <= 1e-12, "frame:from_mps:mutating_the_tree_leaves_the_chain", "from_mps",
                          f"{gname} chain: rescaling the converted tree state in place changed the chain by {np.abs(S.dense(src) - sd).max():.2e}", key + ("from_mps", gname), {"gauge": gname}, dict(rep, gauge=gname))
        except Exception as e:
            led.ok("skipped:from_mps:raised", "from_mps", key + ("from_mps", type(e).__name__), nontrivial=False)
        # bond-dimension expansion (the drivers call it with include_ex=False): the input is an unnormalised state with a prefactor - it keeps its vector
        b = a.scale(3.0)
        b.coeff = 2.0
        b.compress_config = CompressConfig(CompressCriteria.fixed, max_bonddim=6)
        bd = S.dense(b).copy()
        for opname, call in (("b.expand_bond_dimension(H, include_ex=False)", lambda: b.expand_bond_dimension(H, include_ex=False)),
                             ("b.expand_bond_dimension(H)", lambda: b.expand_bond_dimension(H)),
                             ("b.expand_bond_dimension()", lambda: b.expand_bond_dimension()),
                             ("rho.expand_bond_dimension(H, include_ex=False)", lambda: rho.expand_bond_dimension(H, include_ex=False))):
            fn = "Mps.expand_bond_dimension"
            st = np.random.get_state()
            np.random.seed(seed + 5)
            try:
                if opname.startswith("rho"):
                    rho.compress_config = CompressConfig(CompressCriteria.fixed, max_bonddim=6)
                r = call()
            except Exception as e:
                led.ok(f"skipped:{fn}:raised", fn, key + (opname, type(e).__name__), nontrivial=False)
                r = None
            finally:
                np.random.set_state(st)
            ok = np.abs(S.dense(b) - bd).max() <= 1e-12 * np.abs(bd).max() and np.abs(S.dense(rho) - rd).max() <= 1e-12 and np.abs(S.dense(H) - Hd).max() <= 1e-12 * max(1, np.abs(Hd).max())
            led.check(ok, f"frame:{fn}:operands_unchanged", fn, f"{opname} changed the state it was called on (or H): |b| went from {np.linalg.norm(bd):.6f} to {np.linalg.norm(S.dense(b)):.6f}",
                      key + (opname,), {"op": opname}, dict(rep, op=opname, how="b = a.scale(3.0); b.coeff = 2.0; max_bonddim 6"))
            if r is not None:
                led.check(r is not b and r is not rho, f"frame:{fn}:result_is_new_object", fn, f"{opname} handed back its input", key + (opname, "new"), {"op": opname}, dict(rep, op=opname))
                # the expanded state is the input up to the admixture (coef 1e-10) and the norm moved into the prefactor
                src = bd if opname.startswith("b") else rd
                v = S.dense(r)
                led.check(np.abs(v - src).max() <= 1e-6 * np.abs(src).max(), "post:Mps.expand_bond_dimension:same_vector_up_to_the_admixture", fn,
                          f"{opname}: result differs from the input by {np.abs(v - src).max():.2e}", key + (opname, "val"), {"op": opname}, dict(rep, op=opname))


def check(run):
    from props import C13_effects
    quick = run.tier == "quick"
    cases = [("tree", run.seed * 100 + s, n, fl, 18 if quick else 45, run.tier) for fl in ("spinqn", "holstein") for n in ((3, 4) if quick else (2, 3, 4, 5))
             for s in range(2 if quick else 8)]
    run_cases(run, tree_worker, cases)
    cases = [("sums", name, n, run.seed * 10 + s, run.tier) for name in ("spinqn", "holstein", "spin") for n in ((3, 4) if quick else (2, 3, 4, 5)) for s in range(1 if quick else 4)]
    run_cases(run, sums_worker, cases)
    C13_effects.prove(run)
