"""Deductive part of C04: sweep / centre discipline of canonicalise for all chain lengths and stop sites (pyvc/z3)."""
from contracts import mp as M
from vk.pyvc.run import verify


def prove(run):
    verify(run, M.REL, M.switch_direction, fingerprint={})
    verify(run, M.REL, M.canonicalise, contracts=M.CALLEES_CANO, fingerprint=M.FINGERPRINT_CANO,
           property_fields={"function": "canonicalise"})
    run.trusted += ["assumed contract of MatrixProduct._push_cano (centre moves by one site in the sweep direction, dense object unchanged): "
                    "its body is numeric (svd_qn QR + _update_ms) and is covered by the bounded contracts below and by C18",
                    "ghost field `den` = represented dense object"]
