"""Deductive part of C04: sweep / centre discipline of canonicalise for all chain lengths and stop sites (pyvc/z3)."""
from contracts import mp as M
from vk.pyvc.run import verify


def prove(run):
    verify(run, M.REL, M.switch_direction, fingerprint={})
    verify(run, M.REL, M.canonicalise, contracts=M.CALLEES_CANO, fingerprint=M.FINGERPRINT_CANO,
           property_fields={"function": "canonicalise"}, replay=replay_canonicalise)
    run.trusted += ["assumed contract of MatrixProduct._push_cano (centre moves by one site in the sweep direction, dense object unchanged): "
                    "its body is numeric (svd_qn QR + _update_ms) and is covered by the bounded contracts below and by C18",
                    "ghost field `den` = represented dense object"]


def prove_compress_slice(run):
    """which entry of a per-bond limit list applies to the bond cut at site idx (mechanical slice of the sweep loop of compress)"""
    import ast
    from vk.pyvc import engine as E
    from vk.pyvc import run as R
    from vk.pyvc.slice import make_slice, SliceError, loop_body
    try:
        fn = R.index().find(M.REL, "MatrixProduct.compress")
        k = M.compress_limit_stmt(loop_body(fn, M.SLICE_COMPRESS["body_of_loop"]))
        sl = make_slice(fn, M.SLICE_COMPRESS["name"], M.SLICE_COMPRESS["body_of_loop"], (k, k), M.SLICE_COMPRESS["params"], "m_trunc")
    except (E.VCError, SliceError, ValueError, StopIteration) as e:
        run.oblig("extract:compress__limit_of_cut_bond", "MatrixProduct.compress", "A(pyvc)", "undecided", detail=f"slice could not be extracted (stale contract): {e}")
        return
    run.extra.setdefault("pyvc_slices", {})["compress__limit_of_cut_bond"] = {
        "source": M.REL, "description": "the statement `if temp_m_trunc is None: ... else: ...` of the body of `for idx in self.iter_idx_list(full=False)` in "
                                        "MatrixProduct.compress, with self.to_right, len(sigma) and the configured limit bound to parameters; returns m_trunc",
        "extracted_text": ast.unparse(sl)}
    for c in (M.compress_limit_list, M.compress_limit_int, M.compress_limit_none):
        R.verify_node(run, M.REL, c, sl, fingerprint={}, replay=replay_compress_limit)


def prove_canonical_checks(run):
    """check_left_canonical / check_right_canonical test every site that has to be an isometry (whole-function extraction, per-site test abstracted)"""
    import ast
    from vk.pyvc import engine as E
    from vk.pyvc import run as R
    from vk.pyvc.slice import whole_function, SliceError
    for side, d in M.CHECK_SLICES.items():
        try:
            fn = R.index().find(M.REL, d["qual"])
            sl = whole_function(fn, d["qual"].split(".")[-1] + "__sites_tested", d["subst"], ["n", "ortho"], must_hit=d["must_hit"])
        except (E.VCError, SliceError, ValueError, StopIteration) as e:
            run.oblig(f"extract:{d['qual']}", d["qual"], "A(pyvc)", "undecided", detail=f"function could not be extracted (stale contract): {e}")
            continue
        run.extra.setdefault("pyvc_slices", {})[d["qual"]] = {
            "source": M.REL, "description": f"the whole body of {d['qual']} with " + ", ".join(f"`{a}` -> `{b}`" for a, b in d["subst"].items()) + " (docstring dropped)",
            "extracted_text": ast.unparse(sl)}
        R.verify_node(run, M.REL, d["contract"], sl, fingerprint=None, replay=(lambda side_: lambda cex, loc, ob: replay_canonical_check(side_, cex))(side))


def replay_canonical_check(side, cex):
    """native replay: a chain that is canonical except at the sites the counter-model marks as non-isometric"""
    import numpy as np
    from vk.specs import chain as S
    n = int(cex.get("n", 0))
    if not (1 <= n <= 8):
        return False, "counter-model outside the replay range"
    ortho = cex.get("ortho")
    marks = [bool(ortho[k]) if isinstance(ortho, (list, tuple)) and k < len(ortho) else True for k in range(n)]
    model, sectors = S.model_zoo("spinqn", n)
    rng = np.random.default_rng(5)
    a = S.random_mps(model, sectors[len(sectors) // 2], 4, rng)
    if a is None:
        return False, "no state"
    a = a.ensure_left_canonical() if side == "left" else a.ensure_right_canonical()
    for k in range(n):
        if not marks[k]:
            t = np.array(np.asarray(a[k].array))
            t[:, 0, :] *= 3.0                      # spoil the isometry of site k, labels untouched
            a[k] = t
    tested = range(n - 1) if side == "left" else range(1, n)
    want = all(marks[k] for k in tested)
    got = bool(a.check_left_canonical() if side == "left" else a.check_right_canonical())
    return got != want, {"side": side, "n": n, "sites_spoiled": [k for k in range(n) if not marks[k]], "check_returned": got, "definition_says": want,
                         "how": "vk.specs.chain.model_zoo('spinqn', n), random_mps(seed 5), ensure_<side>_canonical, then the marked site tensors scaled on one physical index"}


def replay_compress_limit(cex, locals_, ob):
    """native replay: a random chain whose exact Schmidt ranks are used as per-bond limits must survive compress in the direction of the counter-model"""
    import numpy as np
    from vk.specs import chain as S
    from props.C04 import schmidt_ranks
    from renormalizer.utils import CompressConfig, CompressCriteria
    to_right = bool(cex.get("to_right", False))
    model, sectors = S.model_zoo("spinqn", 5)
    rng = np.random.default_rng(7)
    a = S.random_mps(model, sectors[len(sectors) // 2], 6, rng)
    if a is None:
        return False, "no state"
    a.canonicalise().canonicalise()
    if a.to_right != to_right:
        a.canonicalise()
    v0 = S.dense(a)
    limits = [1] + schmidt_ranks(v0, [b.nbas for b in model.basis], False) + [1]
    a.compress_config = CompressConfig(CompressCriteria.fixed, max_bonddim=10 ** 4)
    a.compress(temp_m_trunc=list(limits))
    err = float(np.abs(S.dense(a) - v0).max())
    return err > 1e-10, {"to_right": to_right, "temp_m_trunc": limits, "bond_dims_after": [int(x) for x in a.bond_dims], "error": err,
                         "how": "vk.specs.chain.model_zoo('spinqn', 5), random_mps(seed 7), limits = exact Schmidt ranks, compress(temp_m_trunc=limits)"}


def replay_canonicalise(cex, locals_, ob):
    """native replay of a counter-model (site_num, qnidx, to_right, stop_idx) of the sweep contract on a real chain"""
    import numpy as np
    from vk.specs import chain as S
    me = cex.get("self") or {}
    n, to_right, stop = int(me.get("site_num", 0)), bool(me.get("to_right", True)), cex.get("stop_idx")
    if not (1 <= n <= 10):
        return False, f"site_num={n} outside the replay range 1..10"
    model, sectors = S.model_zoo("spinqn", n)
    a = S.random_mps(model, sectors[len(sectors) // 2], 4, np.random.default_rng(11))
    if a is None:
        return False, "no state"
    a.move_qnidx(0 if to_right else n - 1)
    a.to_right = to_right
    v0 = S.dense(a)
    start = a.qnidx
    try:
        a.canonicalise(stop_idx=stop) if stop is not None else a.canonicalise()
    except Exception as e:
        return True, {"site_num": n, "to_right": to_right, "stop_idx": stop, "raised": repr(e)}
    bad = []
    if np.abs(S.dense(a) - v0).max() > 1e-10:
        bad.append("dense changed")
    if stop is not None:
        if a.qnidx != stop:
            bad.append(f"qnidx={a.qnidx} != stop_idx")
        flip = stop != start and stop == (n - 1 if to_right else 0)
        if a.to_right != (to_right != flip):
            bad.append(f"to_right={a.to_right} after the sweep (flip expected: {flip})")
    elif n >= 2 and (a.to_right == to_right or a.qnidx != (n - 1 if to_right else 0)):
        bad.append(f"full sweep ended with qnidx={a.qnidx} to_right={a.to_right}")
    if S.qnv_violations(a):
        bad.append("labels invalid")
    return bool(bad), {"site_num": n, "to_right": to_right, "stop_idx": stop, "observed": bad, "qnidx_after": int(a.qnidx), "to_right_after": bool(a.to_right),
                       "how": "vk.specs.chain.model_zoo('spinqn', n), random_mps(seed 11), centre moved to the sweep start, canonicalise(stop_idx)"}
