"""C04 Canonicalisation and lossless compression preserve the represented object."""
from vk.symx.harness import guarded
import numpy as np

from vk.rtc.harness import run_cases
from vk.specs import dyn as Dn
from vk.specs import chain as S
from vk.specs import universe as U

LEVEL = "other"
TECHNIQUE = ("contract-based deductive verification of the sweep/centre discipline of canonicalise (pyvc VCs from the real source, loop invariant, "
             "call by contract for _push_cano, z3; all chain lengths and stop sites) + runtime contracts (dense preserved, isometry recomputed, "
             "bond bounds) on bounded gauge histories (bounded stand-in)")
TOL = 1e-10


def close(x, y):
    x, y = np.asarray(x), np.asarray(y)
    sc = max(1.0, float(np.abs(x).max()) if x.size else 0.0)
    return x.shape == y.shape and bool(np.all(np.abs(x - y) <= TOL * sc))


def build_states(model, sectors, rng, tier):
    """states reachable by arithmetic: sums (redundant bonds), rank-deficient sums, products (bond 1), operator-applied"""
    from renormalizer.mps import Mps, Mpo
    out = []
    sel = list(sectors)
    rng.shuffle(sel)
    for q in sel[:2 if tier == "quick" else 3]:
        a = U.make_state(model, q, 3, rng)
        b = U.make_state(model, q, 2, rng, complex_=rng.random() < 0.4)
        if a is None or b is None:
            continue
        out.append((f"random q={q}", a))
        out.append((f"a+b (redundant bonds) q={q}", a.add(b)))
        out.append((f"a+a (rank-deficient bonds) q={q}", a.add(a)))
        terms = U.random_terms(model, rng, 3)
        if terms and np.abs(U.dense_terms(model, terms)).max() > 1e-12:      # (a cancelling term list is rejected by the constructor: C01's domain)
            H = Mpo(model, terms)
            out.append((f"H@a q={q}", H.apply(a)))
            out.append((f"MPO H", H))
            out.append((f"MPO H+H", H.add(H)))
    try:
        out.append(("hartree product (all bonds 1)", Mps.hartree_product_state(model, {})))
    except Exception:
        pass
    return out


def exact_bound(dims, is_op):
    d = [x * x if is_op else x for x in dims]
    n = len(d)
    return [min(int(np.prod(d[:i])), int(np.prod(d[i:]))) for i in range(n + 1)]


def schmidt_ranks(v, dims, is_op):
    """exact Schmidt ranks of the dense vector / operator across every bond (independent of the chain representation)"""
    n = len(dims)
    if is_op:
        t = np.asarray(v).reshape(list(dims) + list(dims))
        t = t.transpose([x for i in range(n) for x in (i, n + i)]).reshape([d * d for d in dims])
    else:
        t = np.asarray(v).reshape(dims)
    sz = list(t.shape)
    out = []
    for k in range(1, n):
        sv = np.linalg.svd(t.reshape(int(np.prod(sz[:k])), -1), compute_uv=False)
        out.append(max(1, int(np.sum(sv > 1e-10 * max(sv[0], 1e-300)))))
    return out


def w_variational_long(case, led):
    """operator-times-state on an 8-site chain with a conserved number, bond-dimension-one guess, plain sweeps: the routine may only stop when its own convergence
    test is met, so its result is a fixed point of a further call (accuracy from such a start is not asserted, see worker)"""
    _, n, seed, tier = case
    from renormalizer.mps import Mpo
    from renormalizer.utils import CompressCriteria, CompressConfig
    rng = np.random.default_rng([seed, n, 414])
    model, terms, sectors = Dn.hamiltonian("spinqn", n, rng)
    H = Mpo(model, terms)
    for q in (sectors[len(sectors) // 2], sectors[len(sectors) // 2 - 1]):
        b = U.make_state(model, q, 4, rng, complex_=True)
        if b is None or np.linalg.norm(S.dense(H) @ S.dense(b)) < 1e-8:
            continue
        for proc_name, proc in (("plain", [[64, 0]] * 14), ("default", None)):
            cfg = CompressConfig(CompressCriteria.fixed, max_bonddim=64)
            cfg.vmethod, cfg.vguess_m, cfg.vrtol = "2site", (1, 1), 1e-8
            if proc:
                cfg.vprocedure = proc
            b2 = b.copy()
            b2.compress_config = cfg
            key = ("spinqn", n, seed, str(q), "variational-long", proc_name)
            rep = {"model": "spinqn", "nsites": n, "sector": q, "vmethod": "2site", "vguess_m": [1, 1], "vprocedure": proc_name, "vrtol": 1e-8, "seed": seed}
            try:
                r = b2.variational_compress(H)
                g = r.copy()
                g.compress_config = cfg
                r2 = b2.variational_compress(H, guess=g)
                d = np.linalg.norm(S.dense(r2) - S.dense(r)) / max(np.linalg.norm(S.dense(r)), 1e-300)
                led.check(d <= 1e-5, "post:MatrixProduct.variational_compress:result_is_a_fixed_point", "MatrixProduct.variational_compress",
                          f"a second call started from the result moves it by {d:.2e} (bonds {list(r.bond_dims)} -> {list(r2.bond_dims)})", key, {"vmethod": "2site", "start": "poor"}, rep)
            except (AssertionError, FloatingPointError, ZeroDivisionError):
                led.ok("skipped:MatrixProduct.variational_compress:zero_guess", "MatrixProduct.variational_compress", key + ("zero",), nontrivial=False)
            except Exception as e:
                led.check(False, "post:MatrixProduct.variational_compress:total", "MatrixProduct.variational_compress", f"raised {type(e).__name__}: {e}", key,
                          {"vmethod": "2site", "start": "poor"}, rep)


def scaled_isometry_defect(t, left):
    """|| G - c 1 || / c for the Gram matrix of the tensor grouped towards the centre (left: all but the last index -> last; right: first -> the rest)"""
    m = t.reshape(-1, t.shape[-1]) if left else t.reshape(t.shape[0], -1).T
    g = m.conj().T @ m
    c = float(np.trace(g).real) / max(1, g.shape[0])
    if c <= 1e-300:
        return float("inf")
    return float(np.abs(g - c * np.eye(g.shape[0])).max() / c)


def w_compressed_sum(case, led):
    """compressed_sum(list, temp_m_trunc=M) with M at least the ranks of the sum: the dense sum comes back unchanged - for one, two and several summands, whatever
    truncation rule the summands carry themselves (default: a 1e-3 relative threshold) and however small some components are"""
    _, name, n, seed, tier = case
    from renormalizer.mps.lib import compressed_sum
    rng = np.random.default_rng([seed, n, 416, sum(map(ord, name))])
    model, _terms, sectors = Dn.hamiltonian(name, n, rng)
    q = sectors[len(sectors) // 2]
    for k in (1, 2, 3, 6):
        for small in (1.0, 1e-5):
            parts = []
            for j in range(k):
                big, weak = U.make_state(model, q, 2, rng, complex_=bool(j % 2)), U.make_state(model, q, 3, rng)
                if big is None or weak is None:
                    break
                # every summand is itself "strong + small * weak": components far below the default threshold of the configs the summands carry
                parts.append(big.add(weak.scale(small)))
            if len(parts) != k:
                continue
            ref = sum(S.dense(p_) for p_ in parts)
            for limit in (64, [64] * (n + 1)):
                key = (name, n, seed, "compressed_sum", k, small, type(limit).__name__)
                rep = {"model": name, "nsites": n, "sector": q, "n_summands": k, "small_component": small, "temp_m_trunc": "64" if isinstance(limit, int) else "[64]*(n+1)", "seed": seed}
                try:
                    r = compressed_sum([p_.copy() for p_ in parts], temp_m_trunc=limit)
                except Exception as e:
                    led.check(False, "post:compressed_sum:total", "compressed_sum", f"raised {type(e).__name__}: {e}", key, {"n_summands": k}, rep)
                    continue
                err = float(np.linalg.norm(S.dense(r) - ref))
                led.check(err <= 1e-12 * max(1.0, float(np.linalg.norm(ref))), "post:compressed_sum:lossless_with_a_sufficient_limit", "compressed_sum",
                          f"{k} summand(s), components of relative size {small}: the sum changed by {err:.2e} although the limit (64) exceeds every rank", key, {"n_summands": k, "small": small}, rep)


def w_variational_wide_operator(case, led):
    """default start (guess=None: the routine compresses copies of operator and state to `vguess_m`) with an operator whose bonds exceed that start size: the
    result converges to the product, and neither the operator nor the state handed in is touched"""
    _, n, seed, tier = case
    from renormalizer.mps import Mpo
    from renormalizer.utils import CompressCriteria, CompressConfig
    rng = np.random.default_rng([seed, n, 415])
    model, _terms, sectors = Dn.hamiltonian("spinqn", n, rng)
    terms = U.random_terms(model, rng, 14, max_sites=3)
    if not terms:
        return
    H = Mpo(model, terms)
    Hd, Hb = S.dense(H).copy(), list(H.bond_dims)
    for q in (sectors[len(sectors) // 2],):
        b = U.make_state(model, q, 4, rng, complex_=bool(seed % 2))
        if b is None or np.linalg.norm(Hd @ S.dense(b)) < 1e-8:
            continue
        bd = S.dense(b).copy()
        ref = Hd @ bd
        for vmethod in ("2site", "1site"):
            b2 = b.copy()
            b2.compress_config = CompressConfig(CompressCriteria.fixed, max_bonddim=64, vmethod=vmethod)
            key = ("spinqn", n, seed, str(q), "variational-wide-operator", vmethod)
            rep = {"model": "spinqn", "nsites": n, "sector": q, "vmethod": vmethod, "seed": seed, "operator_bonds": Hb, "vguess_m": list(b2.compress_config.vguess_m),
                   "terms": [repr(t) for t in terms]}
            vf_ = {"vmethod": vmethod, "start": "default", "operator_wider_than_start": bool(max(Hb) > b2.compress_config.vguess_m[0])}
            try:
                r = b2.variational_compress(H)
            except Exception as e:
                led.check(False, "post:MatrixProduct.variational_compress:total", "MatrixProduct.variational_compress", f"raised {type(e).__name__}: {e}", key, vf_, rep)
                continue
            err = np.linalg.norm(S.dense(r) - ref) / np.linalg.norm(ref)
            if vmethod == "2site":
                led.check(err <= 10 * b2.compress_config.vrtol, "post:MatrixProduct.variational_compress:converges_to_product", "MatrixProduct.variational_compress",
                          f"relative error {err:.2e} > 10*vrtol with operator bonds {Hb}", key, vf_, rep)
            led.check(np.abs(S.dense(H) - Hd).max() <= 1e-12 * max(1.0, np.abs(Hd).max()) and list(H.bond_dims) == Hb, "frame:MatrixProduct.variational_compress:operator",
                      "MatrixProduct.variational_compress", f"the operator handed in changed by {np.abs(S.dense(H) - Hd).max():.2e}, its bonds went {Hb} -> {list(H.bond_dims)}",
                      key + ("frame-op",), vf_, rep)
            led.check(np.abs(S.dense(b2) - bd).max() <= 1e-12, "frame:MatrixProduct.variational_compress:input", "MatrixProduct.variational_compress", "input state changed",
                      key + ("frame",), vf_, rep)


def worker(case, led):
    name, n, seed, tier = case
    rng = np.random.default_rng([seed, n, 404, sum(map(ord, name))])
    model, sectors = S.model_zoo(name, n)
    dims = [b.nbas for b in model.basis]
    fn = "MatrixProduct.canonicalise"
    for label, st0 in build_states(model, sectors, rng, tier):
        is_op = np.asarray(st0[0].array).ndim == 4
        v0 = S.dense(st0)
        if not np.all(np.isfinite(v0)) or np.abs(v0).max() == 0:
            continue
        for direction in (True, False):
            base = st0.copy()
            base.move_qnidx(0 if direction else n - 1)
            base.to_right = direction
            bd0 = list(base.bond_dims)
            key = (name, n, label, direction)
            rep = {"model": name, "nsites": n, "state": label, "to_right": direction, "bond_dims": bd0, "seed": seed,
                   "how": "state built by vk.props.C04.build_states; centre moved to the sweep start with move_qnidx"}
            fields = {"nsites": n, "operator": bool(is_op)}
            # ---- full sweep
            c1 = base.copy()
            try:
                c1.canonicalise()
            except Exception as e:
                led.check(False, f"post:{fn}:total", fn, f"canonicalise raised {type(e).__name__}: {e}", key + ("total",), fields, rep)
                continue
            led.check(close(S.dense(c1), v0), f"post:{fn}:dense_unchanged", fn, "represented object changed", key + ("dense",), fields, rep)
            v = S.qnv_violations(c1)
            led.check(not v and np.all(np.asarray(c1.qntot) == np.asarray(base.qntot)), f"post:{fn}:qn_valid_and_sector", fn,
                      f"labels/sector invalid: {v[:1]}", key + ("qnv",), fields, rep)
            bd1 = list(c1.bond_dims)
            led.check(all(x <= y for x, y in zip(bd1, bd0)), f"post:{fn}:no_bond_grows", fn, f"{bd0} -> {bd1}", key + ("grow",), fields, rep)
            if n >= 2:
                led.check(c1.to_right == (not direction) and c1.qnidx == (n - 1 if direction else 0), f"post:{fn}:centre_and_direction", fn,
                          f"after full sweep qnidx={c1.qnidx} to_right={c1.to_right}", key + ("meta",), fields, rep)
                if not is_op:
                    sites = range(0, n - 1) if direction else range(1, n)
                    defect = max((S.left_isometry_defect(np.asarray(c1[i].array)) if direction else S.right_isometry_defect(np.asarray(c1[i].array)))
                                 for i in sites)
                    led.check(defect <= 1e-9, f"post:{fn}:isometry_in_advertised_direction", fn, f"isometry defect {defect:.2e}",
                              key + ("iso",), fields, rep)
                else:
                    # operators / density operators: canonical tensors are isometries up to a common scalar (the sweep keeps the entries O(1))
                    sites = range(0, n - 1) if direction else range(1, n)
                    defect = max(scaled_isometry_defect(np.asarray(c1[i].array), direction) for i in sites)
                    led.check(defect <= 1e-9, f"post:{fn}:isometry_up_to_a_scalar_in_advertised_direction", fn, f"operator tensors: scaled isometry defect {defect:.2e}",
                              key + ("iso-op",), fields, rep)
            if n >= 2 and is_op:
                # the same metadata-versus-tensors situation for operators (products and sums of operators inherit the flags of their operands)
                for k in sorted({0, n - 1, n // 2}):
                    x = c1.copy()
                    t = np.array(np.asarray(x[k].array))
                    t[:, 0] = t[:, 0] * 3.0
                    x[k] = t
                    vx = S.dense(x)
                    ens, efn = ("ensure_left_canonical", "MatrixProduct.ensure_left_canonical") if direction else ("ensure_right_canonical", "MatrixProduct.ensure_right_canonical")
                    try:
                        y = getattr(x, ens)()
                    except Exception as e:
                        led.check(False, f"post:{efn}:total", efn, f"raised {type(e).__name__}: {e}", key + ("ens-op", k), fields, dict(rep, spoiled_site=k))
                        continue
                    sites = range(0, n - 1) if direction else range(1, n)
                    defect = max(scaled_isometry_defect(np.asarray(y[i].array), direction) for i in sites)
                    led.check(defect <= 1e-9 and close(S.dense(y), vx), f"post:{efn}:operator_canonical_whatever_site_was_spoiled", efn,
                              f"site {k} of a canonical operator replaced: after {ens} the scaled isometry defect is {defect:.2e} (or the operator changed)",
                              key + ("ens-op-iso", k), dict(fields, spoiled_site_is_end=bool(k in (0, n - 1))), dict(rep, spoiled_site=k))
            # ---- ensure_*_canonical on an object whose metadata says "canonical" but ONE site (any site, incl. the last / first) is no isometry any more
            #      (a one-site operator applied there, a tensor assigned): the result must be canonical in the advertised form and represent the same object
            if n >= 2 and not is_op:
                for k in sorted({0, n - 1, n // 2}):
                    x = c1.copy()                      # to_right sweep -> left-canonical form (qnidx n-1, to_right False), and vice versa
                    t = np.array(np.asarray(x[k].array))
                    t[:, 0, :] = t[:, 0, :] * 3.0      # same support, labels still valid, isometry of site k broken
                    x[k] = t
                    vx = S.dense(x)
                    ens, efn = ("ensure_left_canonical", "MatrixProduct.ensure_left_canonical") if direction else ("ensure_right_canonical", "MatrixProduct.ensure_right_canonical")
                    try:
                        y = getattr(x, ens)()
                    except Exception as e:
                        led.check(False, f"post:{efn}:total", efn, f"raised {type(e).__name__}: {e}", key + ("ens", k), fields, dict(rep, spoiled_site=k))
                        continue
                    sites = range(0, n - 1) if direction else range(1, n)
                    defect = max((S.left_isometry_defect(np.asarray(y[i].array)) if direction else S.right_isometry_defect(np.asarray(y[i].array))) for i in sites)
                    okm = (y.qnidx == n - 1 and not y.to_right) if direction else (y.qnidx == 0 and y.to_right)
                    led.check(defect <= 1e-9 and okm, f"post:{efn}:canonical_whatever_site_was_spoiled", efn,
                              f"site {k} of a {'left' if direction else 'right'}-canonical state replaced: after {ens} the isometry defect is {defect:.2e} (qnidx={y.qnidx}, to_right={y.to_right})",
                              key + ("ens-iso", k), dict(fields, spoiled_site_is_end=bool(k in (0, n - 1))), dict(rep, spoiled_site=k))
                    led.check(close(S.dense(y), vx) and not S.qnv_violations(y), f"post:{efn}:object_unchanged", efn, f"{ens} changed the represented object (site {k} spoiled)",
                              key + ("ens-dense", k), fields, dict(rep, spoiled_site=k))
            # ---- two opposite sweeps: bonds bounded by physical dimensions; idempotent
            c2 = c1.copy()
            c2.canonicalise()
            bd2 = list(c2.bond_dims)
            eb = exact_bound(dims, is_op)
            led.check(close(S.dense(c2), v0) and all(b <= e for b, e in zip(bd2, eb)), f"post:{fn}:two_sweeps_bounded_by_physical_dims", fn,
                      f"bond_dims {bd2} vs bound {eb} (or dense changed)", key + ("2sweeps",), fields, rep)
            c3 = c2.copy().canonicalise().canonicalise()
            led.check(close(S.dense(c3), v0) and list(c3.bond_dims) == bd2, f"post:{fn}:idempotent", fn,
                      f"bond dims {bd2} -> {list(c3.bond_dims)}", key + ("idem",), fields, rep)
            # ---- partial sweeps to every stop site (including the current centre)
            for stop in range(n):
                cp = base.copy()
                try:
                    cp.canonicalise(stop_idx=stop)
                except Exception as e:
                    led.check(False, f"post:{fn}:partial_total", fn, f"canonicalise(stop_idx={stop}) raised {type(e).__name__}: {e}",
                              key + ("stop", stop), dict(fields, stop_is_centre=bool(stop == base.qnidx)), dict(rep, stop_idx=stop))
                    continue
                ok = close(S.dense(cp), v0) and cp.qnidx == stop and not S.qnv_violations(cp)
                led.check(ok, f"post:{fn}:partial_stops_at_stop_idx", fn, f"stop_idx={stop}: qnidx={cp.qnidx}, dense/labels ok={close(S.dense(cp), v0)}",
                          key + ("stop", stop), fields, dict(rep, stop_idx=stop))
                if not is_op and n >= 2:
                    sites = range(0, stop) if direction else range(stop + 1, n)
                    defect = max([(S.left_isometry_defect(np.asarray(cp[i].array)) if direction else S.right_isometry_defect(np.asarray(cp[i].array)))
                                  for i in sites] + [0.0])
                    led.check(defect <= 1e-9, f"post:{fn}:partial_isometries", fn, f"stop_idx={stop} defect {defect:.2e}", key + ("stopiso", stop), fields,
                              dict(rep, stop_idx=stop))
            # ---- lossless compress
            if n >= 2:
                cc = c1.copy()
                from renormalizer.utils import CompressCriteria, CompressConfig
                cc.compress_config = CompressConfig(CompressCriteria.fixed, max_bonddim=10 ** 4)
                try:
                    cc.compress()
                    led.check(close(S.dense(cc), v0) and all(x <= y for x, y in zip(cc.bond_dims, bd1)) and not S.qnv_violations(cc),
                              "post:MatrixProduct.compress:lossless_preserves_object", "MatrixProduct.compress",
                              f"dense changed or bonds grew {bd1}->{list(cc.bond_dims)}", key + ("compress",), fields, rep)
                except Exception as e:
                    led.check(False, "post:MatrixProduct.compress:total", "MatrixProduct.compress", f"raised {e!r}", key + ("compress",), fields, rep)
                # per-bond limits (list form of temp_m_trunc) equal to the exact Schmidt ranks: lossless in both sweep directions, and tight
                ranks = schmidt_ranks(v0, dims, is_op)
                limits = [1] + ranks + [1]
                cl = c1.copy()
                cl.compress_config = CompressConfig(CompressCriteria.fixed, max_bonddim=10 ** 4)
                try:
                    for sweep in (1, 2):
                        cl.compress(temp_m_trunc=list(limits))
                        led.check(close(S.dense(cl), v0) and all(x <= y for x, y in zip(cl.bond_dims, limits)) and not S.qnv_violations(cl),
                                  "post:MatrixProduct.compress:per_bond_limits_at_schmidt_rank_lossless", "MatrixProduct.compress",
                                  f"sweep {sweep} ({'->' if not cl.to_right else '<-'} just done): limits {limits} gave bonds {list(cl.bond_dims)}, "
                                  f"error {np.abs(S.dense(cl) - v0).max():.2e}", key + ("compress-list", sweep), fields, dict(rep, temp_m_trunc=limits, sweep=sweep))
                except Exception as e:
                    led.check(False, "post:MatrixProduct.compress:total", "MatrixProduct.compress", f"list limits raised {e!r}", key + ("compress-list",), fields, rep)
            # ---- ensure_* from any centre
            for k in range(n):
                ce = st0.copy()
                ce.move_qnidx(k)
                for meth in ("ensure_left_canonical", "ensure_right_canonical"):
                    r = getattr(ce.copy(), meth)()
                    want_idx = n - 1 if meth.startswith("ensure_left") else 0
                    ok = close(S.dense(r), v0) and not S.qnv_violations(r) and r.qnidx == want_idx
                    led.check(ok, f"post:MatrixProduct.{meth}:object_preserved_and_centre", f"MatrixProduct.{meth}",
                              f"from centre {k}: qnidx={r.qnidx}", key + (meth, k), fields, dict(rep, centre=k))
    # ---- variational compression of operator-times-state with sufficient bond limit
    if n >= 2 and name in ("spinqn", "holstein", "spin"):
        from renormalizer.mps import Mpo
        from renormalizer.utils import CompressCriteria, CompressConfig
        q = sectors[len(sectors) // 2]
        a = U.make_state(model, q, 3, rng)
        terms = U.random_terms(model, rng, 3)
        if a is not None and terms and np.abs(U.dense_terms(model, terms)).max() > 1e-12:
            H = Mpo(model, terms)
            ref = S.dense(H) @ S.dense(a)
            # every combination of real / complex state and real / complex operator (the bra of the fit is the conjugate of the GUESS, whatever the dtype of the input)
            ac = U.make_state(model, q, 3, rng, complex_=True)
            terms_c = U.random_terms(model, rng, 3, complex_factors=True)
            Hc = Mpo(model, terms_c) if terms_c and np.abs(U.dense_terms(model, terms_c)).max() > 1e-12 else None
            combos = [("real", "real", a, H, terms)]
            if Hc is not None:
                combos.append(("real", "complex", a, Hc, terms_c))
            if ac is not None:
                combos.append(("complex", "real", ac, H, terms))
                if Hc is not None:
                    combos.append(("complex", "complex", ac, Hc, terms_c))
            for sdt, odt, a_, H_, terms_ in combos:
                ref = S.dense(H_) @ S.dense(a_)
                if np.linalg.norm(ref) <= 1e-8:
                    continue
                for vmethod in ("2site", "1site"):
                    a2 = a_.copy()
                    a2.compress_config = CompressConfig(CompressCriteria.fixed, max_bonddim=64, vmethod=vmethod)
                    key = (name, n, "variational", vmethod, sdt, odt)
                    rep = {"model": name, "nsites": n, "sector": q, "terms": [repr(t) for t in terms_], "vmethod": vmethod, "seed": seed, "state_dtype": sdt, "operator_dtype": odt}
                    vf_ = {"vmethod": vmethod, "state_dtype": sdt, "operator_dtype": odt}
                    try:
                        r = a2.variational_compress(H_)
                        err = np.linalg.norm(S.dense(r) - ref) / np.linalg.norm(ref)
                        bound = 10 * a2.compress_config.vrtol if vmethod == "2site" else None
                        if bound is not None:
                            led.check(err <= bound, "post:MatrixProduct.variational_compress:converges_to_product", "MatrixProduct.variational_compress",
                                      f"{sdt} state, {odt} operator: relative error {err:.2e} > 10*vrtol", key, vf_, rep)
                        led.check(np.allclose(S.dense(a2), S.dense(a_), atol=1e-12), "frame:MatrixProduct.variational_compress:input",
                                  "MatrixProduct.variational_compress", "input state changed", key + ("frame",), vf_, rep)
                    except Exception as e:
                        led.check(False, "post:MatrixProduct.variational_compress:total", "MatrixProduct.variational_compress",
                                  f"raised {type(e).__name__}: {e}", key, vf_, rep)
                if sdt == "real" and odt == "complex":
                    try:
                        rc = H_.contract(a_, algo="variational")
                        err = np.linalg.norm(S.dense(rc) - ref) / np.linalg.norm(ref)
                        led.check(err <= 1e-5, "post:Mpo.contract:variational_equals_product", "Mpo.contract", f"contract(algo='variational') of a complex operator with a real state: "
                                  f"relative error {err:.2e}", (name, n, "contract-variational", sdt, odt), {"state_dtype": sdt, "operator_dtype": odt},
                                  {"model": name, "nsites": n, "sector": q, "terms": [repr(t) for t in terms_], "seed": seed})
                    except Exception as e:
                        led.check(False, "post:Mpo.contract:total", "Mpo.contract", f"contract(algo='variational') raised {type(e).__name__}: {e}",
                                  (name, n, "contract-variational", sdt, odt), {}, {"model": name, "nsites": n, "seed": seed})
            if np.linalg.norm(S.dense(H) @ S.dense(a)) > 1e-8:
                # a deliberately poor start (bond-dimension-one guess): whatever the routine returns after its own convergence test
                # |new - old| / |new| < vrtol must be a fixed point of a further call started from it.  (Whether the fixed point is the global optimum depends on
                # the start: with vguess_m = (1, 1) the two-site fit can stay in the symmetry sectors of its guess also on the unchanged code, so accuracy is
                # asserted for the default start only - above.)
                b = U.make_state(model, q, 4, rng, complex_=True)
                if b is not None and np.linalg.norm(S.dense(H) @ S.dense(b)) > 1e-8:
                    cfg = CompressConfig(CompressCriteria.fixed, max_bonddim=64)
                    cfg.vmethod, cfg.vguess_m, cfg.vrtol = "2site", (1, 1), 1e-8
                    b2 = b.copy()
                    b2.compress_config = cfg
                    key = (name, n, "variational", "poor-start")
                    rep = {"model": name, "nsites": n, "sector": q, "terms": [repr(t) for t in terms], "vmethod": "2site", "vguess_m": [1, 1], "vrtol": 1e-8, "seed": seed}
                    try:
                        r = b2.variational_compress(H)
                        g = r.copy()
                        g.compress_config = cfg
                        r2 = b2.variational_compress(H, guess=g)
                        d = np.linalg.norm(S.dense(r2) - S.dense(r)) / max(np.linalg.norm(S.dense(r)), 1e-300)
                        led.check(d <= 1e-5, "post:MatrixProduct.variational_compress:result_is_a_fixed_point", "MatrixProduct.variational_compress",
                                  f"a second call started from the result moves it by {d:.2e} (bonds {list(r.bond_dims)} -> {list(r2.bond_dims)})", key + ("fixed-point",),
                                  {"vmethod": "2site", "start": "poor"}, rep)
                    except (AssertionError, FloatingPointError, ZeroDivisionError):
                        # the bond-dimension-one guess can be the zero state, which the library refuses (assertion in canonicalise / division by its norm)
                        led.ok("skipped:MatrixProduct.variational_compress:zero_guess", "MatrixProduct.variational_compress", key + ("zero",), nontrivial=False)
                    except Exception as e:
                        led.check(False, "post:MatrixProduct.variational_compress:total", "MatrixProduct.variational_compress",
                                  f"poor-start run raised {type(e).__name__}: {e}", key, {"vmethod": "2site", "start": "poor"}, rep)

def check(run):
    from props import C04_proof
    C04_proof.prove(run)
    C04_proof.prove_compress_slice(run)
    C04_proof.prove_canonical_checks(run)
    from props import C04_kernel
    guarded(run, C04_kernel.prove)
    # variational compression: every local update is the projection of O|psi> onto the current frames of the guess (Engine S, recorded at _update_mps)
    from props import C04_varcomp_sym
    guarded(run, C04_varcomp_sym.prove)
    seeds = [run.seed] if run.tier == "quick" else [run.seed, run.seed + 1]
    ns = [1, 2, 3, 4] if run.tier == "quick" else [1, 2, 3, 4, 5]
    cases = [(name, n, s, run.tier) for name in ("spin", "spinqn", "spin2qn", "holstein", "multi") for n in ns for s in seeds
             if not (name == "multi" and n < 2)]
    run_cases(run, worker, cases)
    run_cases(run, w_variational_long, [("vlong", 8, s, run.tier) for s in seeds] + ([("vlong", 7, s, run.tier) for s in seeds] if run.tier != "quick" else []))
    run_cases(run, w_compressed_sum, [("csum", name_, n_, s, run.tier) for s in seeds for name_, n_ in (("spinqn", 5), ("holstein", 3), ("spin", 4))])
    run_cases(run, w_variational_wide_operator, [("vwide", 7, s, run.tier) for s in seeds] + ([("vwide", 8, s, run.tier) for s in seeds] if run.tier != "quick" else []))
    run.rule = ("states reachable by arithmetic {random, sums with redundant / rank-deficient bonds, H@a, product state, MPOs and MPO sums} x 1..4(5) sites "
                "x both sweep directions x {full sweep, two sweeps, idempotence, every stop site incl. the current centre, lossless compress, "
                "ensure_left/right from every centre, variational compression}; distinct = (model,size,state,direction,clause)")
    run.sample({"model": "holstein", "nsites": 4, "state": "a+a (rank-deficient bonds)", "to_right": True,
                "contract": "dense unchanged, sites 0..n-2 left isometries, bonds not grown, qnidx=n-1, to_right flipped"})
    run.explanation = ("Proved for all chain lengths and stop sites (pyvc/z3, from the current source): canonicalise never reads the loop variable of an empty "
                       "sweep, ends with the centre at the stop site / far end, flips the direction exactly when the far end is reached, and keeps the dense "
                       "object given the callee contract of _push_cano. The numeric clauses (dense preserved, isometry, bond bounds, lossless compress, "
                       "variational compression) are runtime contracts on bounded inputs, never counted as proved.")
    run.trusted += ["independent dense contraction and recomputed Gram matrices as oracles"]
