"""Engine S part of C11: the real TTNS/TTNO methods run on symbolic tensors for every rooted ordered tree shape of the universe."""
import numpy as np

from vk.specs import tree as T
from vk.specs import treeuniv as TU
from vk.symx import shims as SH
from vk.symx.harness import decide, decide_true, native_cond, native_pair
from vk.symx.poly import Poly, VarFactory


def vdot(x, y):
    tot = Poly()
    for a, b in zip(np.asarray(x, dtype=object).reshape(-1), np.asarray(y, dtype=object).reshape(-1)):
        tot = tot + Poly.coerce(a).conjugate() * b
    return tot


def rdm_ref(v, dims, sites):
    """partial trace of |v><v| over all but `sites` (exact, object arrays)"""
    k = len(sites)
    m = np.moveaxis(np.asarray(v, dtype=object).reshape(dims), sites, list(range(k))).reshape(int(np.prod([dims[s] for s in sites])), -1)
    mc = np.array([[Poly.coerce(x).conjugate() for x in row] for row in m], dtype=object)
    return m.dot(mc.T)


def complexify(ttns, rng):
    """float copy with random phases on the non-zero entries (same zero pattern, hence same labels)"""
    c = ttns.to_complex()
    for node in c.node_list:
        t = np.asarray(node.tensor)
        ph = np.exp(2j * np.pi * rng.random(t.shape))
        node.tensor = t * ph
    return c


def prove(run, only=None):
    """only: substring filter on the kernel-stub operations (e.g. 'limit', 'update'); the no-stub identities are skipped then (used by C05 / C12 / C08)"""
    nmax = 4 if run.tier == "quick" else 5
    ncase = 0
    for n_nodes in range(2, nmax + 1):
        for flavour in ("spinqn", "holstein"):
            # the payload generator is seeded; every shape index is visited by varying the seed until all shapes of this size were seen
            seen = set()
            shapes = T.tree_shapes(n_nodes)
            seed = run.seed * 1000
            tries = 0
            while len(seen) < len(shapes) and tries < 40 * len(shapes):
                tries += 1
                seed += 1
                su = TU.setup(seed, n_nodes, flavour, max_dim=150)
                if su is None or su["shape"] in seen:
                    continue
                bt, order, H, sectors, rng = su["bt"], su["order"], su["H"], su["sectors"], su["rng"]
                q = sectors[len(sectors) // 2]
                a0 = TU.random_ttns(bt, q, 2, rng)
                b0 = TU.random_ttns(bt, q, 2, rng)
                if a0 is None or b0 is None:
                    continue
                seen.add(su["shape"])
                ncase += 1
                dims = [b.nbas for b in order]
                vf = VarFactory()
                a = SH.symbolic_ttns(a0, vf)
                b = SH.symbolic_ttns(b0, vf)
                Hs = SH.const_ttno(H)
                case = dict(TU.describe_tree(bt), flavour=flavour, seed=seed, shape=repr(su["shape"]), sector=q, variables=vf.n)
                tag = f"{flavour}:{su['shape']!r}"
                nb = len(order)

                class KS:   # exact helpers
                    vdot = staticmethod(vdot)
                    rdm = staticmethod(rdm_ref)

                    @staticmethod
                    def real_if_real(x):
                        return x if x.imag else x.real

                class KN:   # float helpers for the native replay
                    vdot = staticmethod(lambda x, y: np.vdot(x, y))

                    @staticmethod
                    def rdm(v, dims_, sites):
                        k = len(sites)
                        m = np.moveaxis(np.asarray(v).reshape(dims_), sites, list(range(k))).reshape(int(np.prod([dims_[s_] for s_ in sites])), -1)
                        return m @ m.conj().T

                    @staticmethod
                    def real_if_real(x):
                        return x

                def dn(x):
                    return T.dense_ttns(x, order)
                # every identity is a function of (a, b, H, K): evaluated exactly on the symbolic tensors, and - when refuted - natively on float tensors
                idents = [
                    ("post:TTNS.todense:independent_contraction", "TTNS.todense", lambda a_, b_, H_, K: (np.asarray(a_.todense(order)).ravel(), dn(a_))),
                    ("post:TTNS.add:dense_sum", "TTNS.add", lambda a_, b_, H_, K: (dn(a_.add(b_)), dn(a_) + dn(b_))),
                    ("frame:TTNS.add:operands", "TTNS.add", lambda a_, b_, H_, K: (lambda va_, vb_, c_: (np.concatenate([dn(a_), dn(b_)]), np.concatenate([va_, vb_])))(dn(a_), dn(b_), a_.add(b_))),
                    ("post:TTNS.scale:dense_scale", "TTNS.scale", lambda a_, b_, H_, K: (dn(a_.scale(-0.5)), dn(a_) * (-0.5))),
                    ("frame:TTNS.scale:operand", "TTNS.scale", lambda a_, b_, H_, K: (lambda va_, c_: (dn(a_), va_))(dn(a_), a_.scale(-0.5))),
                    ("post:TTNS.copy:mutating_the_copy_leaves_the_original", "TTNS.copy", lambda a_, b_, H_, K: (lambda va_, c_: (dn(a_), va_))(dn(a_), a_.copy().scale(3, inplace=True))),
                    ("post:TTNO.apply:dense_product", "TTNO.apply", lambda a_, b_, H_, K: (dn(H_.apply(a_)), T.dense_ttno(H_, order).dot(dn(a_)))),
                    ("frame:TTNO.apply:operand", "TTNO.apply", lambda a_, b_, H_, K: (lambda va_, c_: (dn(a_), va_))(dn(a_), H_.apply(a_))),
                    ("post:TTNS.expectation:sesquilinear_form", "TTNS.expectation",
                     lambda a_, b_, H_, K: (a_.expectation(H_), K.real_if_real(K.vdot(dn(a_), T.dense_ttno(H_, order).dot(dn(a_)))))),
                ]
                for bi in range(nb):
                    idents.append((f"post:TTNS.calc_1dof_rdm:partial_trace[{bi}]", "TTNS.calc_1dof_rdm",
                                   (lambda bi_: lambda a_, b_, H_, K: (np.asarray(a_.calc_1dof_rdm()[order[bi_].dofs[0]]), K.rdm(dn(a_), dims, [bi_])))(bi)))
                # site and pair RDMs (polynomial in the tensors: exact), in the order of the key: ket indices of the first site / dof, then of the second, then the bra indices
                phys = [ni for ni, node in enumerate(bt.node_list) if any(type(bb).__name__ != "BasisDummy" for bb in node.basis_sets)]

                def nsites(ni):
                    return [order.index(bb) for bb in bt.node_list[ni].basis_sets if type(bb).__name__ != "BasisDummy"]

                def flat_rdm(x, d):
                    return np.asarray(x, dtype=object).reshape(d, d) if not isinstance(x, np.ndarray) or x.dtype == object else np.asarray(x).reshape(d, d)
                for ni in phys:
                    d_ = int(np.prod([dims[s_] for s_ in nsites(ni)]))
                    idents.append((f"post:TTNS.calc_1site_rdm:partial_trace[node{ni}]", "TTNS.calc_1site_rdm",
                                   (lambda ni_, d__: lambda a_, b_, H_, K: (flat_rdm(a_.calc_1site_rdm(ni_)[ni_], d__), K.rdm(dn(a_), dims, nsites(ni_))))(ni, d_)))
                npairs = [(i_, j_) for i_ in phys for j_ in phys if i_ != j_]
                npairs = npairs[:3] + npairs[-2:] if len(npairs) > 5 else npairs
                for (i_, j_) in dict.fromkeys(npairs):
                    d_ = int(np.prod([dims[s_] for s_ in nsites(i_) + nsites(j_)]))
                    idents.append((f"post:TTNS.calc_2site_rdm:partial_trace[nodes{i_},{j_}]", "TTNS.calc_2site_rdm",
                                   (lambda i__, j__, d__: lambda a_, b_, H_, K: (flat_rdm(a_.calc_2site_rdm((i__, j__))[(i__, j__)], d__),
                                                                                K.rdm(dn(a_), dims, nsites(i__) + nsites(j__))))(i_, j_, d_)))
                dpairs = [(i_, j_) for i_ in range(nb) for j_ in range(nb) if i_ != j_]
                dpairs = dpairs[:3] + dpairs[-2:] if len(dpairs) > 5 else dpairs
                for (i_, j_) in dict.fromkeys(dpairs):
                    d_ = dims[i_] * dims[j_]
                    idents.append((f"post:TTNS.calc_2dof_rdm:partial_trace[dofs{i_},{j_}]", "TTNS.calc_2dof_rdm",
                                   (lambda i__, j__, d__: lambda a_, b_, H_, K: (flat_rdm(a_.calc_2dof_rdm((order[i__].dofs[0], order[j__].dofs[0]))[(order[i__].dofs[0], order[j__].dofs[0])], d__),
                                                                                K.rdm(dn(a_), dims, [i__, j__])))(i_, j_, d_)))
                a0c, b0c = complexify(a0, rng), complexify(b0, rng)

                def native(fun):
                    def f():
                        lhs, rhs = fun(a0c.copy(), b0c.copy(), H, KN)
                        lhs, rhs = np.asarray(lhs, dtype=complex), np.asarray(rhs, dtype=complex)
                        err = float(np.abs(lhs - rhs).max()) if lhs.shape == rhs.shape else float("inf")
                        return err > 1e-9 * max(1.0, float(np.abs(rhs).max())), {
                            "numeric_error_on_random_complex_values": err,
                            "how": "vk.specs.treeuniv.setup(seed, n_nodes, flavour) rebuilds the tree and H; the states are TU.random_ttns(bt, q, 2, rng) x2 with random "
                                   "phases (props.C11_sym.complexify); the identity is evaluated on the real float code"}
                    return f
                with SH.symbolic_mode_tree():
                    for oid, fn, fun in (idents if only is None else []):
                        try:
                            lhs, rhs = fun(a, b, Hs, KS)
                        except Exception as ex:
                            decide_true(run, f"{oid}:total@{tag}", fn, False, f"the code under test raised on symbolic tensors: {type(ex).__name__}: {ex}", case)
                            continue
                        decide(run, f"{oid}@{tag}", fn, np.asarray(lhs, dtype=object) if not isinstance(lhs, Poly) else lhs,
                               np.asarray(rhs, dtype=object) if not isinstance(rhs, Poly) else rhs, case, numeric_replay=native(fun))
                    if only is None:
                        try:
                            c = a.add(b)
                            decide_true(run, f"post:TTNS.add:qn_valid@{tag}", "TTNS.add", not T.qnv_tree_violations(c), f"{T.qnv_tree_violations(c)[:1]}", case,
                                        numeric_replay=native_cond(lambda: (lambda v_: (not v_, v_[:1]))(T.qnv_tree_violations(a0c.copy().add(b0c.copy()))), "as for the identities of this case"))
                            r = Hs.apply(a)
                            decide_true(run, f"post:TTNO.apply:qn_valid@{tag}", "TTNO.apply", not T.qnv_tree_violations(r), f"{T.qnv_tree_violations(r)[:1]}", case,
                                        numeric_replay=native_cond(lambda: (lambda v_: (not v_, v_[:1]))(T.qnv_tree_violations(H.apply(a0c.copy()))), "as for the identities of this case"))
                            a.expectation(Hs)
                            decide_true(run, f"frame:TTNS.expectation:roots_restored@{tag}", "TTNS.expectation",
                                        a.root.parent is None and Hs.root.parent is None and bt.root.parent is None, "a temporary parent is still attached to a root", case,
                                        numeric_replay=native_cond(lambda: (lambda x: (x.expectation(H), (x.root.parent is None and H.root.parent is None and bt.root.parent is None, "parents"))[1])(a0c.copy()),
                                                                   "as for the identities of this case"))
                        except Exception as ex:
                            decide_true(run, f"post:TTNS:total@{tag}", "TTNS (symbolic run)", False, f"the code under test raised on symbolic tensors: {type(ex).__name__}: {ex}", case)
                # ---- kernel-stub mode: gauge moves and lossless compression around trivially factorised blocks (bookkeeping for all tensor values)
                from renormalizer.utils import CompressConfig, CompressCriteria
                big = CompressConfig(CompressCriteria.fixed, max_bonddim=10 ** 4)

                def lossless(x):
                    x.canonicalise()
                    x.compress_config = big
                    x.compress()
                    return x

                def push_round_trip(x):
                    x.canonicalise()
                    for node in list(x.node_list):
                        if node.parent is not None and not node.children:
                            x.push_cano_to_child(node.parent, node.parent.children.index(node))
                            x.push_cano_to_parent(node)
                    return x
                def lossless_list(x):
                    x.canonicalise()
                    x.compress(temp_m_trunc=[int(d) for d in x.bond_dims])      # entry i limits the bond above node i: nothing to cut
                    return x
                def two_site_updates(percent):
                    # renormalised-basis update of the two-site schemes (optimize_2site, tdvp_ps2) on every (node, parent) pair, centre kept on either side
                    def f(x):
                        # (full factorisations let every updated bond grow to its complete size: one pass, the side keeping the centre alternates)
                        for i in range(1, len(x.node_list)):
                            node = x.node_list[i]
                            if node.parent is None:
                                continue
                            x.update_2site(node, x.merge_with_parent(node), m=10 ** 4, percent=percent, cano_parent=(i + (1 if percent else 0)) % 2 == 0)
                        return x
                    return f
                def two_site_updates_probe(x):
                    # per-node limits (compress_config.max_dims): 1 everywhere except at the node whose bond is being cut - nothing is lost iff update_2site reads that entry
                    for i in range(1, len(x.node_list)):
                        node = x.node_list[i]
                        if node.parent is None:
                            continue
                        cfg = CompressConfig(CompressCriteria.fixed, max_bonddim=1)
                        lim = np.ones(len(x.node_list) + 1, dtype=int)
                        lim[x.node_idx[node]] = 10 ** 4
                        cfg.max_dims = lim
                        x.compress_config = cfg
                        x.update_2site(node, x.merge_with_parent(node), percent=0, cano_parent=(i % 2 == 0))
                    return x

                def lossless_config_list(x):
                    x.canonicalise()
                    cfg = CompressConfig(CompressCriteria.fixed, max_bonddim=1)
                    cfg.max_dims = np.array([int(d) for d in x.bond_dims] + [1], dtype=int)      # entry i limits the bond above node i
                    x.compress_config = cfg
                    x.compress()
                    return x
                kops = [("canonicalise", "TTNS.canonicalise", lambda x: (x.canonicalise(), x)[1]), ("lossless_compress", "TTNS.compress", lossless),
                        ("two_site_update_limit_only_on_the_cut_bond", "TTNS.update_2site", two_site_updates_probe),
                        ("compress_with_configured_per_bond_limits_of_current_dims", "TTNS.compress", lossless_config_list),
                        ("two_site_update_of_every_bond", "TTNS.update_2site", two_site_updates(0)),
                        ("two_site_update_of_every_bond_with_sector_perturbation", "TTNS.update_2site", two_site_updates(0.5)),
                        ("compress_with_per_bond_list_of_current_dims", "TTNS.compress", lossless_list),
                        ("push_centre_to_leaf_and_back", "TTNS.push_cano_to_child", push_round_trip),
                        ("sum_then_canonicalise", "TTNS.canonicalise", None)]
                with SH.kernel_stub_mode_tree():
                    va = dn(a)
                    for opname, fn, f in kops:
                        if only is not None and not any(o in opname for o in only):
                            continue
                        if f is None:
                            nat = native_pair(lambda: (lambda c_: (dn((c_.canonicalise(), c_)[1]), dn(a0c) + dn(b0c)))(a0c.copy().add(b0c.copy())), "as for the identities of this case")
                        else:
                            nat = native_pair((lambda f_: lambda: (dn(f_(a0c.copy())), dn(a0c)))(f), "as for the identities of this case; real LAPACK kernels")
                        try:
                            if f is None:
                                c = a.add(b)
                                ref_ = dn(c)
                                c.canonicalise()
                            else:
                                c = f(a.copy())
                                ref_ = va
                        except Exception as ex:
                            decide_true(run, f"post:{fn}:{opname}:total@{tag}", fn, False, f"raised on symbolic tensors with stubbed kernels: {type(ex).__name__}: {ex}", case,
                                        numeric_replay=nat)
                            continue
                        decide(run, f"post:{fn}:{opname}:object_unchanged@{tag}", fn, dn(c), ref_, case, numeric_replay=nat)
                        decide_true(run, f"post:{fn}:{opname}:labels_valid@{tag}", fn, not T.qnv_tree_violations(c), f"{T.qnv_tree_violations(c)[:1]}", case)
    run.extra.setdefault("symx", {})["C11"] = {"tree_cases": ncase, "shims": SH.TREE_SHIMS, "kernel_stubs": SH.KERNEL_STUBS,
                                               "shape_universe": f"every rooted ordered tree shape with 2..{nmax} nodes x {{spin+qn, electron-phonon}} payloads "
                                                                 "(1-2 basis sets per node, dummy nodes), bond dimension <= 2, one sector; all tensor entries allowed "
                                                                 "by the labels are independent complex indeterminates"}
