"""Engine S part of C11: the real TTNS/TTNO methods run on symbolic tensors for every rooted ordered tree shape of the universe."""
import numpy as np

from vk.specs import tree as T
from vk.specs import treeuniv as TU
from vk.symx import shims as SH
from vk.symx.harness import decide, decide_true
from vk.symx.poly import Poly, VarFactory


def vdot(x, y):
    tot = Poly()
    for a, b in zip(np.asarray(x, dtype=object).reshape(-1), np.asarray(y, dtype=object).reshape(-1)):
        tot = tot + Poly.coerce(a).conjugate() * b
    return tot


def rdm_ref(v, dims, sites):
    """partial trace of |v><v| over all but `sites` (exact, object arrays)"""
    k = len(sites)
    m = np.moveaxis(np.asarray(v, dtype=object).reshape(dims), sites, list(range(k))).reshape(int(np.prod([dims[s] for s in sites])), -1)
    mc = np.array([[Poly.coerce(x).conjugate() for x in row] for row in m], dtype=object)
    return m.dot(mc.T)


def prove(run):
    nmax = 4 if run.tier == "quick" else 5
    ncase = 0
    for n_nodes in range(2, nmax + 1):
        for flavour in ("spinqn", "holstein"):
            # the payload generator is seeded; every shape index is visited by varying the seed until all shapes of this size were seen
            seen = set()
            shapes = T.tree_shapes(n_nodes)
            seed = run.seed * 1000
            tries = 0
            while len(seen) < len(shapes) and tries < 40 * len(shapes):
                tries += 1
                seed += 1
                su = TU.setup(seed, n_nodes, flavour, max_dim=150)
                if su is None or su["shape"] in seen:
                    continue
                bt, order, H, sectors, rng = su["bt"], su["order"], su["H"], su["sectors"], su["rng"]
                q = sectors[len(sectors) // 2]
                a0 = TU.random_ttns(bt, q, 2, rng)
                b0 = TU.random_ttns(bt, q, 2, rng)
                if a0 is None or b0 is None:
                    continue
                seen.add(su["shape"])
                ncase += 1
                dims = [b.nbas for b in order]
                vf = VarFactory()
                a = SH.symbolic_ttns(a0, vf)
                b = SH.symbolic_ttns(b0, vf)
                Hs = SH.const_ttno(H)
                case = dict(TU.describe_tree(bt), flavour=flavour, seed=seed, shape=repr(su["shape"]), sector=q, variables=vf.n)
                tag = f"{flavour}:{su['shape']!r}"
                with SH.symbolic_mode_tree():
                    try:
                        va, vb = T.dense_ttns(a, order), T.dense_ttns(b, order)
                        decide(run, f"post:TTNS.todense:independent_contraction@{tag}", "TTNS.todense", np.asarray(a.todense(order), dtype=object).ravel(), va, case)
                        c = a.add(b)
                        decide(run, f"post:TTNS.add:dense_sum@{tag}", "TTNS.add", T.dense_ttns(c, order), va + vb, case)
                        decide_true(run, f"post:TTNS.add:qn_valid@{tag}", "TTNS.add", not T.qnv_tree_violations(c), f"{T.qnv_tree_violations(c)[:1]}", case)
                        decide(run, f"frame:TTNS.add:operands@{tag}", "TTNS.add", np.concatenate([T.dense_ttns(a, order), T.dense_ttns(b, order)]), np.concatenate([va, vb]), case)
                        decide(run, f"post:TTNS.scale:dense_scale@{tag}", "TTNS.scale", T.dense_ttns(a.scale(-0.5), order), va * (-0.5), case)
                        Hdd = T.dense_ttno(Hs, order)
                        r = Hs.apply(a)
                        decide(run, f"post:TTNO.apply:dense_product@{tag}", "TTNO.apply", T.dense_ttns(r, order), Hdd.dot(va), case)
                        decide_true(run, f"post:TTNO.apply:qn_valid@{tag}", "TTNO.apply", not T.qnv_tree_violations(r), f"{T.qnv_tree_violations(r)[:1]}", case)
                        e = a.expectation(Hs)
                        full = vdot(va, Hdd.dot(va))
                        decide(run, f"post:TTNS.expectation:sesquilinear_form@{tag}", "TTNS.expectation", e, full if full.imag else full.real, case)
                        decide_true(run, f"frame:TTNS.expectation:roots_restored@{tag}", "TTNS.expectation",
                                    a.root.parent is None and Hs.root.parent is None and bt.root.parent is None, "a temporary parent is still attached to a root", case)
                        r1 = a.calc_1dof_rdm()
                        for bi, bb in enumerate(order):
                            decide(run, f"post:TTNS.calc_1dof_rdm:partial_trace[{bi}]@{tag}", "TTNS.calc_1dof_rdm", np.asarray(r1[bb.dofs[0]], dtype=object), rdm_ref(va, dims, [bi]), case)
                    except Exception as ex:
                        decide_true(run, f"post:TTNS:total@{tag}", "TTNS (symbolic run)", False, f"the code under test raised on symbolic tensors: {type(ex).__name__}: {ex}", case)
    run.extra.setdefault("symx", {})["C11"] = {"tree_cases": ncase, "shims": SH.TREE_SHIMS,
                                               "shape_universe": f"every rooted ordered tree shape with 2..{nmax} nodes x {{spin+qn, electron-phonon}} payloads "
                                                                 "(1-2 basis sets per node, dummy nodes), bond dimension <= 2, one sector; all tensor entries allowed "
                                                                 "by the labels are independent complex indeterminates"}
