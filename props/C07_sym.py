"""Engine S part of C07: expectation / expectations (cached fast path) / RDMs on symbolic states."""
import itertools

import numpy as np

from vk.specs import chain as S
from vk.specs import universe as U
from vk.specs import dyn as Dn
from vk.symx import shims as SH
from vk.symx.harness import decide, decide_true, native_pair
from vk.symx.poly import Poly, VarFactory, lift_array


def vdot(x, y):
    tot = Poly()
    for a, b in zip(np.asarray(x, dtype=object).reshape(-1), np.asarray(y, dtype=object).reshape(-1)):
        tot = tot + Poly.coerce(a).conjugate() * b
    return tot


def ptrace(dense, dims, sites, is_dm):
    """Tr over everything but the physical legs of `sites` of |psi><psi| (vector) or A A^+ (operator A[(p..), (a..)]); exact on Poly entries"""
    k = len(sites)
    t = np.asarray(dense, dtype=object if np.asarray(dense).dtype == object else None).reshape(list(dims) + (list(dims) if is_dm else []))
    m = np.moveaxis(t, sites, list(range(k))).reshape(int(np.prod([dims[s] for s in sites])), -1)
    if m.dtype == object:
        mc = np.vectorize(lambda x: Poly.coerce(x).conjugate(), otypes=[object])(m)
        return m.dot(mc.T)
    return m @ m.conj().T


def conv(e):
    """documented return convention of expectation(): real part when the imaginary part vanishes"""
    e = Poly.coerce(e)
    return e if e.imag else e.real


def prove(run):
    from props.C07 import product_ops
    from renormalizer.mps import Mpo
    shapes = [("spin", 2), ("spin", 3), ("spinqn", 3), ("holstein", 3)] if run.tier == "quick" else \
             [("spin", 2), ("spin", 3), ("spin", 4), ("spinqn", 3), ("spinqn", 4), ("holstein", 3), ("holstein", 4), ("spin2qn", 3)]
    nlists = 0
    for name, n in shapes:
        rng = np.random.default_rng([run.seed, n, 717, sum(map(ord, name))])
        model, terms, sectors = Dn.hamiltonian(name, n, rng)
        dims = [b.nbas for b in model.basis]
        ops = product_ops(model, rng, 6)
        mpos = [Mpo(model, o) for o in ops]
        # reference operators are contracted EXACTLY from the MPO site tensors (that the tensors represent the intended operator is C01)
        with SH.symbolic_mode():
            dens = [S.dense(SH.numeric_to_symbolic_const(m)) for m in mpos]
        q = sectors[len(sectors) // 2]
        a0 = U.make_state(model, q, 3, rng)
        b0 = U.make_state(model, q, 2, rng)
        if a0 is None or b0 is None:
            continue
        for gauge in ("fresh", "center"):
            at = S.apply_gauge(a0, gauge, 0)
            vf = VarFactory()
            a = SH.symbolic_state(at, vf)
            phi = SH.symbolic_state(b0, vf)
            case = {"model": name, "nsites": n, "sector": q, "gauge": gauge, "bond_dims": list(at.bond_dims), "ops": [repr(o) for o in ops]}
            atc, phic = S.complexify(at, rng), S.complexify(b0, rng)
            vn, wn = S.dense(atc), S.dense(phic)
            dn_ = [S.dense(m) for m in mpos]
            how = ("props.C07_sym: model/ops from Dn.hamiltonian + props.C07.product_ops with rng [seed, n, 717, name]; state = U.make_state(...) in the gauge, "
                   "entries multiplied by random phases (vk.specs.chain.complexify); the identity is evaluated on the real float code")
            tag = f"{name}{n}:{gauge}"
            with SH.symbolic_mode():
                v, w = S.dense(a), S.dense(phi)
                singles = []
                for k, (m, d) in enumerate(zip(mpos, dens)):
                    e = a.expectation(m)
                    singles.append(e)
                    decide(run, f"post:Mps.expectation:sesquilinear_form[{k}]@{tag}", "Mps.expectation", e, conv(vdot(v, d.dot(v))), case,
                           numeric_replay=native_pair((lambda k_: lambda: (atc.expectation(mpos[k_]), np.vdot(vn, dn_[k_] @ vn)))(k), how))
                    t = a.expectation(m, self_conj=phi.conj())
                    decide(run, f"post:Mps.expectation:transition_amplitude[{k}]@{tag}", "Mps.expectation", t, conv(vdot(w, d.dot(v))), case,
                           numeric_replay=native_pair((lambda k_: lambda: (atc.expectation(mpos[k_], self_conj=phic.conj()), np.vdot(wn, dn_[k_] @ vn)))(k), how))
                # batched fast path: all ordered pairs + structured longer lists (shared prefixes / suffixes / repeats)
                lists = [list(p) for p in itertools.product(range(len(mpos)), repeat=2)]
                lists += [[0, 1, 0], [2, 2, 2], list(range(len(mpos))), list(range(len(mpos)))[::-1], [1, 3, 1, 4], [5, 0, 5, 0]]
                if run.tier == "quick":
                    lists = lists[::3] + lists[-6:]
                for lst in lists:
                    nlists += 1
                    nat = native_pair((lambda l_: lambda: (atc.expectations([mpos[i] for i in l_], opt=True), [np.vdot(vn, dn_[i] @ vn) for i in l_]))(list(lst)), how)
                    try:
                        fast = a.expectations([mpos[i] for i in lst], opt=True)
                    except Exception as e:     # the code under test raised on symbolic tensors: a violated totality clause, not a checker error
                        decide_true(run, f"post:Mps.expectations:total{lst}@{tag}", "Mps.expectations", False,
                                    f"expectations(list, opt=True) raised {type(e).__name__}: {e}", dict(case, list=lst), fields={"list": lst}, numeric_replay=nat)
                        continue
                    slow = np.array([Poly.coerce(singles[i]) for i in lst], dtype=object)
                    # batch convention: real parts iff ALL imaginary parts vanish
                    full = [vdot(v, dens[i].dot(v)) for i in lst]
                    allreal = all(not f.imag for f in full)
                    ref = np.array([f.real if allreal else f for f in full], dtype=object)
                    decide(run, f"post:Mps.expectations:fast_path_is_dense_form{lst}@{tag}", "Mps.expectations", np.asarray(fast, dtype=object), ref, case,
                           fields={"list": lst}, numeric_replay=nat)
                lst = [0, 2, 0, 1]
                try:
                    fast = a.expectations([mpos[i] for i in lst], self_conj=phi.conj(), opt=True)
                    full = [vdot(w, dens[i].dot(v)) for i in lst]
                    allreal = all(not f.imag for f in full)
                    decide(run, f"post:Mps.expectations:transition_amplitudes{lst}@{tag}", "Mps.expectations", np.asarray(fast, dtype=object),
                           np.array([f.real if allreal else f for f in full], dtype=object), case)
                except Exception as e:
                    decide_true(run, f"post:Mps.expectations:total{lst}@{tag}", "Mps.expectations", False,
                                f"expectations(list, self_conj, opt=True) raised {type(e).__name__}: {e}", dict(case, list=lst))
            # ---- reduced density matrices: polynomial identity with the partial trace of |psi><psi| (pure state) / A A^+ (density-operator form)
            from renormalizer.mps import MpDm
            Hn = Mpo(model, terms)
            objs = [("Mps", a, atc, False)] if n <= 3 or gauge == "fresh" else []
            if gauge == "fresh" and n <= 3:          # (the polynomials of a density operator's two-site RDM grow with the fourth power of the tensor entries)
                A0 = Hn.apply(MpDm.from_mps(a0))
                if n >= 2:
                    A0 = mpos[1].apply(A0)
                objs.append(("MpDm", SH.symbolic_state(A0, vf), S.complexify(A0, rng), True))
            for kind, obj, objc, is_dm in objs:
                natd = S.dense(objc)

                def nat_rdm(sites, objc=objc, natd=natd, is_dm=is_dm):
                    got = objc.calc_1site_rdm()[sites[0]] if len(sites) == 1 else objc.calc_2site_rdm()[tuple(sites)]
                    ref = ptrace(np.asarray(natd), dims, sites, is_dm)
                    return np.asarray(got).reshape(ref.shape), ref
                with SH.symbolic_mode():
                    dv = S.dense(obj)
                    try:
                        r1 = obj.calc_1site_rdm()
                        r2 = obj.calc_2site_rdm() if n >= 2 else {}
                    except Exception as e:
                        decide_true(run, f"post:{kind}.calc_rdm:total@{tag}", "Mps.calc_1site_rdm", False, f"raised {type(e).__name__}: {e}", case)
                        continue
                    for i in range(n):
                        decide(run, f"post:{kind}.calc_1site_rdm:partial_trace[{i}]@{tag}", "Mps.calc_1site_rdm", np.asarray(r1[i], dtype=object),
                               ptrace(dv, dims, [i], is_dm), case, fields={"site": i, "density_operator": is_dm},
                               numeric_replay=native_pair((lambda i_: lambda: nat_rdm([i_]))(i), how))
                    for (i, j) in sorted(r2):
                        ref = ptrace(dv, dims, [i, j], is_dm)
                        decide(run, f"post:{kind}.calc_2site_rdm:partial_trace[{i},{j}]@{tag}", "Mps.calc_2site_rdm", np.asarray(r2[(i, j)], dtype=object).reshape(ref.shape),
                               ref, case, fields={"sites": [i, j], "density_operator": is_dm},
                               numeric_replay=native_pair((lambda i_, j_: lambda: nat_rdm([i_, j_]))(i, j), how))
                    decide_true(run, f"post:{kind}.calc_2site_rdm:all_pairs@{tag}", "Mps.calc_2site_rdm", set(r2) == {(i, j) for i in range(n) for j in range(i + 1, n)},
                                f"keys {sorted(r2)}", case)
    run.extra.setdefault("symx", {})["C07"] = {"operator_lists_decided": nlists, "shims": SH.SHIMS}
