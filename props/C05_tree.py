"""Tree part of C05: TTNS.compress respects per-node limits and the discarded-weight sandwich (bounded)."""
import numpy as np

from vk.rtc.harness import run_cases
from vk.specs import tree as T
from vk.specs import treeuniv as TU

KE = 1e-9


def subtree_dofs(bt, node):
    out = [b for b in node.basis_sets if type(b).__name__ != "BasisDummy"]
    for c in node.children:
        out += subtree_dofs(bt, c)
    return out


def cut_spectrum(v, order, dims, sub):
    idx = [order.index(b) for b in sub]
    if not idx or len(idx) == len(order):
        return np.array([np.linalg.norm(v)])
    m = np.moveaxis(v.reshape(dims), idx, list(range(len(idx)))).reshape(int(np.prod([dims[i] for i in idx])), -1)
    return np.linalg.svd(m, compute_uv=False)


def worker(case, led):
    n_nodes, flavour, seed, tier = case
    from renormalizer.utils import CompressConfig, CompressCriteria
    su = TU.setup(seed, n_nodes, flavour, max_dim=300)
    if su is None or len(su["bt"].node_list) < 2:
        return
    bt, order, model, sectors, rng = su["bt"], su["order"], su["model"], su["sectors"], su["rng"]
    dims = [b.nbas for b in order]
    q = sectors[len(sectors) // 2]
    a = TU.random_ttns(bt, q, 6, rng, complex_=rng.random() < 0.3)
    if a is None:
        return
    a.canonicalise()
    v0 = T.dense_ttns(a, order)
    nrm0 = np.linalg.norm(v0)
    nodes = a.node_list
    spectra = {i: cut_spectrum(v0, order, dims, subtree_dofs(bt, bt.node_list[i])) for i in range(1, len(nodes))}
    bd0 = list(a.bond_dims)
    fn = "TTNS.compress"
    nn = len(nodes)
    configs = [("fixed", dict(M=M)) for M in (1, 2, 3, 64)] + [("fixed", dict(per_node=[int(rng.integers(1, 4)) for _ in range(nn + 1)])),
                                                              ("fixed", dict(per_node=[int(rng.integers(1, 5)) for _ in range(nn + 1)], via="temp_m_trunc")),
                                                              ("fixed", dict(per_node=[1] + [int(rng.integers(1, 5)) for _ in range(nn)], via="temp_m_trunc")),
                                                              ("threshold", dict(thr=0.3)), ("threshold", dict(thr=1e-3)), ("both", dict(M=2, thr=0.1))]
    for crit, kw in configs:
        x = a.copy()
        cfg = CompressConfig(getattr(CompressCriteria, crit), threshold=kw.get("thr", 1e-3), max_bonddim=kw.get("M", 32))
        if "per_node" in kw and kw.get("via") != "temp_m_trunc":
            cfg.max_dims = np.array(kw["per_node"], dtype=int)
        x.compress_config = cfg
        key = (repr(su["shape"]), flavour, seed, crit, str(sorted(kw.items())))
        rep = dict(TU.describe_tree(bt), flavour=flavour, seed=seed, criteria=crit, config={k: (list(map(int, v)) if isinstance(v, list) else v) for k, v in kw.items()}, bond_dims_before=bd0)
        f = {"criteria": crit, "per_node": "per_node" in kw, "via": kw.get("via", "config")}
        try:
            if kw.get("via") == "temp_m_trunc":      # the same per-node limits handed over as a list argument
                x.compress(temp_m_trunc=list(kw["per_node"]))
            else:
                x.compress()
        except Exception as e:
            led.check(False, f"post:{fn}:total", fn, f"raised {type(e).__name__}: {e}", key, f, rep)
            continue
        vc = T.dense_ttns(x, order)
        bd = list(x.bond_dims)
        nontriv = any(p < q_ for p, q_ in zip(bd, bd0))
        if crit in ("fixed", "both"):
            lim = kw.get("per_node") or [kw["M"]] * (nn + 1)
            led.check(all(bd[i] <= lim[i] for i in range(1, nn)), f"post:{fn}:bond_limit", fn, f"bond dims {bd} exceed the per-node limits {list(lim)}", key + ("limit",), f, rep, nontriv)
            if kw.get("via") != "temp_m_trunc":
                try:
                    y = a.copy()
                    y.compress_config = cfg
                    y = y.copy()            # the limits travel with the object
                    y.compress()
                    bdc = list(y.bond_dims)
                    led.check(all(bdc[i] <= lim[i] for i in range(1, nn)) and bdc == bd, f"post:{fn}:bond_limit_after_copy", fn,
                              f"a copy of the configured state compresses to {bdc}, the state itself to {bd}; limits {list(lim)}", key + ("limit-copy",), f, rep, nontriv)
                except Exception as e:
                    led.check(False, f"post:{fn}:total", fn, f"compress of a copy raised {type(e).__name__}: {e}", key + ("copy",), f, rep)
        led.check(all(p <= q_ for p, q_ in zip(bd, bd0)), f"post:{fn}:no_bond_grows", fn, f"{bd0} -> {bd}", key + ("grow",), f, rep, nontriv)
        led.check(np.linalg.norm(vc) <= nrm0 * (1 + KE), f"post:{fn}:norm_not_increased", fn, f"{np.linalg.norm(vc)} > {nrm0}", key + ("norm",), f, rep, nontriv)
        err = float(np.linalg.norm(vc - v0))
        tails = [float(np.sum(spectra[i][bd[i]:] ** 2)) for i in range(1, nn)]
        ub, lb = np.sqrt(sum(tails)), np.sqrt(max(tails + [0.0]))
        led.check(err <= ub + KE * nrm0, f"post:{fn}:error_upper_bound", fn, f"||psi-psi_c||={err:.3e} > sqrt(sum discarded weights)={ub:.3e} (kept {bd[1:]})", key + ("ub",), f, rep, nontriv)
        led.check(err >= lb - KE * nrm0, f"post:{fn}:error_lower_bound", fn, f"||psi-psi_c||={err:.3e} < largest single-bond discarded weight {lb:.3e}", key + ("lb",), f, rep, nontriv)
        if crit == "fixed" and kw.get("M") == 64:
            led.check(err <= 1e-9 * nrm0, f"post:{fn}:lossless_when_limit_exceeds_rank", fn, f"{err:.2e}", key + ("lossless",), f, rep)
        led.check(not T.qnv_tree_violations(x), f"post:{fn}:qn_valid", fn, f"{T.qnv_tree_violations(x)[:1]}", key + ("qnv",), f, rep, nontriv)
    # returned singular values = dense Schmidt spectra when nothing is truncated
    try:
        x = a.copy()
        x.compress_config = CompressConfig(CompressCriteria.fixed, max_bonddim=64)
        _, sarr = x.compress(ret_s=True)
        ok, what = True, ""
        for i in range(1, nn):
            sd = np.sort(spectra[i])[::-1]
            row = np.sort(np.asarray(sarr[i]))[::-1]
            k = min(len(sd), len(row))
            if np.abs(sd[:k] - row[:k]).max() > 1e-9 * nrm0 or np.abs(row[k:]).max(initial=0) > 1e-9 or np.abs(sd[k:]).max(initial=0) > 1e-9:
                ok, what = False, f"node {i}: returned {row} vs dense {sd}"
        led.check(ok, f"post:{fn}:ret_s_equals_dense_spectra", fn, what, (repr(su["shape"]), flavour, seed, "ret_s"), {}, dict(TU.describe_tree(bt), flavour=flavour, seed=seed))
    except Exception as e:
        led.check(False, f"post:{fn}:ret_s_total", fn, f"raised {e!r}", (repr(su["shape"]), flavour, seed, "ret_s"), {}, {})


def check(run):
    seeds = list(range(run.seed * 100, run.seed * 100 + (3 if run.tier == "quick" else 10)))
    cases = [(nn, fl, s, run.tier) for s in seeds for nn in (2, 3, 4, 5) for fl in ("spinqn", "holstein", "spin")]
    run_cases(run, worker, cases)
