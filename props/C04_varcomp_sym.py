"""Engine S part of C04: every local update of the variational compression is the projection of the target O|psi> onto the current frames of the guess.

`MatrixProduct.variational_compress(mpo, guess)` sweeps over the guess; at every site (pair of sites) it contracts the environments of <guess| O |psi> with the
local tensors of O and psi and hands the result to the renormalised-basis update.  That update is recorded (wrapper around `_update_mps`, the real method still
runs, in kernel-stub mode with a limit above every block, i.e. lossless) together with the tensors of the guess at that moment.  Obligations (exact polynomial
identities, for all tensor values of psi, of the guess and of the - exactly lifted - operator):

  schedule      one local update per site (1site) / pair (2site) in sweep order;
  projection    the tensor handed to the update equals  mask * K^H (O psi),  K the frame map of the guess (local tensor -> dense vector) contracted independently
                from the tensors the guess holds at that moment, O psi the dense product of operator and state: the alternating-least-squares step for orthonormal
                frames (C04/C18 own orthonormality), with the environments of the CURRENT guess;
  continuity    after the update the guess is K c (nothing lost, no other site touched): it is the state in which the next local problem is posed;
  frame         psi and O are unchanged, the result is the guess object after the sweep, canonicalised without changing it."""
import numpy as np

from vk.specs import chain as S
from vk.specs import universe as U
from vk.specs import dyn as Dn
from vk.symx import shims as SH
from vk.symx.harness import decide, decide_true
from vk.symx.poly import Poly, VarFactory
from props.C09_tdvp_sym import conj_arr, unit_vec, _obj, dense_of, flat
from props.C08_sweep_sym import schedule, place


def frame_full(template, tensors, coeff, cidx, shape, sym):
    n = int(np.prod(shape))
    cols = []
    for j in range(n):
        e = unit_vec(n, j, sym).reshape(shape)
        cols.append(dense_of(template, place(tensors, cidx, e, sym), coeff))
    return np.array(cols, dtype=object if sym else complex).T


def execute(psi, Hobj, guess, method, calls, sym):
    import renormalizer.mps.mp as mp_mod
    from renormalizer.utils import CompressConfig, CompressCriteria
    orig = mp_mod.MatrixProduct._update_mps

    def spy(self, cstruct, cidx, qnbigl, qnbigr, percent=0):
        if self is guess:
            calls.append({"c": (_obj(cstruct) if sym else np.asarray(cstruct)).copy(), "cidx": list(cidx),
                          "tensors": [(_obj(self[i]) if sym else np.asarray(self[i].array)).copy() for i in range(len(self))], "coeff": self.coeff})
        return orig(self, cstruct, cidx, qnbigl, qnbigr, percent)
    mp_mod.MatrixProduct._update_mps = spy
    try:
        guess.compress_config = CompressConfig(CompressCriteria.fixed, max_bonddim=10 ** 4)
        guess.compress_config.vprocedure = [[10 ** 4, 0]]        # one sweep: the convergence test (norms, square roots) is not reached
        guess.compress_config.vmethod = method
        return psi.variational_compress(Hobj, guess=guess)
    finally:
        mp_mod.MatrixProduct._update_mps = orig


def prove(run):
    from renormalizer.mps import Mpo
    shapes = [("spinqn", 3), ("holstein", 3)] if run.tier == "quick" else [("spinqn", 3), ("spinqn", 4), ("holstein", 3), ("spin2qn", 3), ("spin", 3), ("spinqn-flux", 3)]
    ncase = ncalls = 0
    for name, n in shapes:
        rng = np.random.default_rng([run.seed, n, 431, sum(map(ord, name))])
        model, terms, sectors = Dn.hamiltonian(name, n, rng)
        H = Mpo(model, terms)
        q = sectors[len(sectors) // 2]
        p0 = U.make_state(model, q, 2, rng)
        g0 = U.make_state(model, q, 2, rng)
        if p0 is None or g0 is None:
            continue
        for method in ("1site", "2site"):
            if method == "2site" and n < 2:
                continue
            ncase += 1
            vf = VarFactory()
            psi = SH.symbolic_state(p0, vf)
            guess = SH.symbolic_state(g0, vf)
            tag = f"{method}@{name}{n}"
            case = {"model": name, "nsites": n, "method": method, "sector": q}
            fn = "MatrixProduct.variational_compress"
            calls = []
            with SH.kernel_stub_mode():
                Hs = SH.numeric_to_symbolic_const(H)
                Hd = S.dense(Hs)
                vpsi = flat(S.dense(psi))
                target = Hd.dot(vpsi)
                try:
                    guess.ensure_left_canonical()        # what the function does first: the schedule below starts from that gauge
                    start_right = bool(guess.to_right)
                    res = execute(psi, Hs, guess, method, calls, True)
                except Exception as e:
                    decide_true(run, f"post:{fn}:total[{tag}]", fn, False, f"raised on symbolic tensors: {type(e).__name__}: {e}", case)
                    continue
                sched = schedule(n, start_right, method)
                ncalls += len(calls)
                decide_true(run, f"pre:_update_mps:schedule_one_update_per_site_in_sweep_order[{tag}]", fn, [c["cidx"] for c in calls] == [list(x) for x in sched],
                            f"updates at {[c['cidx'] for c in calls]}, the sweep has {sched}", case, fields={"method": method})
                prev_after = None
                ok = True
                for k, c in enumerate(calls):
                    if k >= len(sched) or c["cidx"] != list(sched[k]):
                        ok = False
                        break
                    ctag = f"{tag}:update{k}:sites{c['cidx']}"
                    K = frame_full(guess, c["tensors"], c["coeff"], c["cidx"], c["c"].shape, True)
                    proj = conj_arr(K).T.dot(target)
                    mask = np.array([not (Poly.coerce(x) == Poly()) for x in c["c"].reshape(-1)])
                    # the update receives the projection with the symmetry-forbidden entries cleared: compare on the entries it keeps, and require that
                    # everything it clears is forbidden (the projection of a state in the sector vanishes there identically)
                    decide(run, f"pre:_update_mps:local_tensor_is_the_projection_of_the_target_on_the_current_frames[{ctag}]", fn, c["c"].reshape(-1)[mask], proj[mask], case,
                           fields={"method": method})
                    decide(run, f"pre:_update_mps:cleared_entries_carry_nothing[{ctag}]", fn, proj[~mask], np.array([Poly()] * int((~mask).sum()), dtype=object), case,
                           fields={"method": method})
                    if prev_after is not None:
                        decide(run, f"pre:_update_mps:posed_in_the_guess_the_previous_update_produced[{ctag}]", fn, dense_of(guess, c["tensors"], c["coeff"]), prev_after, case,
                               fields={"method": method})
                    prev_after = K.dot(c["c"].reshape(-1))
                if ok and calls:
                    decide(run, f"post:{fn}:result_is_the_guess_after_the_last_update[{tag}]", fn, flat(S.dense(res)), prev_after, case, fields={"method": method})
                decide(run, f"frame:{fn}:state_unchanged[{tag}]", fn, flat(S.dense(psi)), vpsi, case)
                decide(run, f"frame:{fn}:operator_unchanged[{tag}]", fn, S.dense(Hs), Hd, case)
                bad = S.qnv_violations(res)
                decide_true(run, f"post:{fn}:qn_valid[{tag}]", fn, not bad, f"labels of the result invalid: {bad[:2]}", case)
    run.extra.setdefault("symx", {})["C04_varcomp"] = {"cases": ncase, "local_updates": ncalls, "kernel_stubs": SH.KERNEL_STUBS, "shims": SH.SHIMS}
    if ncase == 0:
        run.crash("C04_varcomp_sym: no case generated")
