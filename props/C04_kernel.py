"""Engine S, kernel-stub mode (DESIGN 5.3): the bookkeeping around the factorisation kernels, for all tensor values.

The real canonicalise / _push_cano / _update_ms / compress / ensure_*_canonical / svd_qn run on symbolic tensors while the LAPACK factorisations are
replaced by trivial *exact* factorisations of each symmetry block (vk.symx.shims.KERNEL_STUBS).  What is decided exactly, per enumerated shape and gauge:
the represented vector/operator is unchanged, the labels stay valid (QNV on the support of the polynomial entries), no bond grows, lossless compression
(limit >= every block size) changes nothing.  Orthonormality / optimal truncation are properties of the numeric kernels and stay with the bounded engine (C18, C05)."""
import numpy as np

from vk.specs import chain as S
from vk.specs import universe as U
from vk.specs import dyn as Dn
from vk.symx import shims as SH
from vk.symx.harness import decide, decide_true, native_pair, native_cond
from vk.symx.poly import VarFactory


def prove(run, only_updates=False):
    """only_updates: just the renormalised-basis updates of the two-site algorithms (used by C08)"""
    from renormalizer.mps import Mpo, MpDm
    from renormalizer.utils import CompressConfig, CompressCriteria
    shapes = [("spinqn", 3), ("holstein", 3), ("spin2qn", 3)] if run.tier == "quick" else [("spinqn", 3), ("spinqn", 4), ("holstein", 3), ("holstein", 4), ("spin2qn", 3), ("spin2qn", 4), ("spin", 3)]
    ncase = 0
    for name, n in shapes:
        rng = np.random.default_rng([run.seed, n, 404, sum(map(ord, name))])
        model, terms, sectors = Dn.hamiltonian(name, n, rng)
        H = Mpo(model, terms)
        objs = []
        for q in (sectors[1:3] if len(sectors) > 2 else sectors[:1]):
            a0 = U.make_state(model, q, 3, rng)
            b0 = U.make_state(model, q, 2, rng)
            if a0 is None or b0 is None:
                continue
            objs.append((f"state:q{q}", a0))
            objs.append((f"sum:q{q}", a0.add(b0)))                   # over-complete bonds
            objs.append((f"H@state:q{q}", H.apply(b0)))
        objs.append(("operator", H))
        objs.append(("operator+operator", H.add(H.scale(0.5))))
        if objs and not isinstance(objs[0][1], Mpo):
            objs.append(("density operator", MpDm.from_mps(objs[0][1])))
        for label, t0 in objs:
            if np.abs(S.dense(t0)).max() < 1e-12:
                continue
            for gauge, k in (("fresh", None), ("right", None), ("center", n // 2)):
                at = S.apply_gauge(t0, gauge, k)
                vf = VarFactory()
                a = SH.symbolic_state(at, vf)
                atc = S.complexify(at, rng)
                ncase += 1
                tag = f"{name}{n}:{label}:{gauge}"
                case = {"model": name, "nsites": n, "object": label, "gauge": gauge, "bond_dims": [int(b) for b in at.bond_dims], "qnidx": int(at.qnidx),
                        "to_right": bool(at.to_right), "variables": vf.n}
                how = ("props.C04_kernel: objects from Dn.hamiltonian / U.make_state with rng [seed, n, 404, name], gauge by vk.specs.chain.apply_gauge, random phases; "
                       "the same calls on the real float code with the real LAPACK kernels")
                big = CompressConfig(CompressCriteria.fixed, max_bonddim=10 ** 4)

                def ops():
                    # (name, function under contract, callable on a copy) -- each must leave the represented object unchanged
                    yield "canonicalise", "MatrixProduct.canonicalise", lambda x: _from_end(x).canonicalise()
                    yield "canonicalise_from_any_centre", "MatrixProduct.canonicalise", lambda x: x.canonicalise()
                    yield "canonicalise_from_any_centre_to_stop_1", "MatrixProduct.canonicalise", lambda x: x.canonicalise(stop_idx=1)
                    yield "canonicalise_twice", "MatrixProduct.canonicalise", lambda x: _from_end(x).canonicalise().canonicalise()
                    yield "ensure_left_canonical", "MatrixProduct.ensure_left_canonical", lambda x: x.ensure_left_canonical()
                    yield "ensure_right_canonical", "MatrixProduct.ensure_right_canonical", lambda x: x.ensure_right_canonical()
                    for stop in range(n):
                        yield f"canonicalise_from_end(stop_idx={stop})", "MatrixProduct.canonicalise", (lambda s_: lambda x: _from_end(x).canonicalise(stop_idx=s_))(stop)

                    def lossless(x):
                        x = x.ensure_left_canonical()
                        x.compress_config = big
                        return x.compress()
                    yield "lossless_compress", "MatrixProduct.compress", lossless

                    def lossless2(x):
                        x = x.ensure_right_canonical()
                        x.compress_config = big
                        x.compress(temp_m_trunc=[10 ** 3] * (n + 1))
                        return x.compress(temp_m_trunc=10 ** 3)
                    yield "lossless_compress_both_directions_list_limits", "MatrixProduct.compress", lossless2
                    # the renormalised-basis update of the two-site algorithms (DMRG, TDVP-PS2): svd_qn(full) -> compute_m_trunc -> select_basis -> write back,
                    # bond by bond in both directions, with and without the per-sector perturbation; limit above every block size: nothing is lost
                    def two_site_sweep(percent):
                        def f(x):
                            x = x.ensure_left_canonical()
                            x.compress_config = big
                            for _half in range(2):
                                for imps in list(x.iter_idx_list(full=True)):
                                    if (x.to_right and imps == n - 1) or ((not x.to_right) and imps == 0):
                                        break
                                    cidx = [imps, imps + 1] if x.to_right else [imps - 1, imps]
                                    qnbigl, qnbigr, _ = x._get_big_qn(cidx)
                                    cs = np.tensordot(np.asarray(x[cidx[0]].array), np.asarray(x[cidx[1]].array), axes=1)
                                    x._update_mps(cs, cidx, qnbigl, qnbigr, percent)
                                x._switch_direction()
                            return x
                        return f
                    def two_site_sweep_probe(x):
                        # per-bond limits: 1 everywhere except on the bond being cut, where the limit is above every block size - nothing is lost iff the update
                        # reads the entry of exactly that bond (bond_dims convention: the bond between sites i and i+1 is entry i+1), in both sweep directions
                        x = x.ensure_left_canonical()
                        for _half in range(2):
                            for imps in list(x.iter_idx_list(full=True)):
                                if (x.to_right and imps == n - 1) or ((not x.to_right) and imps == 0):
                                    break
                                cidx = [imps, imps + 1] if x.to_right else [imps - 1, imps]
                                cfg = CompressConfig(CompressCriteria.fixed, max_bonddim=1)
                                cfg.set_bonddim(n + 1)
                                lim = np.ones(n + 1, dtype=int)
                                lim[cidx[1]] = 10 ** 4
                                cfg.max_dims = lim
                                x.compress_config = cfg
                                qnbigl, qnbigr, _ = x._get_big_qn(cidx)
                                cs = np.tensordot(np.asarray(x[cidx[0]].array), np.asarray(x[cidx[1]].array), axes=1)
                                x._update_mps(cs, cidx, qnbigl, qnbigr, 0)
                            x._switch_direction()
                        return x
                    if n >= 2:
                        yield "two_site_update_sweep_limit_only_on_the_cut_bond", "MatrixProduct._update_mps", two_site_sweep_probe
                        yield "two_site_update_sweep", "MatrixProduct._update_mps", two_site_sweep(0)
                        yield "two_site_update_sweep_with_sector_perturbation", "MatrixProduct._update_mps", two_site_sweep(0.5)
                with SH.kernel_stub_mode():
                    da = S.dense(a)
                    for opname, fn, f in ops():
                        if only_updates and fn != "MatrixProduct._update_mps":
                            continue
                        try:
                            c = f(a.copy())
                        except Exception as e:
                            decide_true(run, f"post:{fn}:{opname}:total@{tag}", fn, False, f"raised on symbolic tensors with stubbed kernels: {type(e).__name__}: {e}", case,
                                        numeric_replay=native_cond((lambda f_: lambda: (f_(atc.copy()) is not None, "ran"))(f), how))
                            continue
                        decide(run, f"post:{fn}:{opname}:object_unchanged@{tag}", fn, S.dense(c), da, case,
                               numeric_replay=native_pair((lambda f_: lambda: (S.dense(f_(atc.copy())), S.dense(atc)))(f), how))
                        v = S.qnv_violations(c)
                        decide_true(run, f"post:{fn}:{opname}:labels_valid@{tag}", fn, not v and np.all(np.asarray(c.qntot) == np.asarray(a.qntot)), f"{v[:1]}", case,
                                    numeric_replay=native_cond((lambda f_: lambda: (lambda r_: (not S.qnv_violations(r_), S.qnv_violations(r_)[:1]))(f_(atc.copy())))(f), how))
                        if fn == "MatrixProduct._update_mps":
                            continue        # the two-site update uses full factorisations precisely to let a bond grow
                        decide_true(run, f"post:{fn}:{opname}:no_bond_grows@{tag}", fn, all(x <= y for x, y in zip(c.bond_dims, a.bond_dims)),
                                    f"{list(a.bond_dims)} -> {list(c.bond_dims)}", case,
                                    numeric_replay=native_cond((lambda f_: lambda: (lambda r_: (all(x <= y for x, y in zip(r_.bond_dims, atc.bond_dims)), list(r_.bond_dims)))(f_(atc.copy())))(f), how))
                    if not only_updates:
                        decide(run, f"frame:MatrixProduct.copy:gauge_moves_on_copies_leave_the_original@{tag}", "MatrixProduct.copy", S.dense(a), da, case)
                    if n >= 2 and gauge == "fresh":
                        _state_averaged_updates(run, a, atc, vf, big, n, tag, case, how)
    run.extra.setdefault("symx", {})["C04_kernel_stub"] = {"cases": ncase, "kernel_stubs": SH.KERNEL_STUBS, "shims": SH.SHIMS}
    if ncase == 0:
        run.crash("C04_kernel: no case generated")


def _state_averaged_updates(run, a, atc, vf, big, n, tag, case, how):
    """MatrixProduct._update_mps with a LIST of two-site coefficient tensors (state-averaged DMRG): density matrix -> eigh_qn -> select_basis -> rotation of every root.
    With a limit above every block size the kept basis is complete on the support of the roots: ms (x) rotated_c[k] == c_k for every root k, for all tensor values;
    the object written back represents root 0; labels stay valid."""
    from vk.symx.poly import Poly
    fn = "MatrixProduct._update_mps"
    x = a.copy().ensure_left_canonical()
    x.compress_config = big
    for _half in range(2):
        for imps in list(x.iter_idx_list(full=True)):
            if (x.to_right and imps == n - 1) or ((not x.to_right) and imps == 0):
                break
            cidx = [imps, imps + 1] if x.to_right else [imps - 1, imps]
            qnbigl, qnbigr, _ = x._get_big_qn(cidx)
            c1 = np.tensordot(np.asarray(x[cidx[0]].array), np.asarray(x[cidx[1]].array), axes=1)
            support = np.vectorize(lambda e: bool(Poly.coerce(e)), otypes=[bool])(c1)
            c2 = vf.array(c1.shape, mask=support)                   # a second root: independent values on the same symmetry-allowed support
            y = x.copy()
            y.compress_config = big
            btag = f"{tag}:bond{cidx[0]}{'R' if x.to_right else 'L'}"
            try:
                rot = y._update_mps([c1, c2], cidx, qnbigl, qnbigr, 0)
            except Exception as e:
                decide_true(run, f"post:{fn}:state_averaged:total@{btag}", fn, False, f"raised on symbolic roots with stubbed kernels: {type(e).__name__}: {e}", case)
                rot = None
            if rot is not None:
                decide_true(run, f"post:{fn}:state_averaged:one_rotated_tensor_per_root@{btag}", fn, len(rot) == 2, f"{len(rot)} rotated tensors for 2 roots", case)
                for k, ck in enumerate((c1, c2)):
                    if k < len(rot):
                        back = (np.tensordot(np.asarray(y[cidx[0]].array), np.asarray(rot[k]), axes=1) if y.to_right
                                else np.tensordot(np.asarray(rot[k]), np.asarray(y[cidx[1]].array), axes=1))
                        decide(run, f"post:{fn}:state_averaged:root[{k}]_reproduced_by_the_kept_basis@{btag}", fn, back, ck, case)
                decide(run, f"post:{fn}:state_averaged:object_written_back_is_root_0@{btag}", fn, S.dense(y), S.dense(x), case)
                v = S.qnv_violations(y)
                decide_true(run, f"post:{fn}:state_averaged:labels_valid@{btag}", fn, not v, f"{v[:1]}", case)
            # continue the sweep with the single-root update (proved above)
            x._update_mps(c1, cidx, qnbigl, qnbigr, 0)
        x._switch_direction()


def _from_end(x):
    """centre at the sweep start (precondition of canonicalise(stop_idx))"""
    n = len(x)
    if not ((x.to_right and x.qnidx == 0) or (not x.to_right and x.qnidx == n - 1)):
        x.ensure_left_canonical()
    return x
