"""Engine S part of C09 / C10: one step of every propagation-and-compression scheme IS the scheme's stage polynomial applied to the state.

The real _evolve_prop_and_compress (Taylor), _evolve_prop_and_compress_tdrk4 and _evolve_prop_and_compress_tdrk (every single-row tableau) run on symbolic
states (kernel-stub mode: compressions are lossless around trivially factorised blocks, bond limit 10^4) with the exactly lifted Hamiltonian.  The dense result
must equal  sum_k d_k (-i dt H)^k psi  with d_k = 1/k! (Taylor) resp. d_k = b A^(k-1) 1 computed here from the tableau in rational arithmetic (C19 certifies
d_k = 1/k! up to the advertised order), as polynomials in the tensor entries: for all states of the enumerated shapes, real and imaginary time (C10), state and
density-operator form, and for a time-dependent H(t) = f(t) H0 against the exact explicit Runge-Kutta recursion with absolute stage times.
Equality is coefficientwise up to 1e-13 relative (constants such as 1/6*dt are floats in the code).  Adaptive stepping uses norms (square roots) and the TDVP
schemes need local exponentials: both stay with the bounded part."""
from fractions import Fraction
import math

import numpy as np

from vk.specs import chain as S
from vk.specs import universe as U
from vk.specs import dyn as Dn
from vk.symx import shims as SH
from vk.symx.harness import decide_close, decide_true, native_pair
from vk.symx.poly import Poly, VarFactory

SINGLE_ROW = ["C_RK4", "38rule_RK4", "Kutta_RK3", "Fehlberg5", "Heun_RK2", "midpoint_RK2", "Ralston_RK2", "Forward_Euler"]


def apply_poly(Hd, v, coeffs, z):
    """sum_k coeffs[k] (z H)^k v  (exact)"""
    out = v * Poly.const(coeffs[0])
    term = v
    for k in range(1, len(coeffs)):
        term = Hd.dot(term) * Poly.const(z)
        out = out + term * Poly.const(coeffs[k])
    return out


def stage_poly(rk):
    a, b, c = rk.tableau
    s = rk.stage
    A = [[Fraction(float(a[i, j])) for j in range(s)] for i in range(s)]
    B = [Fraction(float(x)) for x in np.asarray(b)[0]]
    v = [Fraction(1)] * s
    d = [Fraction(1)]
    for k in range(1, s + 1):
        d.append(sum(B[i] * v[i] for i in range(s)))
        v = [sum(A[i][j] * v[j] for j in range(s)) for i in range(s)]
    return d


def rk_time_dependent(rk, Hd, v, dt, f):
    """exact explicit RK recursion for y' = -i f(t) H y over one step from t = 0"""
    a, b, c = rk.tableau
    s = rk.stage
    ks = []
    for i in range(s):
        y = v
        for j in range(i):
            if a[i, j] != 0:
                y = y + ks[j] * Poly.const(Fraction(float(a[i, j])) * Fraction(dt))
        ks.append(Hd.dot(y) * Poly.const(complex(0, -1) * f(float(c[i]) * dt)))
    out = v
    for i in range(s):
        if np.asarray(b)[0][i] != 0:
            out = out + ks[i] * Poly.const(Fraction(float(np.asarray(b)[0][i])) * Fraction(dt))
    return out


def rk_time_dependent_float(rk, Hn, v, dt, f):
    a, b, c = rk.tableau
    ks = []
    for i in range(rk.stage):
        y = v + sum((ks[j] * (float(a[i, j]) * dt) for j in range(i) if a[i, j] != 0), 0)
        ks.append(-1j * float(f(float(c[i]) * dt)) * (Hn @ y))
    return v + sum((ks[i] * (float(np.asarray(b)[0][i]) * dt) for i in range(rk.stage)), 0)


def prove(run, dts=(0.125, 0.5), key="C09"):
    from renormalizer.mps import Mpo, MpDm
    from renormalizer.utils import CompressConfig, CompressCriteria, EvolveConfig, EvolveMethod
    from renormalizer.utils.rk import RungeKutta
    shapes = [("spinqn", 3), ("holstein", 3)] if run.tier == "quick" else [("spinqn", 3), ("spinqn", 4), ("holstein", 3), ("spin2qn", 3), ("spin", 3)]
    ncase = 0
    for name, n in shapes:
        rng = np.random.default_rng([run.seed, n, 991, sum(map(ord, name))])
        model, terms, sectors = Dn.hamiltonian(name, n, rng)
        H = Mpo(model, terms)
        Hn = S.dense(H)
        q = sectors[len(sectors) // 2]
        a0 = U.make_state(model, q, 2, rng)
        if a0 is None:
            continue
        forms = [("state", a0), ("state:centre-moved", S.apply_gauge(a0, "center", n // 2)), ("density operator", MpDm.from_mps(a0))]
        for form, t0 in forms:
            for dt in dts:          # real time (C09) / imaginary time (C10)
                vf = VarFactory()
                a = SH.symbolic_state(t0, vf)
                atc = S.complexify(t0, rng)
                big = CompressConfig(CompressCriteria.fixed, max_bonddim=10 ** 4)
                z = complex(0, -1) * dt
                how = "props.C09_sym: same model / state with random phases, the real float code with the real LAPACK kernels, bond limit 10^4"
                with SH.kernel_stub_mode():
                    Hs = SH.numeric_to_symbolic_const(H)
                    Hd, va = S.dense(Hs), S.dense(a)
                    Hs.compress_config = big

                    def run_scheme(obj, hh, method, **kw):
                        x = obj.copy()
                        x.compress_config = big
                        x.evolve_config = EvolveConfig(getattr(EvolveMethod, method), guess_dt=dt, **kw)
                        return getattr(x, "_evolve_" + method)(hh, dt), x
                    jobs = [("prop_and_compress", {}, [Fraction(1, math.factorial(k)) for k in range(5)]),
                            ("prop_and_compress_tdrk4", {}, [Fraction(1, math.factorial(k)) for k in range(5)])]
                    # every user-selectable Taylor order (the number of summands of the compressed sum changes with it: 2 .. 8 terms)
                    if form == "state":
                        for order in (1, 2, 3, 5, 6, 7):
                            jobs.append(("prop_and_compress", {"taylor_order": order}, [Fraction(1, math.factorial(k)) for k in range(order + 1)]))
                    for sol in SINGLE_ROW:
                        jobs.append(("prop_and_compress_tdrk", {"rk_solver": sol}, stage_poly(RungeKutta(sol))))
                    for method, kw, coeffs in jobs:
                        ncase += 1
                        tag = f"{method}{':' + str(kw.get('rk_solver', 'order' + str(kw.get('taylor_order')))) if kw else ''}@{name}{n}:{form}:dt={dt}"
                        case = {"model": name, "nsites": n, "form": form, "dt": str(dt), "method": method, "config": kw, "stage_polynomial": [str(c) for c in coeffs]}
                        fn = f"Mps._evolve_{method}"

                        def native(method=method, kw=kw, coeffs=coeffs):
                            x = atc.copy()
                            x.compress_config = big
                            x.evolve_config = EvolveConfig(getattr(EvolveMethod, method), guess_dt=dt, **kw)
                            hh = H.copy()
                            hh.compress_config = big
                            r_ = getattr(x, "_evolve_" + method)(hh, dt)
                            v_ = S.dense(atc)
                            ref_, term_ = v_ * float(coeffs[0]), v_
                            for k in range(1, len(coeffs)):
                                term_ = (Hn @ term_ if v_.ndim == 1 else Hn @ term_) * z
                                ref_ = ref_ + term_ * float(coeffs[k])
                            return S.dense(r_), ref_
                        try:
                            r, _ = run_scheme(a, Hs, method, **kw)
                        except Exception as e:
                            decide_true(run, f"post:{fn}:total[{tag}]", fn, False, f"raised on symbolic tensors: {type(e).__name__}: {e}", case)
                            continue
                        decide_close(run, f"post:{fn}:one_step_is_the_stage_polynomial[{tag}]", fn, S.dense(r), apply_poly(Hd, va, coeffs, z), case,
                                     numeric_replay=native_pair(native, how), fields={"method": method})
                        decide_close(run, f"frame:{fn}:input[{tag}]", fn, S.dense(a), va, case)
                    # time-dependent Hamiltonian H(t) = (1 + t/(2 dt)) H0, single-row tableaux with distinct stage times
                    if form == "state" and dt == dts[0] and not isinstance(dt, complex):
                        f = lambda t: Fraction(1) + Fraction(t) / Fraction(2 * dt)     # noqa: E731
                        cache = {}

                        def mpo_t(t, *a_, **k_):
                            t = float(t)
                            if t not in cache:
                                cache[t] = Hs.scale(float(f(t)))
                                cache[t].compress_config = big
                            return cache[t]
                        def native_td(method, rk, **kw):
                            def g():
                                x = atc.copy()
                                x.compress_config = big
                                x.evolve_config = EvolveConfig(getattr(EvolveMethod, method), guess_dt=dt, **kw)

                                def mpo_n(t, *a_, **k_):
                                    hh = H.scale(float(f(float(t))))
                                    hh.compress_config = big
                                    return hh
                                return S.dense(getattr(x, "_evolve_" + method)(mpo_n, dt)), rk_time_dependent_float(rk, Hn, S.dense(atc), dt, f)
                            return native_pair(g, how)
                        for sol in ("C_RK4", "38rule_RK4", "Kutta_RK3", "Fehlberg5", "Ralston_RK2"):
                            ncase += 1
                            rk = RungeKutta(sol)
                            tag = f"prop_and_compress_tdrk:{sol}:H(t)@{name}{n}"
                            case = {"model": name, "nsites": n, "dt": dt, "rk_solver": sol, "H(t)": "(1 + t/(2 dt)) H0"}
                            fn = "Mps._evolve_prop_and_compress_tdrk"
                            try:
                                r, _ = run_scheme(a, mpo_t, "prop_and_compress_tdrk", rk_solver=sol)
                            except Exception as e:
                                decide_true(run, f"post:{fn}:total[{tag}]", fn, False, f"raised on symbolic tensors: {type(e).__name__}: {e}", case)
                                continue
                            decide_close(run, f"post:{fn}:time_dependent_step_is_the_explicit_rk_recursion[{tag}]", fn, S.dense(r), rk_time_dependent(rk, Hd, va, dt, f), case,
                                         numeric_replay=native_td("prop_and_compress_tdrk", rk, rk_solver=sol), fields={"method": "prop_and_compress_tdrk"})
                        ncase += 1
                        tag = f"prop_and_compress_tdrk4:H(t)@{name}{n}"
                        fn = "Mps._evolve_prop_and_compress_tdrk4"
                        try:
                            r, _ = run_scheme(a, mpo_t, "prop_and_compress_tdrk4")
                            decide_close(run, f"post:{fn}:time_dependent_step_is_the_explicit_rk_recursion[{tag}]", fn, S.dense(r),
                                         rk_time_dependent(RungeKutta("C_RK4"), Hd, va, dt, f), {"model": name, "nsites": n, "dt": dt, "H(t)": "(1 + t/(2 dt)) H0"},
                                         numeric_replay=native_td("prop_and_compress_tdrk4", RungeKutta("C_RK4")))
                        except Exception as e:
                            decide_true(run, f"post:{fn}:total[{tag}]", fn, False, f"raised on symbolic tensors: {type(e).__name__}: {e}", {"model": name, "nsites": n})
    run.extra.setdefault("symx", {})[key] = {"scheme_cases": ncase, "kernel_stubs": SH.KERNEL_STUBS, "shims": SH.SHIMS}
    if ncase == 0:
        run.crash(f"{key}_sym: no case generated")
