"""C16 Built-in basis sets and model builders realise their documented physics (bounded runtime contracts)."""
import contextlib
import io
import itertools

import numpy as np

from vk.rtc.harness import run_cases
from vk.specs import c16 as S

LEVEL = "other"
TECHNIQUE = ("contracts evaluated at run time on the real op_mat / model-builder / Quantity functions over bounded-exhaustive inputs, "
             "against independent closed-form, larger-basis, quadrature and dense-assembly oracles "
             "(bounded stand-in); deductive: the periodic wrap-around of TI1DModel (pyvc slice, z3) and construct_j_matrix executed exactly on an indeterminate coupling")

EPS = S.EPS
KAPPA = 2e4            # generous constant in kappa*eps*scale (a few hundred flops per entry, each bounded by `scale`)
DAG = S.DAG


def tol(scale, extra=1.0):
    return KAPPA * EPS * max(1.0, float(scale)) * extra


def quiet(f, *a, **k):
    """call into the repository with stdout suppressed (BasisSineDVR.quad prints); returns (value, exception)"""
    buf = io.StringIO()
    try:
        with contextlib.redirect_stdout(buf):
            return f(*a, **k), None
    except Exception as e:          # an exception of the code under test is data for a contract, not a harness crash
        return None, e


def dev(M, ref, mask=None):
    """(max |M-ref| over mask, index) ; shape mismatch -> inf"""
    M, ref = np.asarray(M), np.asarray(ref)
    if M.shape != ref.shape:
        return float("inf"), None
    d = np.abs(M - ref)
    if mask is not None:
        d = np.where(mask, d, 0.0)
    if d.size == 0:
        return 0.0, None
    if not np.all(np.isfinite(d)):
        return float("inf"), None
    i = np.unravel_index(int(np.argmax(d)), d.shape)
    return float(d[i]), tuple(int(x) for x in i)


def small(M, cap=5):
    M = np.asarray(M)
    return M if M.ndim == 2 and max(M.shape) <= cap else {"shape": list(M.shape), "max_abs": float(np.abs(M).max()) if M.size else 0.0}


def check_copy(led, b, newdof, probe, cls, key, fields, rep):
    """BasisSet.copy(new_dof): same class, size, quantum numbers and matrices, new DoF name(s)"""
    c, e = quiet(b.copy, newdof)
    oid = f"post:{cls}.copy:same_basis_new_dof"
    if e is not None:
        led.check(False, oid, f"{cls}.copy", f"copy({newdof!r}) raised {type(e).__name__}: {e}", key + ("copy",), fields, rep)
        return
    ok = type(c) is type(b) and c.nbas == b.nbas and np.array_equal(np.asarray(c.sigmaqn), np.asarray(b.sigmaqn))
    want = tuple(newdof) if b.multi_dof else (newdof,)
    ok = ok and tuple(c.dofs) == want
    what = "class/nbas/sigmaqn/dofs differ"
    if ok:
        for name, fb, fc in probe(c):
            Mb, eb = quiet(fb)
            Mc, ec = quiet(fc)
            if (eb is None) != (ec is None) or (eb is None and dev(Mc, Mb)[0] > 0):
                ok, what = False, f"matrix of {name!r} differs between the basis and its copy" + (f" (copy raised {ec!r})" if ec else "")
                break
    led.check(ok, oid, f"{cls}.copy", what, key + ("copy",), fields, rep)


# =========================================================================================== BasisSHO
def sho_symbols(ex):
    lits = sorted(l for l in ex["literals"] if S.sho_parse(l) is not None)
    fam = ex["families"]
    out = list(lits)
    if ("power", "x") in fam:
        out += [f"x^{k}" for k in range(0, 7)]
    if ("repeat", "x") in fam:
        out += ["x x", "x x x", "x x x x"]
    if ("power", "p") in fam:
        out += [f"p^{k}" for k in range(0, 6)]
    if ("repeat", "p") in fam:
        out += ["p p", "p p p"]
    if ("partialx", "dx") in ex["aliases"]:
        out += ["partialx", "x partialx", "partialx x", "partialx^2", "partialx partialx"]
    if (r"b^\dagger + b", r"b^\dagger+b") in ex["aliases"]:
        out += [r"b^\dagger + b"]
    seen, res = set(), []
    for s in out:
        if s not in seen:
            seen.add(s)
            res.append(s)
    return res


def sho_family(letters):
    ks = set(letters)
    if ks & {"b", DAG, DAG + "+b", DAG + "-b", "n"}:
        return "second_quantized"
    if "x" in ks and ks & {"p", "dx"}:
        return "xp_product"
    return "power"


def w_sho(case, led):
    _, nbas, omega, x0, seed, tier = case
    from renormalizer.model import basis as ba, Op
    ora = S.ShoOracle(nbas, omega, x0)
    ex = S.extract_symbols(ba.BasisSHO)
    symbols = sho_symbols(ex)
    refs = {}
    for sym in symbols:
        letters = S.sho_parse(sym)
        refs[sym] = (letters,) + ora.product(letters)
    Xt = ora.product(["x"])[0].real
    for dvr, general in itertools.product((False, True), (False, True)):
        args = {"omega": omega, "nbas": nbas, "x0": x0, "dvr": dvr, "general_xp_power": general}
        b, e = quiet(ba.BasisSHO, "v", omega, nbas, x0=x0, dvr=dvr, general_xp_power=general)
        base_key = ("sho", nbas, omega, x0, dvr, general)
        base_rep = {"class": "BasisSHO", "args": args, "how": "renormalizer.model.basis.BasisSHO('v', **args).op_mat(symbol)"}
        base_fields = {"x0_zero": bool(x0 == 0), "dvr": dvr, "general_xp_power": general, "nbas": nbas}
        if e is not None:
            led.check(False, "post:BasisSHO.__init__:constructs", "BasisSHO.__init__", f"constructor raised {type(e).__name__}: {e}", base_key, base_fields, base_rep)
            continue
        V = None
        if dvr:
            V = np.asarray(b.dvr_v)
            xs = np.asarray(b.dvr_x)
            sc = max(1.0, np.abs(Xt).max())
            ok = V.shape == (nbas, nbas) and dev(V.T @ V, np.eye(nbas))[0] <= tol(1, nbas) and \
                dev(Xt @ V, V * xs[None, :])[0] <= tol(sc, nbas) and bool(np.all(np.diff(xs) >= 0))
            led.check(ok, "post:BasisSHO.__init__:dvr_rotation", "BasisSHO.__init__",
                      "dvr_v is not an orthogonal matrix diagonalising the truncated x (ascending dvr_x)", base_key + ("V",), base_fields, base_rep, nbas >= 2)
            if not ok:
                continue
            eig = np.linalg.eigvalsh(Xt)
        mats = {}
        for sym in symbols:
            letters, exact, tprod, mask, scale = refs[sym]
            if general and not (set(letters) <= {"x"} or set(letters) <= {"p"} or sym in ("x p", "n")):
                continue      # general_xp_power only changes the dispatch of x / p powers; the other symbols are covered with the flag off
            fam = sho_family(letters)
            fields = dict(base_fields, symbol=sym, family=fam)
            key = base_key + (sym,)
            M, e = quiet(b.op_mat, sym)
            rep = dict(base_rep, symbol=sym, expected_exact_truncated=small(exact), actual=small(M) if M is not None else None)
            if e is not None:
                led.check(False, "post:BasisSHO.op_mat:supported_symbol", "BasisSHO.op_mat",
                          f"symbol {sym!r} is dispatched on in the source but op_mat raised {type(e).__name__}: {e}", key, fields, rep)
                continue
            M = np.asarray(M)
            mats[sym] = M
            if not led.check(M.shape == (nbas, nbas), "post:BasisSHO.op_mat:shape", "BasisSHO.op_mat", f"shape {M.shape} for nbas={nbas}", key + ("shape",), fields, rep):
                continue
            kinds = set(letters)
            pure_x = kinds <= {"x"}
            pure_p = kinds <= {"p", "dx"} and len(kinds) <= 1
            single = len(letters) <= 1
            nontriv = nbas >= 2 and len(letters) >= 1
            if not dvr:
                if pure_x or pure_p:
                    d, at = dev(M, exact)
                    led.check(d <= tol(scale), "post:BasisSHO.op_mat:exact_power", "BasisSHO.op_mat",
                              f"{sym!r}: differs from the power of the exact operator truncated to {nbas} levels by {d:.3e} at {at} (scale {scale:.3g})",
                              key + ("power",), fields, rep, nontriv)
                elif single:
                    d, at = dev(M, exact)
                    led.check(d <= tol(scale), "post:BasisSHO.op_mat:ladder_definition", "BasisSHO.op_mat",
                              f"{sym!r}: differs from the ladder-operator definition by {d:.3e} at {at}", key + ("def",), fields, rep, nontriv)
                else:
                    d, at = dev(M, exact, mask)
                    ordered = led.check(d <= tol(scale), "post:BasisSHO.op_mat:product_order", "BasisSHO.op_mat",
                                        f"{sym!r}: differs from the matrix product of its factors in the written order by {d:.3e} at {at} "
                                        f"(entries unaffected by the truncation: {int(mask.sum())} of {mask.size})", key + ("order",), fields, rep,
                                        nontriv and bool(mask.any()))
                    if not ordered:
                        continue      # the entries at the truncation edge are only meaningful once the order is right
                    near = np.minimum(np.abs(M - exact), np.abs(M - tprod))
                    d2 = float(np.where(~mask, near, 0.0).max()) if mask.size else 0.0
                    led.check(d2 <= tol(scale), "post:BasisSHO.op_mat:truncation_convention", "BasisSHO.op_mat",
                              f"{sym!r}: an entry affected by the truncation is neither the exact matrix element nor the product of the "
                              f"truncated factors (off by {d2:.3e})", key + ("conv",), fields, rep, nontriv and bool((~mask).any()))
            else:
                Mr = V @ M @ V.T
                t = tol(scale, nbas)
                if pure_p:
                    d, at = dev(Mr, exact)
                    led.check(d <= t, "post:BasisSHO.op_mat:dvr_unitary_consistent", "BasisSHO.op_mat",
                              f"{sym!r} (dvr): V M V^T differs from the exact truncated matrix by {d:.3e} at {at}", key + ("dvr",), fields, rep, nontriv)
                else:
                    d, at = dev(Mr, exact, mask)
                    led.check(d <= t, "post:BasisSHO.op_mat:dvr_unitary_consistent", "BasisSHO.op_mat",
                              f"{sym!r} (dvr): V M V^T differs from the written-order product on the entries unaffected by truncation by {d:.3e} at {at}",
                              key + ("dvr",), fields, rep, nontriv and bool(mask.any()))
                    if pure_x:
                        k = len(letters)
                        d, at = dev(M, np.diag(eig ** k))
                        led.check(d <= t, "post:BasisSHO.op_mat:dvr_potential_diagonal", "BasisSHO.op_mat",
                                  f"{sym!r} (dvr): not diag(x_i^{k}) of the DVR grid points (off by {d:.3e})", key + ("dvrdiag",), fields, rep, nontriv)
        # DVR: powers of x with non-integer and negative exponents are the function of the grid points (origin moved far enough for a positive grid)
        if dvr and not general:
            x0p = 6.0 * np.sqrt(max(nbas, 1) / omega) + 2.0
            bp, e = quiet(ba.BasisSHO, "v", omega, nbas, x0=x0p, dvr=True)
            if e is None and np.all(np.asarray(bp.dvr_x) > 0):
                xp = np.asarray(bp.dvr_x)
                for sym, power in (("x^0.5", 0.5), ("x^1.5", 1.5), ("x^-0.5", -0.5), ("x^-1", -1.0), ("x^2.0", 2.0)):
                    M, e = quiet(bp.op_mat, sym)
                    want = np.diag(xp ** power)
                    ok = e is None and np.asarray(M).shape == want.shape and dev(np.asarray(M), want)[0] <= tol(max(1.0, np.abs(want).max()), nbas)
                    led.check(ok, "post:BasisSHO.op_mat:dvr_real_exponent_is_the_function_of_the_grid", "BasisSHO.op_mat",
                              f"{sym!r} (dvr, x0={x0p:.3g}): not diag(x_i^{power})" + (f"; raised {e!r}" if e else ""), base_key + ("dvrpow", sym),
                              dict(base_fields, symbol=sym), dict(base_rep, symbol=sym, x0=x0p), nbas >= 1)
        # canonical commutator on the block unaffected by truncation
        if "x" in mats and "p" in mats and nbas >= 1:
            X, P = mats["x"], mats["p"]
            C = X @ P - P @ X
            if dvr:
                C = V @ C @ V.T
            sc = max(1.0, np.abs(X).max() * np.abs(P).max())
            d, at = dev(C[:nbas - 1, :nbas - 1], 1j * np.eye(nbas - 1))
            led.check(d <= tol(sc, nbas), "post:BasisSHO.op_mat:canonical_commutator", "BasisSHO.op_mat",
                      f"[x,p] != i on the lower {nbas - 1}x{nbas - 1} block (off by {d:.3e} at {at})", base_key + ("comm",), base_fields, base_rep, nbas >= 2)
        # op_mat(Op with factor) scales; repeated calls give the same matrices (no state leaks between calls)
        for sym in [s for s in ("x", "p", "x^2", r"b^\dagger b", "x p", "x^3", "dx") if s in mats]:
            for c in (-2.5, 0.3 + 0.4j):
                nl = len(sym.split(" "))
                M, e = quiet(b.op_mat, Op(sym, "v" if nl == 1 else ["v"] * nl, c))
                ok = e is None and dev(M, c * mats[sym])[0] <= tol(np.abs(mats[sym]).max() * abs(c))
                led.check(ok, "post:BasisSHO.op_mat:factor_scales", "BasisSHO.op_mat", f"op_mat(Op({sym!r}, factor={c})) != {c} * op_mat({sym!r})" + (f" raised {e!r}" if e else ""),
                          base_key + (sym, "factor", str(c)), dict(base_fields, symbol=sym), dict(base_rep, symbol=sym, factor=c))
        _, e = quiet(b.op_mat, "not a symbol")
        led.check(isinstance(e, ValueError), "post:BasisSHO.op_mat:unsupported_raises", "BasisSHO.op_mat",
                  f"an unsupported symbol did not raise ValueError ({e!r})", base_key + ("unsupported",), base_fields, base_rep)
        for sym in list(mats)[:8] + [s for s in ("x", "p^2") if s in mats]:
            M, e = quiet(b.op_mat, sym)
            led.check(e is None and dev(M, mats[sym])[0] == 0, "frame:BasisSHO.op_mat:repeatable", "BasisSHO.op_mat",
                      f"second evaluation of {sym!r} (after other calls and a rejected symbol) differs from the first", base_key + (sym, "again"),
                      dict(base_fields, symbol=sym), dict(base_rep, symbol=sym))
        check_copy(led, b, "w", lambda c: [(s, (lambda s=s: b.op_mat(s)), (lambda s=s: c.op_mat(s))) for s in ("x", "p", "x^2", "x^3") if s in mats],
                   "BasisSHO", base_key, base_fields, base_rep)


# =========================================================================================== BasisHopsBoson / BasisSimpleElectron / BasisDummy
def w_small(case, led):
    kind = case[0]
    from renormalizer.model import basis as ba, Op
    if kind == "hops":
        _, nbas, seed, tier = case
        b = ba.BasisHopsBoson("h", nbas)
        ref = S.hops_matrices(nbas)
        ex = S.extract_symbols(ba.BasisHopsBoson)
        key0 = ("hops", nbas)
        rep0 = {"class": "BasisHopsBoson", "nbas": nbas}
        got = {}
        for sym in sorted(l for l in ex["literals"] if l in S.HOPS_LETTERS):
            M, e = quiet(b.op_mat, sym)
            fields = {"symbol": sym, "nbas": nbas}
            rep = dict(rep0, symbol=sym, expected=small(ref[sym]), actual=small(M) if M is not None else None)
            if e is not None:
                led.check(False, "post:BasisHopsBoson.op_mat:supported_symbol", "BasisHopsBoson.op_mat", f"{sym!r} raised {e!r}", key0 + (sym,), fields, rep)
                continue
            got[sym] = np.asarray(M)
            d, at = dev(M, ref[sym])
            led.check(d <= tol(nbas), "post:BasisHopsBoson.op_mat:ladder_definition", "BasisHopsBoson.op_mat",
                      f"{sym!r} differs from the documented action on |n> by {d:.3e} at {at}", key0 + (sym,), fields, rep, nbas >= 2)
            M2, e = quiet(b.op_mat, Op(sym, "h", -1.5 + 2j))
            led.check(e is None and dev(M2, (-1.5 + 2j) * np.asarray(M))[0] <= tol(nbas * 3), "post:BasisHopsBoson.op_mat:factor_scales", "BasisHopsBoson.op_mat",
                      f"factor of Op({sym!r}) not applied", key0 + (sym, "factor"), fields, rep)
        up, dn, num = got.get(r"\tilde{b}^\dagger"), got.get(r"\tilde{b}"), got.get(r"b^\dagger b")
        if up is not None and dn is not None and num is not None:
            d, at = dev(num, up @ dn)
            led.check(d <= tol(nbas), "post:BasisHopsBoson.op_mat:product_order", "BasisHopsBoson.op_mat",
                      f"'b^\\dagger b' != op(b~^dagger) @ op(b~) (off by {d:.3e} at {at})", key0 + ("num",), {"symbol": r"b^\dagger b", "nbas": nbas}, rep0, nbas >= 2)
            C = dn @ up - up @ dn
            d, at = dev(C[:nbas - 1, :nbas - 1], np.eye(nbas - 1))
            led.check(d <= tol(nbas), "post:BasisHopsBoson.op_mat:commutator", "BasisHopsBoson.op_mat",
                      f"[b~, b~^dagger] != 1 on the lower block (off by {d:.3e})", key0 + ("comm",), {"nbas": nbas}, rep0, nbas >= 2)
        _, e = quiet(b.op_mat, "x")
        led.check(isinstance(e, ValueError), "post:BasisHopsBoson.op_mat:unsupported_raises", "BasisHopsBoson.op_mat", f"unsupported symbol: {e!r}", key0 + ("unsup",), {}, rep0)
        check_copy(led, b, ("h", 2), lambda c: [(s, (lambda s=s: b.op_mat(s)), (lambda s=s: c.op_mat(s))) for s in got], "BasisHopsBoson", key0, {"nbas": nbas}, rep0)
    elif kind == "elec":
        _, seed, tier = case
        for sq in (None, [0, 1], [[0, 0], [1, 0]], [1, 0]):
            b = ba.BasisSimpleElectron("e", sigmaqn=sq)
            key0 = ("elec", str(sq))
            rep0 = {"class": "BasisSimpleElectron", "sigmaqn": sq}
            ex = S.extract_symbols(ba.BasisSimpleElectron)
            got = {}
            for sym in sorted(l for l in ex["literals"] if l in S.ELEC_LETTERS):
                M, e = quiet(b.op_mat, sym)
                fields = {"symbol": sym}
                rep = dict(rep0, symbol=sym, expected=S.simple_electron(sym), actual=M)
                if e is not None:
                    led.check(False, "post:BasisSimpleElectron.op_mat:supported_symbol", "BasisSimpleElectron.op_mat", f"{sym!r} raised {e!r}", key0 + (sym,), fields, rep)
                    continue
                got[sym] = np.asarray(M)
                led.check(dev(M, S.simple_electron(sym))[0] == 0, "post:BasisSimpleElectron.op_mat:definition", "BasisSimpleElectron.op_mat",
                          f"{sym!r}: not the documented matrix (level 0 unoccupied, level 1 occupied)", key0 + (sym,), fields, rep)
                for c in (3.0, -0.5j):
                    M2, e = quiet(b.op_mat, Op(sym, "e" if " " not in sym else ["e", "e"], c))
                    led.check(e is None and dev(M2, c * np.asarray(M))[0] <= tol(3), "post:BasisSimpleElectron.op_mat:factor_scales", "BasisSimpleElectron.op_mat",
                              f"factor {c} of Op({sym!r}) not applied", key0 + (sym, "factor", str(c)), fields, rep)
            if all(s in got for s in S.ELEC_LETTERS):
                ad, a, n = got[r"a^\dagger"], got["a"], got[r"a^\dagger a"]
                led.check(dev(n, ad @ a)[0] == 0, "post:BasisSimpleElectron.op_mat:product_order", "BasisSimpleElectron.op_mat",
                          "'a^\\dagger a' != op(a^dagger) @ op(a)", key0 + ("order",), {"symbol": r"a^\dagger a"}, rep0)
                led.check(dev(a @ ad + ad @ a, np.eye(2))[0] == 0 and dev(a @ a, np.zeros((2, 2)))[0] == 0 and dev(a, ad.T)[0] == 0,
                          "post:BasisSimpleElectron.op_mat:ladder_algebra", "BasisSimpleElectron.op_mat", "a a^+ + a^+ a != 1, a a != 0 or a != (a^+)^T",
                          key0 + ("algebra",), {}, rep0)
            check_copy(led, b, "f", lambda c: [(s, (lambda s=s: b.op_mat(s)), (lambda s=s: c.op_mat(s))) for s in got], "BasisSimpleElectron", key0,
                       {"custom_sigmaqn": sq is not None and sq != [0, 1]}, rep0)
    elif kind == "dummy":
        _, seed, tier = case
        for nbas in (1, 2, 3):
            b = ba.BasisDummy("d", nbas=nbas)
            key0 = ("dummy", nbas)
            rep0 = {"class": "BasisDummy", "nbas": nbas}
            fields = {"nbas_is_one": nbas == 1}
            M, e = quiet(b.op_mat, "I")
            ok = e is None and np.asarray(M).shape == (nbas, nbas) and dev(M, np.eye(nbas))[0] == 0
            led.check(ok, "post:BasisDummy.op_mat:identity", "BasisDummy.op_mat",
                      f"op_mat('I') is not the {nbas}x{nbas} identity (got shape {None if M is None else np.asarray(M).shape}, exc {e!r})", key0 + ("I",), fields, rep0)
            M2, e = quiet(b.op_mat, Op("I", "d", 2.5))
            led.check(e is None and M is not None and dev(M2, 2.5 * np.asarray(M))[0] == 0, "post:BasisDummy.op_mat:factor_scales", "BasisDummy.op_mat",
                      "factor not applied", key0 + ("factor",), fields, rep0)
            _, e = quiet(b.op_mat, "x")
            led.check(isinstance(e, ValueError), "post:BasisDummy.op_mat:unsupported_raises", "BasisDummy.op_mat", f"unsupported symbol: {e!r}", key0 + ("unsup",), fields, rep0)
            check_copy(led, b, "d2", lambda c: [("I", lambda: b.op_mat("I"), lambda: c.op_mat("I"))], "BasisDummy", key0, fields, rep0)


# =========================================================================================== BasisHalfSpin
def w_spin(case, led):
    _, part, seed, tier = case
    from renormalizer.model import basis as ba, Op
    ex = S.extract_symbols(ba.BasisHalfSpin)
    syms = sorted(l for l in ex["literals"] if l in S.SPIN_LETTERS)
    b = ba.BasisHalfSpin("s", sigmaqn=[[0, 1], [1, 0]] if part % 2 else None)
    rep0 = {"class": "BasisHalfSpin"}
    single = {}
    for sym in syms:
        M, e = quiet(b.op_mat, sym)
        ref = S.pauli(S.SPIN_LETTERS[sym])
        fields = {"symbol": sym}
        rep = dict(rep0, symbol=sym, expected=ref, actual=M)
        if e is not None:
            led.check(False, "post:BasisHalfSpin.op_mat:supported_symbol", "BasisHalfSpin.op_mat", f"{sym!r} raised {e!r}", ("spin", sym), fields, rep)
            continue
        single[sym] = np.asarray(M)
        if part == 0:
            led.check(dev(M, ref)[0] == 0, "post:BasisHalfSpin.op_mat:pauli_definition", "BasisHalfSpin.op_mat",
                      f"{sym!r} is not the Pauli matrix {S.SPIN_LETTERS[sym]} (sigma_z = diag(1,-1))", ("spin", sym), fields, rep)
            for c in (-2.0, 0.5 - 1.5j):
                M2, e = quiet(b.op_mat, Op(sym, "s", c))
                led.check(e is None and dev(M2, c * np.asarray(M))[0] <= tol(4), "post:BasisHalfSpin.op_mat:factor_scales", "BasisHalfSpin.op_mat",
                          f"factor {c} of Op({sym!r}) not applied", ("spin", sym, "factor", str(c)), fields, rep)
    if part == 0 and all(s in single for s in ("X", "Y", "Z", "+", "-", "iY", "I")):
        X, Y, Z, Pp, Pm, iY, I2 = (single[s] for s in ("X", "Y", "Z", "+", "-", "iY", "I"))
        rel = {"XY=iZ": (X @ Y, 1j * Z), "YZ=iX": (Y @ Z, 1j * X), "ZX=iY": (Z @ X, 1j * Y), "YX=-iZ": (Y @ X, -1j * Z),
               "XX=I": (X @ X, I2), "YY=I": (Y @ Y, I2), "ZZ=I": (Z @ Z, I2), "+=(X+iY)/2": (Pp, (X + 1j * Y) / 2), "-=(X-iY)/2": (Pm, (X - 1j * Y) / 2),
               "iY=i*Y": (iY, 1j * Y), "[+,-]=Z": (Pp @ Pm - Pm @ Pp, Z), "Z+=+": (Z @ Pp, Pp)}
        for name, (l, r) in rel.items():
            led.check(dev(l, r)[0] == 0, "post:BasisHalfSpin.op_mat:pauli_algebra", "BasisHalfSpin.op_mat", f"relation {name} fails for the returned matrices",
                      ("spin", "alg", name), {"relation": name}, dict(rep0, relation=name, lhs=l, rhs=r))
        led.check(np.isrealobj(iY), "post:BasisHalfSpin.op_mat:iY_real", "BasisHalfSpin.op_mat", "'iY' is documented as the real form of i*sigma_y but is complex",
                  ("spin", "iYreal"), {"symbol": "iY"}, rep0)
        for alias, canon in (("sigma_x", "X"), ("x", "X"), ("sigma_y", "Y"), ("y", "Y"), ("sigma_z", "Z"), ("z", "Z"), ("isigma_y", "iY"), ("iy", "iY"),
                             ("sigma_+", "+"), ("sigma_-", "-")):
            if alias in single and canon in single:
                led.check(dev(single[alias], single[canon])[0] == 0, "post:BasisHalfSpin.op_mat:alias", "BasisHalfSpin.op_mat", f"{alias!r} != {canon!r}",
                          ("spin", "alias", alias), {"symbol": alias}, rep0)
        _, e = quiet(b.op_mat, "sigma_w")
        led.check(isinstance(e, ValueError), "post:BasisHalfSpin.op_mat:unsupported_raises", "BasisHalfSpin.op_mat", f"unsupported symbol: {e!r}", ("spin", "unsup"), {}, rep0)
        check_copy(led, b, "t", lambda c: [(s, (lambda s=s: b.op_mat(s)), (lambda s=s: c.op_mat(s))) for s in single], "BasisHalfSpin", ("spin",), {}, rep0)
    # products in the written order: all ordered pairs (split over the parts), seeded longer words
    avail = [s for s in syms if s in single]
    words = []
    if part < 4:
        pairs = list(itertools.product(avail, repeat=2))
        words += pairs[part::4]
    rng = np.random.default_rng([seed, part, 16])
    nlong = 60 if tier == "quick" else 400
    for _ in range(nlong):
        L = int(rng.integers(3, 6))
        words.append(tuple(avail[int(i)] for i in rng.integers(len(avail), size=L)))
    for w in words:
        sym = " ".join(w)
        ref = np.eye(2, dtype=complex)
        for l in w:
            ref = ref @ S.pauli(S.SPIN_LETTERS[l])
        c = complex(rng.choice([1.0, -0.5, 2.0])) * (1j if rng.random() < 0.3 else 1.0)
        M, e = quiet(b.op_mat, Op(sym, ["s"] * len(w), c))
        noncomm = len({S.SPIN_LETTERS[l] for l in w} - {"I"}) >= 2
        led.check(e is None and dev(M, c * ref)[0] <= tol(2 * abs(c)), "post:BasisHalfSpin.op_mat:product_order", "BasisHalfSpin.op_mat",
                  f"{sym!r} (factor {c}) is not the product of the Pauli matrices in the written order" + (f"; raised {e!r}" if e else ""),
                  ("spin", "word", sym), {"symbol": sym if len(w) <= 2 else "long word", "length": len(w)},
                  dict(rep0, symbol=sym, factor=c, expected=c * ref, actual=M), noncomm)


# =========================================================================================== multi-electron bases
def w_multi(case, led):
    _, ndof, vac, names, seed, tier = case
    from renormalizer.model import basis as ba, Op
    if names == "int":
        dofs = list(range(ndof))
    elif names == "intperm":
        dofs = [7, 2, 5, 11][:ndof]
    elif names == "str":
        dofs = [f"e{k}" for k in range(ndof)]
    else:
        dofs = [("mol", k, "ex") for k in range(ndof)]
    cls = "BasisMultiElectronVac" if vac else "BasisMultiElectron"
    if vac:
        b = ba.BasisMultiElectronVac(dofs)
        off = 1
    else:
        b = ba.BasisMultiElectron(dofs, [1] * ndof if ndof % 2 else list(range(ndof)))
        off = 0
    nb = ndof + off
    key0 = ("multi", ndof, vac, names)
    rep0 = {"class": cls, "dofs": [repr(d) for d in dofs]}
    fn = f"{cls}.op_mat"
    led.check(b.nbas == nb and (not vac or np.array_equal(np.asarray(b.sigmaqn).ravel(), [0] + [1] * ndof)), f"post:{cls}.__init__:layout", f"{cls}.__init__",
              f"nbas {b.nbas} / sigmaqn {np.asarray(b.sigmaqn).tolist()} do not match the documented layout", key0 + ("layout",), {}, rep0)

    def unit(r, c):
        m = np.zeros((nb, nb))
        m[r, c] = 1.0
        return m

    def one_check(sym, ds, word, position, same):
        fields = {"symbol": sym, "same_dof": same, "vac": vac}
        key = key0 + (sym, tuple(dofs.index(d) for d in ds))
        op = Op(sym, ds if len(ds) > 1 else ds[0])
        M, e = quiet(b.op_mat, op)
        exact, tprod, mask = S.hardcore_fock(ndof, word, vac)
        rep = dict(rep0, symbol=sym, op_dofs=[repr(d) for d in ds], expected=small(exact), actual=small(M) if M is not None else None)
        if e is not None:
            led.check(False, f"post:{fn}:supported_symbol", fn, f"Op({sym!r}, {ds!r}) raised {type(e).__name__}: {e}", key, fields, rep)
            return None
        M = np.asarray(M)
        if position is not None:
            led.check(M.shape == (nb, nb) and dev(M, unit(*position))[0] == 0, f"post:{fn}:single_one_position", fn,
                      f"Op({sym!r}, {ds!r}): expected a single 1 at {position}, got non-zeros at {list(zip(*np.nonzero(M)))}", key + ("pos",), fields, rep)
        led.check(dev(M, exact)[0] == 0, f"post:{fn}:fock_projection", fn,
                  f"Op({sym!r}, {ds!r}) is not the written-order product of hard-core ladder operators projected on the kept states", key + ("fock",), fields, rep)
        if vac and len(word) > 1:
            d, at = dev(M, tprod, mask)
            led.check(d == 0, f"post:{fn}:product_order", fn,
                      f"Op({sym!r}, {ds!r}) differs from the product of its factor matrices in the written order at {at} (entry unaffected by the truncation)",
                      key + ("order",), fields, rep, bool(mask.any()))
        for c in (2.0, -1j):
            M2, e = quiet(b.op_mat, Op(sym, ds if len(ds) > 1 else ds[0], c))
            led.check(e is None and dev(M2, c * M)[0] == 0, f"post:{fn}:factor_scales", fn, f"factor {c} of Op({sym!r}) not applied", key + ("factor", str(c)), fields,
                      dict(rep, factor=c))
        return M

    for i, j in itertools.product(range(ndof), repeat=2):
        one_check(r"a^\dagger a", [dofs[i], dofs[j]], [(r"a^\dagger", i), ("a", j)], (i + off, j + off), i == j)
        one_check(r"a a^\dagger", [dofs[i], dofs[j]], [("a", i), (r"a^\dagger", j)], (j + off, i + off) if i != j else None, i == j)
    if vac:
        for i in range(ndof):
            one_check(r"a^\dagger", [dofs[i]], [(r"a^\dagger", i)], (i + 1, 0), False)
            one_check("a", [dofs[i]], [("a", i)], (0, i + 1), False)
    else:
        _, e = quiet(b.op_mat, Op("a", dofs[0]))
        led.check(isinstance(e, ValueError), f"post:{fn}:vacuum_needed_raises", fn, f"a single ladder operator needs the vacuum state; got {e!r}", key0 + ("novac",), {}, rep0)
    # identities (any number of factors the class accepts)
    idw = [["I"], ["I", "I"]] + ([["I", "I", "I"]] if vac else [])
    for w in idw:
        ds = [dofs[k % ndof] for k in range(len(w))]
        for c in (1.0, 2.0):
            M, e = quiet(b.op_mat, Op(" ".join(w), ds if len(ds) > 1 else ds[0], c))
            fields = {"symbol": " ".join(w), "factor_is_one": c == 1.0, "vac": vac}
            led.check(e is None and dev(M, c * np.eye(nb))[0] == 0, f"post:{fn}:identity" if c == 1.0 else f"post:{fn}:factor_scales", fn,
                      f"Op({' '.join(w)!r}, factor={c}) is not {c} * identity" + (f"; raised {e!r}" if e else ""), key0 + ("I", len(w), c), fields,
                      dict(rep0, symbol=" ".join(w), factor=c, actual=small(M) if M is not None else None))
    _, e = quiet(b.op_mat, Op("x x", [dofs[0], dofs[-1]]))
    led.check(isinstance(e, ValueError), f"post:{fn}:unsupported_raises", fn, f"unsupported symbol: {e!r}", key0 + ("unsup",), {}, rep0)
    newd = [("c", k) for k in range(ndof)]
    check_copy(led, b, newd, lambda c: [((i, j), (lambda i=i, j=j: b.op_mat(Op(r"a^\dagger a", [dofs[i], dofs[j]]))),
                                         (lambda i=i, j=j: c.op_mat(Op(r"a^\dagger a", [newd[i], newd[j]])))) for i in range(ndof) for j in range(ndof)],
               cls, key0, {"vac": vac}, rep0)


# =========================================================================================== BasisSineDVR
def sine_symbols(ex):
    out = sorted(l for l in ex["literals"] if S.sine_parse(l) is not None)
    if ("repeat", "x") in ex["families"]:
        out += ["x x", "x x x"]
    if ("partialx", "dx") in ex["aliases"]:
        out += ["partialx", "x partialx", "x^2 partialx^2"]
    seen, res = set(), []
    for s in out:
        if s not in seen:
            seen.add(s)
            res.append(s)
    return res


def w_sine(case, led):
    _, nbas, xi, xf, endpoint, seed, tier = case
    from renormalizer.model import basis as ba, Op
    ora = S.SineOracle(nbas, xi, xf, endpoint)
    ex = S.extract_symbols(ba.BasisSineDVR)
    symbols = sine_symbols(ex)
    Vo = ora.rotation()
    grid = ora.grid()
    cache = {}

    def reference(sym):
        if sym not in cache:
            cache[sym] = ora.matrix(S.sine_parse(sym))
        return cache[sym]

    first = {}
    for dvr in (False, True):
        args = {"nbas": nbas, "xi": xi, "xf": xf, "endpoint": endpoint, "dvr": dvr}
        base_key = ("sine", nbas, xi, xf, endpoint, dvr)
        base_rep = {"class": "BasisSineDVR", "args": args, "how": "BasisSineDVR('q', nbas, xi, xf, endpoint=..., dvr=...).op_mat(symbol)"}
        base_fields = {"dvr": dvr, "endpoint": endpoint, "nbas": nbas}
        b, e = quiet(ba.BasisSineDVR, "q", nbas, xi, xf, endpoint=endpoint, dvr=dvr)
        if e is not None:
            led.check(False, "post:BasisSineDVR.__init__:constructs", "BasisSineDVR.__init__", f"constructor raised {e!r}", base_key, base_fields, base_rep)
            continue
        sc = max(1.0, abs(xi), abs(xf))
        ok = dev(b.dvr_x, grid)[0] <= tol(sc) and dev(b.dvr_v, Vo)[0] <= tol(1) and abs(b.L - ora.L) <= tol(sc) and abs(b.xi - ora.x0) <= tol(sc)
        if endpoint:
            ok = ok and abs(b.dvr_x[0] - xi) <= tol(sc) and abs(b.dvr_x[-1] - xf) <= tol(sc)
        led.check(ok, "post:BasisSineDVR.__init__:grid", "BasisSineDVR.__init__",
                  f"grid points / rotation / box do not match the documented x_a = x_0 + a L/(N+1) (endpoint={endpoint}): dvr_x={np.asarray(b.dvr_x).tolist()}",
                  base_key + ("grid",), base_fields, base_rep)
        mats = {}
        for sym in symbols:
            fields = dict(base_fields, symbol=sym)
            key = base_key + (sym,)
            M, e = quiet(b.op_mat, sym)
            ref, err = reference(sym)
            rep = dict(base_rep, symbol=sym, expected_plain=small(ref), actual=small(M) if M is not None else None)
            if e is not None:
                led.check(False, "post:BasisSineDVR.op_mat:supported_symbol", "BasisSineDVR.op_mat",
                          f"symbol {sym!r} is dispatched on in the source but op_mat raised {type(e).__name__}: {e}", key, fields, rep)
                continue
            M = np.asarray(M)
            mats[sym] = M
            scale = max(1.0, float(np.abs(ref).max()))
            t = 10 * err + tol(scale, nbas)
            if not dvr:
                first[sym] = M
                d, at = dev(M, ref)
                led.check(d <= t, "post:BasisSineDVR.op_mat:analytic_integral", "BasisSineDVR.op_mat",
                          f"{sym!r}: differs from the quadrature of <psi_j| operator |psi_k> by {d:.3e} at {at} (quad error estimate {err:.1e}, scale {scale:.3g})",
                          key + ("quad",), fields, rep, nbas >= 2)
            else:
                d, at = dev(M, Vo.T @ ref @ Vo)
                led.check(d <= t * nbas, "post:BasisSineDVR.op_mat:dvr_unitary_consistent", "BasisSineDVR.op_mat",
                          f"{sym!r} (dvr): differs from V^T (plain matrix) V by {d:.3e} at {at}", key + ("dvr",), fields, rep, nbas >= 2)
        # products with p^2 on the right: p^2 is diagonal in this basis, so the written-order product of the matrices is exact
        if not dvr:
            for sym in symbols:
                f = S.sine_parse(sym)
                if len(f) == 2 and f[0][0] == "x" and f[1] in (("p", 2), ("dx", 2)) and sym in mats:
                    left, right = sym.split(" ")
                    if left in mats and right in mats:
                        ref = mats[left] @ mats[right]
                        d, at = dev(mats[sym], ref)
                        led.check(d <= tol(np.abs(ref).max(), nbas), "post:BasisSineDVR.op_mat:product_order", "BasisSineDVR.op_mat",
                                  f"{sym!r} != op({left!r}) @ op({right!r}) (off by {d:.3e} at {at})", base_key + (sym, "order"), dict(base_fields, symbol=sym),
                                  dict(base_rep, symbol=sym), nbas >= 2)
        for sym in [s for s in ("x", "dx", "x^2 p^2", "p") if s in mats]:
            for c in (-2.5, 0.3 + 0.4j):
                nl = len(sym.split(" "))
                M, e = quiet(b.op_mat, Op(sym, "q" if nl == 1 else ["q"] * nl, c))
                led.check(e is None and dev(M, c * mats[sym])[0] <= tol(np.abs(mats[sym]).max() * abs(c)), "post:BasisSineDVR.op_mat:factor_scales", "BasisSineDVR.op_mat",
                          f"factor {c} of Op({sym!r}) not applied", base_key + (sym, "factor", str(c)), dict(base_fields, symbol=sym), dict(base_rep, symbol=sym, factor=c))
        # symbols without analytic matrix elements
        if not dvr:
            _, e = quiet(b.op_mat, "x^4")
            led.check(isinstance(e, ValueError), "post:BasisSineDVR.op_mat:unsupported_raises", "BasisSineDVR.op_mat",
                      f"'x^4' without dvr/quadrature should be rejected with ValueError, got {e!r}", base_key + ("unsup",), base_fields, base_rep)
        else:
            for sym, k in (("x^4", 4), ("x x x x", 4), ("x^5", 5)):
                M, e = quiet(b.op_mat, sym)
                ref = np.diag(grid ** k)
                ok = e is None and dev(M, ref)[0] <= tol(np.abs(ref).max(), nbas * nbas)
                led.check(ok, "post:BasisSineDVR.op_mat:dvr_potential_diagonal", "BasisSineDVR.op_mat",
                          f"{sym!r} (dvr): not diag(x_a^{k}) at the grid points" + (f"; raised {e!r}" if e else ""), base_key + (sym, "dvrpot"),
                          dict(base_fields, symbol=sym), dict(base_rep, symbol=sym, expected=small(ref), actual=small(M) if M is not None else None), nbas >= 2)
        check_copy(led, b, "r", lambda c: [(s, (lambda s=s: b.op_mat(s)), (lambda s=s: c.op_mat(s))) for s in ("x", "dx", "x^2") if s in mats],
                   "BasisSineDVR", base_key, base_fields, base_rep)
        # a rejected symbol must not change later results
        if "x" in mats:
            _, e = quiet(b.op_mat, "x dx x")
            if isinstance(e, ValueError):
                M, e2 = quiet(b.op_mat, "x")
                led.check(e2 is None and dev(M, mats["x"])[0] == 0, "frame:BasisSineDVR.op_mat:rejected_symbol_leaves_state", "BasisSineDVR.op_mat",
                          "op_mat('x') changed after a call with an unsupported symbol raised ValueError (stale recursion flag)", base_key + ("leak",), base_fields,
                          dict(base_rep, sequence=["x", "x dx x (ValueError)", "x"]), nbas >= 2)
    # explicit quadrature branch of the real code (expensive: sympy) on the smallest sizes only
    if nbas <= 3 and not endpoint:
        for dvr in (False, True):
            b, e = quiet(ba.BasisSineDVR, "q", nbas, xi, xf, quadrature=True, dvr=dvr)
            if e is not None:
                continue
            for sym in ("x^4", "dx x", "x^4 dx dx"):
                base_key = ("sine", nbas, xi, xf, "quadrature", dvr, sym)
                fields = {"dvr": dvr, "quadrature": True, "symbol": sym}
                ref, err = reference(sym)
                potential = all(l == "x" for l, _ in S.sine_parse(sym))
                if dvr and potential:
                    want = np.diag(grid ** 4)
                else:
                    want = Vo.T @ ref @ Vo if dvr else ref
                M, e = quiet(b.op_mat, sym)
                scale = max(1.0, float(np.abs(ref).max()))
                d, at = (float("inf"), None) if e is not None else dev(M, want)
                led.check(d <= 10 * err + 1e-7 * scale, "post:BasisSineDVR.op_mat:quadrature_integral", "BasisSineDVR.op_mat",
                          f"{sym!r} (quadrature=True, dvr={dvr}): off by {d:.3e} at {at}" + (f"; raised {e!r}" if e else ""), base_key, fields,
                          {"class": "BasisSineDVR", "args": {"nbas": nbas, "xi": xi, "xf": xf, "quadrature": True, "dvr": dvr}, "symbol": sym,
                           "expected": small(want), "actual": small(M) if M is not None else None}, nbas >= 2)


# =========================================================================================== model builders
def _rng(seed, *ints):
    return np.random.default_rng([int(seed) & 0x7FFFFFFF] + [int(i) & 0x7FFFFFFF for i in ints])


def mpo_dense(model):
    from renormalizer.mps import Mpo
    m, e = quiet(lambda: np.asarray(Mpo(model).todense()))
    return m, e


def w_holstein(case, led):
    _, nmol, layout, jkind, wdiff, seed, tier = case
    from renormalizer.model import HolsteinModel, Mol, Phonon
    from renormalizer.model import basis as ba
    from renormalizer.utils import Quantity
    rng = _rng(seed, nmol, layout, sum(map(ord, jkind)), int(wdiff))
    ev = S.au_per_unit("eV")
    mols, spec = [], []
    for i in range(nmol):
        nmodes = 1 if layout == 0 else (2 if i % 2 == 0 else 1)
        modes = []
        for k in range(nmodes):
            w0 = float(rng.uniform(0.5, 1.5))
            w1 = w0 * float(rng.uniform(1.15, 1.4)) if (wdiff and (i + k) % 2 == 0) else w0
            d = float(rng.uniform(0.3, 0.9)) * (1 if (i + k) % 2 == 0 else -1)
            nb = 2 + (i + k + layout) % 2 if nmol >= 3 else 2 + (i + 2 * k + layout) % 3
            modes.append({"w0": w0, "w1": w1, "d": d, "nbas": nb})
        if wdiff and nmodes == 2 and seed % 2 == 0:
            # compensating shifts: one mode stiffens, the other softens, the frequencies are exchanged - the sums over the molecule (its zero-point energies) coincide
            modes[1]["w0"], modes[1]["w1"] = modes[0]["w1"], modes[0]["w0"]
        for m_ in modes:
            ph_ = Phonon([Quantity(m_["w0"]), Quantity(m_["w1"])], [Quantity(0), Quantity(m_["d"])], m_["nbas"])
            want10 = -(m_["w1"] ** 2) * m_["d"] / np.sqrt(2.0 * m_["w0"])
            led.check(abs(ph_.term10 - want10) <= tol(want10, 10), "post:Phonon.term10:linear_coupling_of_the_excited_surface", "Phonon.term10",
                      f"term10 = {ph_.term10} != -w1^2 d / sqrt(2 w0) = {want10}", ("holstein", "term10", nmol, layout, i, wdiff, m_["w0"]), {"wdiff": bool(m_["w0"] != m_["w1"])}, {"mode": m_})
        ex_ev = float(rng.uniform(3.0, 20.0))
        spec.append({"elocalex": ex_ev * ev, "modes": modes})
        phs = [Phonon([Quantity(m["w0"]), Quantity(m["w1"])], [Quantity(0), Quantity(m["d"])], m["nbas"]) for m in modes]
        mols.append(Mol(Quantity(ex_ev, "eV"), phs))
        lam = sum(0.5 * m["w1"] ** 2 * m["d"] ** 2 for m in modes)
        led.check(abs(mols[-1].e0 - lam) <= tol(lam, 10), "post:Mol.__init__:reorganization_energy", "Mol.__init__",
                  f"Mol.e0={mols[-1].e0} != sum w1^2 d^2/2 = {lam}", ("holstein", "e0", nmol, layout, i, wdiff), {}, {"modes": modes})
    periodic = jkind in ("nn_periodic", "array_periodic")
    jval_ev = float(rng.uniform(1.0, 6.0)) * (1 if rng.random() < 0.5 else -1)
    if jkind in ("nn_open", "nn_periodic"):
        jarg = Quantity(jval_ev, "eV")
        jspec = S.j_matrix_spec(nmol, jval_ev * ev, periodic)
    else:
        jspec = rng.uniform(0.05, 0.3, size=(nmol, nmol)) * rng.choice([-1.0, 1.0], size=(nmol, nmol))
        if jkind != "array_nonsym":
            jspec = (jspec + jspec.T) / 2
        np.fill_diagonal(jspec, 0.0)
        jarg = jspec.copy()
    hermitian = bool(np.allclose(jspec, jspec.T))
    spec_x = {"zpe": sum(m["w0"] / 2 for s in spec for m in s["modes"]), "lam": [sum(0.5 * m["w1"] ** 2 * m["d"] ** 2 for m in s["modes"]) for s in spec]}
    # the vertical excitation energy on the diagonal is elocalex + reorganisation energy (Mol.e0); the oracle gets it through (x-d)^2
    rep0 = {"builder": "HolsteinModel", "mols": spec, "elocalex_unit": "a.u.", "j": jspec, "jkind": jkind, "periodic": periodic, "seed": seed}
    key0 = ("holstein", nmol, layout, jkind, wdiff)
    spectra = {}
    dense4 = None
    for scheme in (1, 2, 3, 4):
        fields = {"scheme": scheme, "periodic": periodic, "different_omega": bool(wdiff), "nmol": nmol}
        key = key0 + (scheme,)
        rep = dict(rep0, scheme=scheme)
        model, e = quiet(HolsteinModel, mols, jarg, scheme=scheme, periodic=periodic)
        if e is not None:
            degenerate = periodic and jkind == "array_periodic" and (nmol < 2 or jspec[0, -1] == 0)
            led.check(degenerate, "post:HolsteinModel.__init__:constructs", "HolsteinModel.__init__", f"constructor raised {type(e).__name__}: {e}", key, fields, rep, False)
            continue
        Ho, exc, sites = S.holstein_dense(spec, jspec, scheme)
        # documented arrangement of the sites
        want = []
        for s in sites:
            if s[0] == "e":
                want.append(("BasisSimpleElectron", (s[1],), 2))
            elif s[0] == "E":
                want.append(("BasisMultiElectronVac", tuple(range(nmol)), nmol + 1))
            else:
                want.append(("BasisSHO", ((s[1], s[2]),), spec[s[1]]["modes"][s[2]]["nbas"]))
        got = [(type(b).__name__, tuple(b.dofs), b.nbas) for b in model.basis]
        led.check(got == want, "post:HolsteinModel.__init__:site_order", "HolsteinModel.__init__", f"basis arrangement {got} != documented {want}", key + ("sites",), fields, rep)
        if got != want:
            continue
        if isinstance(jarg, Quantity):
            d, at = dev(model.j_matrix - np.diag(np.diag(model.j_matrix)), jspec)
            led.check(d <= tol(abs(jval_ev * ev)), "post:HolsteinModel.__init__:j_matrix", "HolsteinModel.__init__",
                      f"off-diagonal J differs from nearest-neighbour {'periodic' if periodic else 'open'} coupling at {at}", key + ("J",), fields, rep, nmol >= 2)
        Hm, e = mpo_dense(model)
        if e is not None:
            # the oracle's term list only contains symbols every basis accepts, so a failure comes from the terms the builder generated
            led.check(False, "post:HolsteinModel.__init__:mpo_constructible", "HolsteinModel.__init__", f"Mpo(model) raised {type(e).__name__}: {e}", key + ("mpo",), fields, rep)
            continue
        scale = max(1.0, float(np.abs(Ho).max()))
        d, at = dev(Hm, Ho)
        led.check(d <= 1e-10 * scale, "post:HolsteinModel.__init__:dense_hamiltonian", "HolsteinModel.__init__",
                  f"dense(Mpo(model)) differs from the displaced-oscillator Hamiltonian of the documentation by {d:.3e} at {at} (dim {Ho.shape[0]})",
                  key + ("H",), fields, rep, nmol >= 2)
        if scheme == 4:
            dense4 = Hm
        if not wdiff and scheme in (2, 4):
            # the second-quantised formula of the docstring (g = -d sqrt(w/2), i.e. "displacement is defined as negative"; plus the zero-point energy)
            H2 = _holstein_second_quantised(spec, jspec, scheme, sites)
            d, at = dev(Hm, H2)
            led.check(d <= 1e-10 * scale, "post:HolsteinModel.__init__:second_quantised_formula", "HolsteinModel.__init__",
                      f"dense(Mpo(model)) differs from sum J a+a + w (b+b + 1/2) + g w a+a (b+ + b) by {d:.3e} at {at}", key + ("H2",), fields, rep, nmol >= 2)
        if hermitian:
            for nexc in (0, 1):
                idx = np.nonzero(exc == nexc)[0]
                sub = Hm[np.ix_(idx, idx)]
                spectra[(scheme, nexc)] = np.linalg.eigvalsh((sub + sub.conj().T) / 2)
            e0 = spectra[(scheme, 0)][0]
            led.check(abs(e0 - spec_x["zpe"]) <= 1e-10 * scale and abs(model.gs_zpe - spec_x["zpe"]) <= tol(spec_x["zpe"], 10), "post:HolsteinModel.gs_zpe:zero_sector_ground_energy",
                      "HolsteinModel.gs_zpe", f"lowest level without excitation {e0}, gs_zpe {model.gs_zpe}, sum w/2 = {spec_x['zpe']}", key + ("zpe",), fields, rep)
    if hermitian and all((s, 0) in spectra for s in (1, 2, 3, 4)):
        for s in (2, 3, 4):
            for nexc in (0, 1):
                a, b = spectra[(1, nexc)], spectra[(s, nexc)]
                ok = a.shape == b.shape and np.abs(a - b).max() <= 1e-9 * max(1.0, np.abs(a).max())
                led.check(ok, "post:HolsteinModel.__init__:scheme_independent_spectrum", "HolsteinModel.__init__",
                          f"spectrum of the {nexc}-excitation sector differs between scheme 1 and scheme {s}" + ("" if a.shape != b.shape else f" by {np.abs(a - b).max():.3e}"),
                          key0 + ("spec", s, nexc), {"scheme": s, "sector": nexc, "periodic": periodic, "different_omega": bool(wdiff)}, dict(rep0, scheme=s, sector=nexc),
                          nmol >= 2 or nexc == 1)
    if dense4 is not None:
        m2, e = quiet(HolsteinModel, mols, jarg, scheme=2, periodic=periodic)
        if e is None:
            m4, e = quiet(m2.switch_scheme, 4)
            if e is None:
                H4, e = mpo_dense(m4)
            led.check(e is None and dev(H4, dense4)[0] <= 1e-10 * max(1.0, np.abs(dense4).max()), "post:HolsteinModel.switch_scheme:same_as_direct", "HolsteinModel.switch_scheme",
                      f"switch_scheme(4) of a scheme-2 model differs from the scheme-4 model built directly ({e!r})", key0 + ("switch",),
                      {"periodic": periodic, "nmol": nmol}, rep0, nmol >= 2)


def _holstein_second_quantised(spec, jmat, scheme, sites):
    nmol = len(spec)
    where = {s: i for i, s in enumerate(sites)}
    dims = []
    for s in sites:
        dims.append(2 if s[0] == "e" else nmol + 1 if s[0] == "E" else spec[s[1]]["modes"][s[2]]["nbas"])

    def elec(i, j):
        if scheme == 4:
            m = np.zeros((nmol + 1, nmol + 1))
            m[i + 1, j + 1] = 1.0
            return {where[("E",)]: m}
        if i == j:
            return {where[("e", i)]: S.simple_electron(r"a^\dagger a")}
        return {where[("e", i)]: S.simple_electron(r"a^\dagger"), where[("e", j)]: S.simple_electron("a")}

    terms = []
    for i in range(nmol):
        for j in range(nmol):
            if i != j and jmat[i, j] != 0:
                terms.append((jmat[i, j], elec(i, j)))
    for i, m in enumerate(spec):
        lam = 0.0
        for k, md in enumerate(m["modes"]):
            w, d, nb = md["w0"], md["d"], md["nbas"]
            sh = S.sho_full(nb, w)
            sp = where[("ph", i, k)]
            g = -d * np.sqrt(w / 2)
            lam += g * g * w
            terms.append((w, {sp: sh["n"] + 0.5 * np.eye(nb)}))
            t = dict(elec(i, i))
            t[sp] = sh["b+"]
            terms.append((g * w, t))
        terms.append((m["elocalex"] + lam, elec(i, i)))
    return S.assemble(dims, terms)


def w_sbm(case, led):
    _, nmodes, variant, seed, tier = case
    from renormalizer.model import SpinBosonModel, Phonon
    from renormalizer.utils import Quantity
    rng = _rng(seed, nmodes, variant, 77)
    ev = S.au_per_unit("eV")
    eps_ev, delta_ev = float(rng.uniform(-8, 8)), float(rng.uniform(1, 9))
    modes = [{"w": float(rng.uniform(0.4, 1.6)), "d": float(rng.uniform(0.2, 0.8)) * (-1) ** k, "nbas": 2 + (k + variant) % 3} for k in range(nmodes)]
    phs = [Phonon.simple_phonon(Quantity(m["w"]), Quantity(m["d"]), m["nbas"]) for m in modes]
    if variant % 2 == 0:
        model, e = quiet(SpinBosonModel, Quantity(eps_ev, "eV"), Quantity(delta_ev, "eV"), phs)
        eps, delta = eps_ev * ev, delta_ev * ev
    else:
        model, e = quiet(SpinBosonModel, Quantity(eps_ev * ev), Quantity(delta_ev * ev, "a.u."), phs)
        eps, delta = eps_ev * ev, delta_ev * ev
    key0 = ("sbm", nmodes, variant)
    rep0 = {"builder": "SpinBosonModel", "epsilon_au": eps, "delta_au": delta, "modes": modes}
    fields = {"nmodes": nmodes}
    if e is not None:
        led.check(False, "post:SpinBosonModel.__init__:constructs", "SpinBosonModel.__init__", f"constructor raised {e!r}", key0, fields, rep0)
        return
    want = [("BasisHalfSpin", ("spin",), 2)] + [("BasisSHO", (k,), m["nbas"]) for k, m in enumerate(modes)]
    got = [(type(b).__name__, tuple(b.dofs), b.nbas) for b in model.basis]
    if not led.check(got == want, "post:SpinBosonModel.__init__:site_order", "SpinBosonModel.__init__", f"basis {got} != {want}", key0 + ("sites",), fields, rep0):
        return
    dims = [2] + [m["nbas"] for m in modes]
    Z, X = S.pauli("Z"), S.pauli("X")
    terms = [(eps, {0: Z}), (delta, {0: X})]
    for k, m in enumerate(modes):
        sh = S.sho_full(m["nbas"], m["w"])
        terms.append((1.0, {k + 1: 0.5 * sh["p^2"] + 0.5 * m["w"] ** 2 * sh["x^2"]}))
        # surface of spin-up has its minimum at q = +d: w^2 (q-d)^2/2 = w^2 q^2/2 - w^2 d q + const, i.e. c_i = -w_i^2 d_i
        terms.append((-m["w"] ** 2 * m["d"], {0: Z, k + 1: sh["x"]}))
    Ho = S.assemble(dims, terms)
    Hm, e = mpo_dense(model)
    if e is not None:
        led.check(False, "post:SpinBosonModel.__init__:mpo_constructible", "SpinBosonModel.__init__", f"Mpo(model) raised {type(e).__name__}: {e}", key0 + ("mpo",), fields, rep0)
        return
    d, at = dev(Hm, Ho)
    led.check(d <= 1e-10 * max(1.0, np.abs(Ho).max()), "post:SpinBosonModel.__init__:dense_hamiltonian", "SpinBosonModel.__init__",
              f"dense(Mpo(model)) differs from eps sz + delta sx + sum (p^2 + w^2 q^2)/2 + sz sum c q by {d:.3e} at {at}", key0 + ("H",), fields, rep0)


def ti1d_config(name, rng, ncell):
    """unit cell description: (cell sites [(kind, dof, params)], local terms, nonlocal terms) with terms = (coefficient, [(symbol, offset, dof)])"""
    r = lambda a, b: float(rng.uniform(a, b))
    if name == "chain":
        cell = [("elec", "e", None)]
        local = [(r(0.2, 1.0), [(r"a^\dagger a", 0, "e")])]
        t1, t2, t3 = r(0.1, 0.5), r(0.05, 0.2), r(0.05, 0.2)
        nonlocal_ = [(t1, [(r"a^\dagger", 0, "e"), ("a", 1, "e")]), (t1, [(r"a^\dagger", 1, "e"), ("a", 0, "e")]),
                     (t2, [(r"a^\dagger", 0, "e"), ("a", 2, "e")]), (t2, [(r"a^\dagger", 2, "e"), ("a", 0, "e")]),
                     (t3, [(r"a^\dagger a", -1, "e"), (r"a^\dagger a", 1, "e")])]
        if ncell <= 2:
            # both number operators would land on the same DoF; BasisSimpleElectron does not accept products of symbols (precondition of Mpo)
            nonlocal_ = nonlocal_[:-1]
    elif name == "spinboson":
        w = r(0.6, 1.4)
        cell = [("spin", "s", None), ("sho", "v", (w, 2))]
        local = [(r(0.2, 1.0), [("sigma_z", 0, "s")]), (w, [(r"b^\dagger b", 0, "v")]), (r(0.1, 0.4), [("sigma_z", 0, "s"), ("x", 0, "v")])]
        nonlocal_ = [(r(0.1, 0.5), [("sigma_+", 0, "s"), ("sigma_-", 1, "s")]), (r(0.1, 0.5), [("sigma_-", 0, "s"), ("sigma_+", 1, "s")]),
                     (r(0.05, 0.3), [("x", 0, "v"), ("x", 3, "v")]), (r(0.05, 0.3), [("sigma_x", 1, "s"), ("sigma_z", 2, "s"), ("x", 1, "v")])]
    elif name == "multi":
        cell = [("multi", ("a", "b"), None), ("sho", "v", (r(0.6, 1.4), 2))]
        local = [(r(0.2, 1.0), [(r"a^\dagger", 0, "a"), ("a", 0, "b")]), (r(0.2, 1.0), [(r"a^\dagger", 0, "b"), ("a", 0, "a")]),
                 (r(0.1, 0.4), [(r"a^\dagger", 0, "b"), ("a", 0, "b"), ("x", 0, "v")])]
        nonlocal_ = [(r(0.1, 0.5), [(r"a^\dagger", 0, "a"), ("a", 1, "b")]), (r(0.1, 0.5), [(r"a^\dagger", 1, "b"), ("a", 0, "a")]),
                     (r(0.05, 0.3), [("x", 0, "v"), ("x", -2, "v")])]
    else:
        raise ValueError(name)
    return cell, local, nonlocal_


def w_ti1d(case, led):
    _, name, ncell, seed, tier = case
    from renormalizer.model import TI1DModel, Op
    from renormalizer.model import basis as ba
    rng = _rng(seed, sum(map(ord, name)))        # same couplings for every ncell of a configuration
    cell, local, nonlocal_ = ti1d_config(name, rng, ncell)
    basis, dims_cell, site_of = [], [], {}
    for pos, (kind, dof, par) in enumerate(cell):
        if kind == "elec":
            basis.append(ba.BasisSimpleElectron(dof))
            dims_cell.append(2)
            site_of[dof] = pos
        elif kind == "spin":
            basis.append(ba.BasisHalfSpin(dof))
            dims_cell.append(2)
            site_of[dof] = pos
        elif kind == "sho":
            basis.append(ba.BasisSHO(dof, par[0], par[1]))
            dims_cell.append(par[1])
            site_of[dof] = pos
        else:
            basis.append(ba.BasisMultiElectronVac(list(dof)))
            dims_cell.append(len(dof) + 1)
            for d in dof:
                site_of[d] = pos
    kind_of = {}
    for kind, dof, par in cell:
        for d in (dof if kind == "multi" else [dof]):
            kind_of[d] = (kind, dof, par)

    def local_matrix(sym, d):
        kind, dof, par = kind_of[d]
        if kind == "elec":
            return S.simple_electron(sym)
        if kind == "spin":
            return S.pauli(S.SPIN_LETTERS[sym])
        if kind == "sho":
            sh = S.sho_full(par[1], par[0])
            return {"x": sh["x"], r"b^\dagger b": sh["n"], "x^2": sh["x^2"], "p^2": sh["p^2"]}[sym]
        k = list(dof).index(d) + 1
        m = np.zeros((len(dof) + 1, len(dof) + 1))
        if sym == r"a^\dagger":
            m[k, 0] = 1.0
        else:
            m[0, k] = 1.0
        return m

    def to_op(coef, word, nonlocal_flag):
        syms, dofs = [], []
        for sym, off, d in word:
            for part in sym.split(" "):
                syms.append(part)
                dofs.append((off, d) if nonlocal_flag else d)
        return Op(" ".join(syms), dofs, coef)

    lt = [to_op(c, w, False) for c, w in local]
    nt = [to_op(c, w, True) for c, w in nonlocal_]
    key0 = ("ti1d", name, ncell)
    fields = {"config": name, "ncell": ncell, "wraps": any(abs(o) >= ncell for _, w in nonlocal_ for _, o, _ in w)}
    rep0 = {"builder": "TI1DModel", "cell": [(k, repr(d), p) for k, d, p in cell], "local": [repr(o) for o in lt], "nonlocal": [repr(o) for o in nt], "ncell": ncell}
    model, e = quiet(TI1DModel, basis, lt, nt, ncell)
    if e is not None:
        led.check(False, "post:TI1DModel.__init__:constructs", "TI1DModel.__init__", f"constructor raised {type(e).__name__}: {e}", key0, fields, rep0)
        return
    want = []
    for i in range(ncell):
        for kind, dof, par in cell:
            ds = tuple((f"cell{i}", d) for d in dof) if kind == "multi" else ((f"cell{i}", dof),)
            want.append((ds, dims_cell[site_of[ds[0][1]]]))
    got = [(tuple(b.dofs), b.nbas) for b in model.basis]
    if not led.check(got == want, "post:TI1DModel.__init__:basis_layout", "TI1DModel.__init__", f"basis {got} != the cell repeated {ncell} times {want}", key0 + ("layout",), fields, rep0):
        return
    led.check(len(model.ham_terms) == ncell * (len(lt) + len(nt)), "post:TI1DModel.__init__:term_count", "TI1DModel.__init__",
              f"{len(model.ham_terms)} terms, expected ncell*(local+nonlocal) = {ncell * (len(lt) + len(nt))}", key0 + ("count",), fields, rep0)
    nper = len(cell)
    dims = dims_cell * ncell

    def step(i, off):
        """cell reached from cell i after |off| single steps around the ring (no modular arithmetic)"""
        c = i
        for _ in range(abs(off)):
            c = c + 1 if off > 0 else c - 1
            if c == ncell:
                c = 0
            if c < 0:
                c = ncell - 1
        return c

    terms = []
    for i in range(ncell):
        for coef, word in local + nonlocal_:
            words = {}
            for sym, off, d in word:
                words.setdefault(step(i, off) * nper + site_of[d], []).append((sym, d))
            ops = {}
            for site, lst in words.items():
                kind, dof, par = kind_of[lst[0][1]]
                if kind == "sho" and len(lst) > 1:
                    # several oscillator symbols on one site: the exact operator product truncated (BasisSHO's convention for x-powers, "x x" = x^2)
                    letters = [l for sym, _ in lst for l in S.sho_parse(sym.replace(r"b^\dagger b", "n"))]
                    ops[site] = S.ShoOracle(par[1], par[0], 0.0).product(letters)[0]
                else:
                    m = np.eye(dims_cell[site % nper], dtype=complex)
                    for sym, d in lst:
                        m = m @ local_matrix(sym, d)
                    ops[site] = m
            terms.append((coef, ops))
    Ho = S.assemble(dims, terms)
    Hm, e = mpo_dense(model)
    if e is not None:
        # none of the documented terms puts two symbols a basis cannot combine on one DoF (see ti1d_config), so the builder produced other terms
        led.check(False, "post:TI1DModel.__init__:mpo_constructible", "TI1DModel.__init__", f"Mpo(model) raised {type(e).__name__}: {e}", key0 + ("mpo",), fields, rep0)
        return
    scale = max(1.0, float(np.abs(Ho).max()))
    d, at = dev(Hm, Ho)
    led.check(d <= 1e-10 * scale, "post:TI1DModel.__init__:dense_hamiltonian", "TI1DModel.__init__",
              f"dense(Mpo(model)) differs from sum_i (h_i + sum_j h_ij) with periodic cell indices by {d:.3e} at {at} (dim {Ho.shape[0]})", key0 + ("H",), fields, rep0,
              ncell >= 2)
    # translation invariance: H commutes with the cyclic shift of the cells
    dc = int(np.prod(dims_cell))
    D = dc ** ncell
    idx = np.arange(D).reshape([dc] * ncell)
    perm = np.transpose(idx, list(range(1, ncell)) + [0]).reshape(-1) if ncell > 1 else idx.reshape(-1)
    d, at = dev(Hm[np.ix_(perm, perm)], Hm)
    led.check(d <= 1e-10 * scale, "post:TI1DModel.__init__:translation_invariant", "TI1DModel.__init__",
              f"dense(Mpo(model)) is not invariant under the cyclic shift of the unit cells (off by {d:.3e})", key0 + ("shift",), fields, rep0, ncell >= 3)


def w_misc(case, led):
    kind = case[0]
    from renormalizer.utils import Quantity
    if kind == "jmat":
        _, seed, tier = case
        from renormalizer.model.model import construct_j_matrix
        ev = S.au_per_unit("eV")
        for n, periodic, (v, unit) in itertools.product(range(1, 9), (False, True), ((0.37, "a.u."), (-2.5, "eV"), (800.0, "cm-1"))):
            j = v * S.au_per_unit(unit)
            m, e = quiet(construct_j_matrix, n, Quantity(v, unit), periodic)
            key = ("jmat", n, periodic, unit)
            fields = {"n": n, "periodic": periodic}
            rep = {"function": "construct_j_matrix", "mol_num": n, "j": [v, unit], "periodic": periodic}
            if e is not None:
                led.check(False, "post:construct_j_matrix:constructs", "construct_j_matrix", f"raised {e!r}", key, fields, rep)
                continue
            m = np.asarray(m)
            spec = S.j_matrix_spec(n, j, periodic)
            off = m - np.diag(np.diag(m))
            ok = m.shape == (n, n) and dev(off, spec)[0] <= abs(j) * 1e-9 and np.array_equal(m, m.T) and (n == 1 or not np.any(np.diag(m)))
            led.check(ok, "post:construct_j_matrix:nearest_neighbour", "construct_j_matrix",
                      f"not the symmetric nearest-neighbour matrix ({'with' if periodic else 'without'} wrap-around): {m.tolist()}", key, fields,
                      dict(rep, expected=small(spec, 8), actual=small(m, 8)), n >= 3)
    elif kind == "quantity":
        _, seed, tier = case
        units = ["meV", "eV", "cm^{-1}", "cm-1", "K", "a.u.", "au", "fs"]
        vals = [0.0, 1.0, -3.25, 1e-6, 298.15, 12345.678, 2.5e7]
        rng = _rng(seed, 5)
        vals += [float(x) for x in rng.uniform(-1e3, 1e3, size=4)]
        for u, v in itertools.product(units, vals):
            key = ("quantity", u, v)
            fields = {"unit": u}
            rep = {"class": "Quantity", "value": v, "unit": u}
            q = Quantity(v, u)
            au = q.as_au()
            ref = v * S.au_per_unit(u)
            led.check(abs(au - ref) <= 1e-9 * abs(ref), "post:Quantity.as_au:codata", "Quantity.as_au", f"{v} {u} -> {au} a.u., CODATA gives {ref}", key + ("au",), fields, rep, v != 0)
            ql = Quantity(v, u.lower())
            led.check(ql.as_au() == au, "post:Quantity.as_au:case_insensitive_unit", "Quantity.as_au", f"unit {u.lower()!r} converts differently from {u!r}", key + ("case",), fields, rep, v != 0)
            for u2 in units:
                q2 = q.as_unit(u2)
                ok = q2.unit == u2 and abs(q2.as_au() - au) <= 8 * EPS * abs(au) and abs(q2.as_unit(u).value - v) <= 16 * EPS * abs(v) and \
                    abs(q2.value - v * S.au_per_unit(u) / S.au_per_unit(u2)) <= 1e-9 * abs(q2.value)
                led.check(ok, "post:Quantity.as_unit:round_trip", "Quantity.as_unit",
                          f"{v} {u} -> {q2.value} {q2.unit} -> {q2.as_au()} a.u. (direct {au}); back {q2.as_unit(u).value}", key + ("unit", u2), dict(fields, to=u2),
                          dict(rep, to=u2), v != 0 and u2.lower() != u.lower())
            # arithmetic of quantities (the builders receive expressions like -Quantity(100, "meV") or 2 * J): the value in atomic units follows the arithmetic
            other = Quantity(0.37 * (1 + abs(v)), units[(units.index(u) + 1) % len(units)])
            oau = other.as_au()
            tol = 1e-12 * (abs(au) + abs(oau)) + 1e-300
            for opn, got, want in (("__neg__", lambda: -q, -au), ("__add__", lambda: q + other, au + oau), ("__sub__", lambda: q - other, au - oau),
                                   ("__mul__", lambda: q * 2.5, au * 2.5), ("__rmul__", lambda: -3 * q, -3 * au), ("__truediv__", lambda: q / 4.0, au / 4.0),
                                   ("__neg__ twice", lambda: -(-q), au)):
                r_, e_ = quiet(got)
                led.check(e_ is None and isinstance(r_, Quantity) and abs(r_.as_au() - want) <= tol, f"post:Quantity.{opn.split()[0]}:value_in_atomic_units", f"Quantity.{opn.split()[0]}",
                          f"{opn} of {v} {u}: {getattr(r_, 'value', r_)!r} {getattr(r_, 'unit', '')} = {r_.as_au() if e_ is None and isinstance(r_, Quantity) else e_!r} a.u., expected {want}",
                          key + ("arith", opn), dict(fields, op=opn), dict(rep, op=opn), v != 0)
            led.check((q == Quantity(au)) and not (q != Quantity(au)) and ((q == 0) == (v == 0)), "post:Quantity.__eq__:by_value_in_atomic_units", "Quantity.__eq__",
                      f"{v} {u} compared with the same value in a.u. / with 0", key + ("eq",), fields, rep, v != 0)
            beta = q.to_beta()
            if v == 0:
                led.check(beta == float("inf"), "post:Quantity.to_beta:zero_temperature", "Quantity.to_beta", f"to_beta of 0 is {beta}", key + ("beta",), fields, rep)
            else:
                led.check(abs(beta * ref - 1.0) <= 1e-9 and abs(beta * au - 1.0) <= 8 * EPS, "post:Quantity.to_beta:inverse_energy", "Quantity.to_beta",
                          f"to_beta({v} {u}) = {beta}, expected 1/({ref})", key + ("beta",), fields, rep)
        _, e = quiet(Quantity, 1.0, "furlong")
        led.check(isinstance(e, ValueError), "post:Quantity.__init__:unknown_unit_raises", "Quantity.__init__", f"unknown unit: {e!r}", ("quantity", "unknown"), {}, {})


WORKERS = {"sho": w_sho, "hops": w_small, "elec": w_small, "dummy": w_small, "spin": w_spin, "multi": w_multi, "sine": w_sine,
           "holstein": w_holstein, "sbm": w_sbm, "ti1d": w_ti1d, "jmat": w_misc, "quantity": w_misc}


def worker(case, led):
    WORKERS[case[0]](case, led)


def enumerate_cases(tier, seed):
    cases = []
    quick = tier == "quick"
    # BasisSHO: every size 1..12 x frequency x origin (flags dvr / general_xp_power looped inside)
    for nbas in range(1, 13):
        for omega in ((0.37, 2.5) if quick else (0.1, 0.37, 1.0, 2.5)):
            for x0 in ((0.0, 0.7, -0.7) if quick else (0.0, 0.7, -0.7, 10.0)):
                cases.append(("sho", nbas, omega, x0, seed, tier))
    for nbas in range(1, 13):
        cases.append(("hops", nbas, seed, tier))
    cases.append(("elec", seed, tier))
    cases.append(("dummy", seed, tier))
    for part in range(4 if quick else 8):
        cases.append(("spin", part, seed, tier))
    for ndof in (1, 2, 3, 4):
        for vac in (False, True):
            for names in ("int", "intperm", "str", "tuple"):
                cases.append(("multi", ndof, vac, names, seed, tier))
    sizes = (1, 2, 3, 4, 6) if quick else (1, 2, 3, 4, 5, 6, 8, 12)
    for nbas in sizes:
        for xi, xf in ((0.0, 1.0), (-1.3, 2.1), (0.5, 7.0), (-3.0, -1.0)):
            for endpoint in (False, True):
                if endpoint and nbas < 2:
                    continue      # precondition: the documented endpoint grid needs two points
                cases.append(("sine", nbas, xi, xf, endpoint, seed, tier))
    for nmol in ((1, 2, 3) if quick else (1, 2, 3, 4)):
        for layout in (0, 1):
            if nmol == 4 and layout == 1:
                continue
            for jkind in ("nn_open", "nn_periodic", "array_sym", "array_nonsym", "array_periodic"):
                if jkind == "array_periodic" and nmol < 3:
                    continue
                for wdiff in (False, True):
                    cases.append(("holstein", nmol, layout, jkind, wdiff, seed, tier))
    for nmodes in (1, 2, 3):
        for variant in range(2 if quick else 6):
            cases.append(("sbm", nmodes, variant, seed, tier))
    for name, maxc in (("chain", 6 if quick else 9), ("spinboson", 3 if quick else 4), ("multi", 3 if quick else 4)):
        for ncell in range(1, maxc + 1):
            cases.append(("ti1d", name, ncell, seed, tier))
    cases.append(("jmat", seed, tier))
    cases.append(("quantity", seed, tier))
    return cases


def check(run):
    from renormalizer.model import basis as ba
    from props import C16_proof
    C16_proof.prove(run)
    classes = [ba.BasisSHO, ba.BasisHopsBoson, ba.BasisSineDVR, ba.BasisMultiElectron, ba.BasisMultiElectronVac, ba.BasisSimpleElectron, ba.BasisHalfSpin, ba.BasisDummy]
    declared = {c.__name__ for c in vars(ba).values() if isinstance(c, type) and issubclass(c, ba.BasisSet) and c is not ba.BasisSet}
    cov = {}
    uncovered = [("class", n) for n in sorted(declared - {c.__name__ for c in classes})]
    for c in classes:
        ex, gaps = S.coverage_gaps(c)
        if not ex["literals"] and not ex["families"] and c.__name__ != "BasisDummy":
            run.crash(f"C16: no symbol could be read from the source of {c.__name__}.op_mat (vacuous coverage; has the dispatch moved?)")
        cov[c.__name__] = {"literals": sorted(ex["literals"]), "families": sorted(map(list, ex["families"])), "aliases": sorted(map(list, ex["aliases"]))}
        uncovered += [(c.__name__,) + tuple(g) for g in gaps]
    run.extra["symbols_from_source"] = cov
    run.extra["uncovered_symbols"] = [list(u) for u in uncovered]
    for u in uncovered:
        # a symbol the source dispatches on but for which no defining relation exists here: the claim "every supported symbol" is not met
        print(f"UNCOVERED symbol/dispatch without a defining relation: {u}")
        run.crashes.append({"where": "props.C16 symbol coverage", "error": f"uncovered: {u!r}", "traceback": ""})
    cases = enumerate_cases(run.tier, run.seed)
    # heavy cases first so that the pool stays busy
    weight = {"holstein": 0, "ti1d": 1, "sine": 2, "sho": 3}
    cases.sort(key=lambda c: weight.get(c[0], 9))
    run_cases(run, worker, cases)
    run.exhaustive = False
    run.rule = ("basis classes: every symbol literal found by ast in each op_mat (plus instances of each dispatched family: x^0..6, p^0..5, repeated letters, "
                "partialx / 'b^\\dagger + b' aliases) x BasisSHO{nbas 1..12, omega grid, x0 in {0,+-0.7,(10)}, dvr x general_xp_power}, BasisHopsBoson nbas 1..12, "
                "BasisSineDVR{nbas 1..6(12), 4 boxes, endpoint, dvr, quadrature on nbas<=3}, BasisHalfSpin{17 letters, all ordered pairs, seeded words of 3-5 letters}, "
                "BasisMultiElectron/Vac{1..4 DoFs x 4 naming styles, all ordered DoF pairs}, BasisSimpleElectron, BasisDummy; builders: HolsteinModel{1..3(4) molecules, "
                "1-2 modes, unequal sizes, different omega per surface, 5 kinds of J incl. periodic, schemes 1-4}, SpinBosonModel{1..3 modes}, TI1DModel{3 unit cells x "
                "ncell 1..6(9) incl. offsets >= ncell and negative}, construct_j_matrix{n 1..8}, Quantity{8 units x 11 values x 8 targets}. distinct = distinct "
                "(class, parameters, symbol, clause) tuples; non-trivial = size >= 2, at least one letter, mask of truncation-unaffected entries non-empty, "
                "non-commuting letters for spin words, >= 2 molecules / >= 2 cells for builders")
    run.sample({"class": "BasisSHO", "args": {"omega": 0.37, "nbas": 5, "x0": 0.7, "dvr": False}, "symbol": "x p",
                "contract": "op_mat('x p')[mask] == (X_big @ P_big)[:5,:5][mask], X_big/P_big built from ladder operators in a basis of 9 levels"})
    run.sample({"class": "BasisSineDVR", "args": {"nbas": 4, "xi": -1.3, "xf": 2.1, "endpoint": True}, "symbol": "x^2 dx",
                "contract": "op_mat == scipy.integrate.quad(psi_j(x) x^2 psi_k'(x)) within 10*quad error estimate + 2e4 eps scale; dvr=True: V^T M V"})
    run.sample({"builder": "HolsteinModel", "nmol": 3, "modes": [2, 1, 2], "j": "Quantity, periodic", "schemes": [1, 2, 3, 4],
                "contract": "Mpo(model).todense() == independently assembled displaced-oscillator Hamiltonian; 0/1-excitation spectra equal across schemes"})
    run.explanation = ("Every clause is a run-time contract on the real functions; the references never call op_mat/Mpo/model builders: ladder operators in a larger "
                       "basis (exact leading block), path counting for the entries unaffected by truncation, Pauli matrices, hard-core Fock space projected on the kept "
                       "states, analytic particle-in-a-box functions integrated by scipy.integrate.quad, Kronecker assembly of the documented Hamiltonians with "
                       "step-by-step ring indexing, CODATA factors through scipy keys the package does not use. Symbol coverage is computed from the source with ast; "
                       "a dispatched literal/pattern without a defining relation is a checker error (exit 3), not a pass. Bounded: sizes and parameter grids above.")
    run.trusted += ["numpy/scipy dense linear algebra and scipy.integrate.quad (with its error estimate)",
                    "vk/specs/c16.py oracles (ladder-operator, Pauli, hard-core Fock, sine functions, dense assembly) as the reference semantics",
                    "reading of the documentation: excited surface of a Holstein molecule is elocalex + w1^2 (x-d)^2/2 (docstring formula with g = -d sqrt(w/2) plus the "
                    "zero-point energy); spin-boson coupling c_i = -w_i^2 d_i; nearest-neighbour J counts every pair once",
                    "Mpo(model).todense() is the object under test for the builders (its own correctness is C01/C03)"]
