"""C03 State and operator arithmetic agrees with dense linear algebra in any gauge."""
from vk.symx.harness import guarded
import numpy as np

from vk.rtc.harness import run_cases
from vk.specs import chain as S
from vk.specs import universe as U

LEVEL = "other"
TECHNIQUE = ("contracts (dense-sum / QN-valid representation invariant) on the real arithmetic methods: proved for all sizes for "
             "move_qnidx (pyvc/z3), decided exactly for all tensor values per enumerated shape (symbolic execution of the real code), "
             "and evaluated at run time on bounded-exhaustive gauge histories (bounded stand-in)")

TOL = 1e-10   # = kappa*eps*scale with kappa ~ 5e5 (rounding of a handful of QR/SVD sweeps is ~1e-15)


def sdense(mp):
    """dense(mp), or None when the result is not a well-formed chain (open boundary bond != 1)"""
    try:
        return S.dense(mp)
    except AssertionError:
        return None


def close(x, y, scale=None):
    if x is None or y is None:
        return False
    x, y = np.asarray(x), np.asarray(y)
    if x.shape != y.shape:
        return False
    sc = max(1.0, float(np.abs(x).max()) if x.size else 0.0, float(np.abs(y).max()) if y.size else 0.0) if scale is None else scale
    return bool(np.all(np.abs(x - y) <= TOL * sc))


def lossless_variants(r):
    """the same object after a later canonicalise / lossless compress (any admissible entry point)"""
    out = []
    d = sdense(r)
    if d is None or not np.any(np.abs(d) > 1e-13):
        return out          # the zero vector/operator has no canonical form: the library refuses it by assertion (precondition of canonicalise)
    for name in ("ensure_left_canonical", "ensure_right_canonical"):
        c = r.copy()
        out.append((name, getattr(c, name)()))
    c = r.copy()
    n = len(c)
    c.move_qnidx(0 if c.to_right else n - 1)
    if n >= 2:
        c.canonicalise()
        out.append(("move_qnidx+canonicalise", c))
        c2 = c.copy()
        from renormalizer.utils import CompressCriteria
        c2.compress_config.criteria = CompressCriteria.fixed
        c2.compress_config.bond_dim_max_value = 10 ** 4
        c2.compress_config.max_dims = None
        c2.compress()
        out.append(("canonicalise+compress(M>=rank)", c2))
    return out


def describe(mp):
    return {"qnidx": int(mp.qnidx), "to_right": bool(mp.to_right), "bond_dims": [int(x) for x in mp.bond_dims],
            "qntot": np.asarray(mp.qntot).tolist(), "dtype": str(mp.dtype)}


def worker(case, led):
    name, n, seed, tier = case
    rng = np.random.default_rng([seed, n, sum(map(ord, name))])
    model, sectors = S.model_zoo(name, n)
    sel = list(sectors)
    rng.shuffle(sel)
    sel = sel[:2] if tier == "quick" else sel[:4]
    gauges_a = ["fresh", "cano", "cano2", "compress", "left", "right", "center", "stop"]
    gauges_b = ["fresh", "cano", "center"] if tier == "quick" else ["fresh", "cano", "center", "right", "stop"]
    H = None
    terms = U.random_terms(model, rng, 4, complex_factors=False)
    from renormalizer.mps import Mpo, Mps, MpDm
    if terms:
        H = Mpo(model, terms)
        Hd = U.dense_terms(model, terms)
    for q in sel:
        a0 = U.make_state(model, q, 3, rng)
        b0 = U.make_state(model, q, 2, rng, complex_=(rng.random() < 0.5))
        if a0 is None or b0 is None:
            continue
        for ga in gauges_a:
            for gb in gauges_b:
                ka, kb = int(rng.integers(n)), int(rng.integers(n))
                a = S.apply_gauge(a0, ga, ka)
                b = S.apply_gauge(b0, gb, kb)
                if (ka + 2 * kb + len(ga)) % 3 == 0 and hasattr(a, "coeff"):
                    # part of the vector carried by the scalar prefactor: sums and distances fold it into the tensors
                    a.coeff, b.coeff = a.coeff * 0.7, b.coeff * (-1.3)
                bra = b.conj()                    # derived BEFORE the arithmetic below; must keep its value
                dbra = S.dense(bra)
                da, db = S.dense(a), S.dense(b)
                key = (name, n, str(q), ga, gb)
                nontriv = n >= 2 and (a.qnidx != b.qnidx or a.to_right != b.to_right or max(a.bond_dims) > 1)
                rep = {"model": name, "nsites": n, "sector": q, "gauge_a": ga, "gauge_b": gb, "centre_a": ka, "centre_b": kb,
                       "a": describe(a), "b": describe(b), "seed": seed,
                       "how": "vk.specs.chain.model_zoo/random_mps/apply_gauge regenerate the operands from these coordinates"}
                fields = {"same_centre": bool(a.qnidx == b.qnidx), "nsites": n}
                # ---- add / sub
                for opname, f, ref in (("add", lambda: a.add(b), da + db), ("sub", lambda: a - b, da - db), ("distance", None, None)):
                    if opname == "distance":
                        if hasattr(a, "distance") and a.qnidx == b.qnidx and np.all(np.asarray(a.qntot) == np.asarray(b.qntot)):
                            try:
                                dist = a.distance(b)
                                led.check(abs(dist - np.linalg.norm(da - db)) <= 1e-8 * max(1.0, np.linalg.norm(da) + np.linalg.norm(db)), "post:Mps.distance:dense_norm_of_difference",
                                          "Mps.distance", f"{dist} vs {np.linalg.norm(da - db)}", key + ("distance",), fields, rep)
                            except Exception as e:
                                led.ok("skipped:Mps.distance:raised", "Mps.distance", key + ("distance", type(e).__name__), nontrivial=False)
                        led.check(close(S.dense(bra), dbra) and close(S.dense(a), da) and close(S.dense(b), db), "frame:MatrixProduct.add:operands_and_previously_derived_objects",
                                  "MatrixProduct.add", "after add / sub / distance an operand or the bra b.conj() taken before them changed its value", key + ("bra-frame",), fields, rep)
                        continue
                    fn = "MatrixProduct.add" if opname == "add" else "MatrixProduct.__sub__"
                    r = f()
                    if sdense(r) is None:
                        led.check(False, f"post:{fn}:dense_sum", fn, f"{opname} result is not a well-formed chain: tensor shapes "
                                  f"{[tuple(x.shape) for x in r]}", key + (opname,), fields, rep, nontriv)
                        continue
                    led.check(close(S.dense(r), ref), f"post:{fn}:dense_sum", fn,
                              f"dense({opname}) differs from the dense {opname}", key + (opname,), fields, rep, nontriv)
                    v = S.qnv_violations(r)
                    led.check(not v, f"post:{fn}:qn_valid", fn, f"result labels invalid: {v[:1]}", key + (opname, "qnv"), fields, rep, nontriv)
                    led.check(np.all(np.asarray(r.qntot) == np.asarray(a.qntot)), f"post:{fn}:qntot", fn, "qntot changed",
                              key + (opname, "qntot"), fields, rep, nontriv)
                    for how, r2 in lossless_variants(r):
                        led.check(close(S.dense(r2), ref), f"post:{fn}:correct_after_canonicalise", fn,
                                  f"{opname} result is wrong after {how}", key + (opname, how), fields, dict(rep, then=how), nontriv)
                    # inputs untouched (frame)
                    led.check(close(S.dense(a), da) and close(S.dense(b), db), f"frame:{fn}:inputs", fn, "operand changed",
                              key + (opname, "frame"), fields, rep, nontriv)
                # ---- scalar prefactors (Mps.add / Mps.distance fold them into the tensors)
                a_c, b_c = a.copy(), b.copy()
                a_c.coeff, b_c.coeff = 0.7, -1.3
                ref = 0.7 * da - 1.3 * db
                r = a_c.add(b_c)
                led.check(close(sdense(r), ref), "post:Mps.add:dense_sum_with_coeff", "Mps.add", "sum with different prefactors wrong",
                          key + ("coeff",), fields, rep, nontriv)
                led.check(close(S.dense(a_c), 0.7 * da) and close(S.dense(b_c), -1.3 * db), "frame:Mps.add:represented_inputs", "Mps.add",
                          "prefactor folding changed a represented operand", key + ("coeff-frame",), fields, rep, nontriv)
                for ca, cb in ((0.5, 2.0), (0.6 + 0.8j, 0.3 - 1.2j), (1j, 1.0), (-0.4 + 0.3j, -0.4 + 0.3j)):
                    # real, genuinely complex (different / equal) prefactors: the distance is symmetric and equals the dense one; the represented operands stay
                    a_c, b_c = a.copy(), b.copy()
                    a_c.coeff, b_c.coeff = ca, cb
                    d = a_c.distance(b_c)
                    dref = float(np.linalg.norm(ca * da - cb * db))
                    led.check(abs(d - dref) <= 1e-7 * max(1.0, dref), "post:Mps.distance:dense_distance_with_coeff", "Mps.distance",
                              f"prefactors {ca}, {cb}: distance {d} vs dense {dref}", key + ("distc", str(ca), str(cb)),
                              dict(fields, shared_prefactor_of_modulus_other_than_one=bool(ca == cb and abs(abs(ca) - 1) > 1e-12)), dict(rep, prefactors=[str(ca), str(cb)]), nontriv)
                    led.check(close(sdense(a_c), ca * da) and close(sdense(b_c), cb * db), "frame:Mps.distance:represented_inputs", "Mps.distance",
                              f"prefactors {ca}, {cb}: distance changed a represented operand", key + ("distc-frame", str(ca), str(cb)), fields, rep, nontriv)
                    a_c, b_c = a.copy(), b.copy()
                    a_c.coeff, b_c.coeff = ca, cb
                    d2 = b_c.distance(a_c)
                    led.check(abs(d2 - d) <= 1e-7 * max(1.0, dref), "post:Mps.distance:symmetric", "Mps.distance",
                              f"prefactors {ca}, {cb}: distance(b, a) = {d2}, distance(a, b) = {d}", key + ("distc-sym", str(ca), str(cb)), fields, dict(rep, prefactors=[str(ca), str(cb)]), nontriv)
                    a_c, b_c = a.copy(), b.copy()
                    a_c.coeff, b_c.coeff = ca, cb
                    r = a_c.add(b_c)
                    led.check(close(sdense(r), ca * da + cb * db), "post:Mps.add:dense_sum_with_coeff", "Mps.add", f"sum with prefactors {ca}, {cb} wrong",
                              key + ("coeff", str(ca), str(cb)), fields, rep, nontriv)
                # ---- dot / distance / norm / conj / scale
                ov = a.conj().dot(b)
                led.check(abs(ov - np.vdot(da, db)) <= TOL * max(1, abs(ov)), "post:MatrixProduct.dot:overlap", "MatrixProduct.dot",
                          f"<a|b>={ov} vs {np.vdot(da, db)}", key + ("dot",), fields, rep, nontriv)
                ob = np.asarray(a.conj().dot_ob(b)).reshape(-1)
                led.check(ob.size == 1 and abs(ob[0] - np.vdot(da, db)) <= TOL * max(1, abs(ov)), "post:MatrixProduct.dot_ob:overlap", "MatrixProduct.dot_ob",
                          f"dot_ob {ob[:2]} vs {np.vdot(da, db)}", key + ("dot_ob",), fields, rep, nontriv)
                ang = a.angle(b)
                led.check(abs(ang - abs(np.vdot(da, db))) <= TOL * max(1, abs(ang)), "post:MatrixProduct.angle:modulus_of_the_overlap", "MatrixProduct.angle",
                          f"|<a|b>|={ang} vs {abs(np.vdot(da, db))}", key + ("angle",), fields, rep, nontriv)
                dist = a.distance(b)
                dref = float(np.linalg.norm(da - db))
                led.check(abs(dist - dref) <= 1e-7 * max(1.0, dref), "post:MatrixProduct.distance:dense_distance", "MatrixProduct.distance",
                          f"{dist} vs {dref}", key + ("dist",), fields, rep, nontriv)
                led.check(abs(b.mp_norm - np.linalg.norm(db)) <= TOL * max(1, np.linalg.norm(db)), "post:MatrixProduct.mp_norm:dense_norm",
                          "MatrixProduct.mp_norm", "norm differs", key + ("norm",), fields, rep, nontriv)
                cj = b.conj()
                led.check(close(S.dense(cj), db.conj()) and not S.qnv_violations(cj), "post:MatrixProduct.conj:dense_conj", "MatrixProduct.conj",
                          "conj wrong or labels invalid", key + ("conj",), fields, rep, nontriv)
                # scalars of every magnitude and phase: the result is val * object to relative accuracy, however small the real or the imaginary part is
                for val in (1e-9j, (3 + 3j) * 1e-9, 1 + 4e-9j, 2e-12, -1e-3j, 5e7 - 2e-2j, np.complex128(1e-9j), np.float64(-3e-11)):
                    r = a.scale(val)
                    err = float(np.linalg.norm(sdense(r) - val * da))
                    led.check(err <= 1e-11 * abs(val) * max(float(np.linalg.norm(da)), 1e-300) or float(np.linalg.norm(da)) == 0, "post:MatrixProduct.scale:dense_scale_relative",
                              "MatrixProduct.scale", f"scale({val!r}): |result - val * a| = {err:.3e}, |val| |a| = {abs(val) * float(np.linalg.norm(da)):.3e}",
                              key + ("scale-rel", repr(val)), fields, dict(rep, scalar=repr(val)), nontriv)
                for val in (0.3, -2.0, 0.5 + 0.2j):
                    r = a.scale(val)
                    led.check(close(S.dense(r), val * da) and not S.qnv_violations(r), "post:MatrixProduct.scale:dense_scale",
                              "MatrixProduct.scale", f"scale({val}) wrong", key + ("scale", str(val)), fields, rep, nontriv)
                    led.check(close(S.dense(a), da), "frame:MatrixProduct.scale:input", "MatrixProduct.scale", "scale changed its input",
                              key + ("scale-frame", str(val)), fields, rep, nontriv)
                    for how, r2 in lossless_variants(r)[:1]:
                        led.check(close(S.dense(r2), val * da), "post:MatrixProduct.scale:correct_after_canonicalise", "MatrixProduct.scale",
                                  f"scaled state wrong after {how}", key + ("scale", str(val), how), fields, rep, nontriv)
            # ---- operators on the state in this gauge
            if H is not None:
                a = S.apply_gauge(a0, ga, int(rng.integers(n)))
                da = S.dense(a)
                key = (name, n, str(q), ga, "H")
                rep = {"model": name, "nsites": n, "sector": q, "gauge_a": ga, "a": describe(a), "terms": [repr(t) for t in terms], "seed": seed}
                fields = {"nsites": n}
                # the operator itself in other gauges (qn centre moved by one canonicalise / by a lossless compress): the image must not depend on it
                for hg in ("cano", "compress", "center"):
                    try:
                        Hg = S.apply_gauge(H, hg, int(rng.integers(n)))
                    except Exception as e:
                        led.ok("skipped:Mpo.apply:operator_gauge_raised", "Mpo.apply", key + ("hg", hg, type(e).__name__), nontrivial=False)
                        continue
                    rg = Hg.apply(a)
                    okg = close(S.dense(rg), Hd @ da) and not S.qnv_violations(rg)
                    for how, r2 in (lossless_variants(rg) if okg else []):
                        okg = okg and close(S.dense(r2), Hd @ da)
                    led.check(okg, "post:Mpo.apply:independent_of_the_operator_gauge", "Mpo.apply",
                              f"operator with qnidx={Hg.qnidx}, to_right={Hg.to_right} ({hg}): image wrong, mislabelled ({S.qnv_violations(rg)[:1]}) or wrong after canonicalise",
                              key + ("apply-hg", hg), dict(fields, operator_gauge=hg), dict(rep, operator_gauge=hg, operator_qnidx=int(Hg.qnidx)))
                r = H.apply(a)
                led.check(close(S.dense(r), Hd @ da), "post:Mpo.apply:dense_product", "Mpo.apply", "dense(H|a>) != dense(H) dense(a)",
                          key + ("apply",), fields, rep)
                v = S.qnv_violations(r)
                led.check(not v, "post:Mpo.apply:qn_valid", "Mpo.apply", f"labels invalid: {v[:1]}", key + ("apply-qnv",), fields, rep)
                for how, r2 in lossless_variants(r):
                    led.check(close(S.dense(r2), Hd @ da), "post:Mpo.apply:correct_after_canonicalise", "Mpo.apply", f"H|a> wrong after {how}",
                              key + ("apply", how), fields, dict(rep, then=how))
                r = H @ a
                led.check(close(S.dense(r), Hd @ da), "post:Mpo.__matmul__:dense_product", "Mpo.__matmul__", "H @ a wrong", key + ("matmul",), fields, rep)
                led.check(close(S.dense(a), da), "frame:Mpo.apply:input", "Mpo.apply", "apply changed its input", key + ("apply-frame",), fields, rep)
    # ---- operator algebra (independent of the state gauge)
    if H is not None:
        key = (name, n, "ops")
        rep = {"model": name, "nsites": n, "terms": [repr(t) for t in terms], "seed": seed}
        Hm = S.dense(H)
        led.check(close(Hm, Hd), "post:Mpo.__init__:dense_terms", "Mpo.__init__", "MPO differs from the dense sum of terms", key + ("init",), {}, rep)
        led.check(not S.qnv_violations(H), "post:Mpo.__init__:qn_valid", "Mpo.__init__", "operator labels invalid", key + ("init-qnv",), {}, rep)
        terms2 = U.random_terms(model, rng, 3, complex_factors=True)
        Gd = U.dense_terms(model, terms2) if terms2 else None
        if terms2 and np.abs(Gd).max() > 1e-12:      # (a term list that cancels to zero is rejected by the constructor: C01's domain)
            G = Mpo(model, terms2)
            P = H.apply(G)
            led.check(close(S.dense(P), Hd @ Gd), "post:Mpo.apply:operator_product", "Mpo.apply", "dense(H G) != dense(H) dense(G)", key + ("HG",), {}, rep)
            led.check(not S.qnv_violations(P), "post:Mpo.apply:operator_product_qn_valid", "Mpo.apply", "labels of H G invalid", key + ("HG-qnv",), {}, rep)
            Sm = H.add(G)
            led.check(close(sdense(Sm), Hd + Gd) and not S.qnv_violations(Sm), "post:MatrixProduct.add:operator_sum", "MatrixProduct.add",
                      "dense(H+G) wrong or labels invalid", key + ("H+G",), {"nsites": n}, rep)
            for how, r2 in (lossless_variants(Sm) if sdense(Sm) is not None else []):
                led.check(close(S.dense(r2), Hd + Gd), "post:MatrixProduct.add:operator_sum_after_canonicalise", "MatrixProduct.add",
                          f"H+G wrong after {how}", key + ("H+G", how), {}, dict(rep, then=how))
            # inner products of operators: <H, G> = Tr(H^dagger G), through `dot` and through the open-boundary variant `dot_ob` (1x1x1x1 for closed chains)
            try:
                want_hg = np.vdot(Hd, Gd)
                got_dot = H.conj().dot(G)
                got_ob = np.asarray(H.conj().dot_ob(G)).reshape(-1)
                led.check(abs(got_dot - want_hg) <= TOL * max(1.0, abs(want_hg)), "post:MatrixProduct.dot:operator_overlap", "MatrixProduct.dot", f"<H,G> = {got_dot} vs Tr(H^+ G) = {want_hg}",
                          key + ("HG-dot",), {}, rep)
                led.check(got_ob.size == 1 and abs(got_ob[0] - want_hg) <= TOL * max(1.0, abs(want_hg)), "post:MatrixProduct.dot_ob:operator_overlap", "MatrixProduct.dot_ob",
                          f"dot_ob gives {got_ob[:2]} vs Tr(H^+ G) = {want_hg}", key + ("HG-dot_ob",), {}, rep)
            except Exception as e:
                led.check(False, "post:MatrixProduct.dot_ob:total", "MatrixProduct.dot_ob", f"raised {type(e).__name__}: {e}", key + ("HG-dot_ob",), {}, rep)
            Gt = G.conj_trans()
            led.check(close(S.dense(Gt), Gd.conj().T), "post:Mpo.conj_trans:dense_adjoint", "Mpo.conj_trans", "adjoint wrong", key + ("G+",), {}, rep)
            led.check(not S.qnv_violations(Gt), "post:Mpo.conj_trans:qn_valid", "Mpo.conj_trans", "adjoint labels invalid", key + ("G+-qnv",), {}, rep)
    # ---- density operators: operator x density operator (H rho) and density operator x operator (rho H); only the upper physical index of a density
    #      operator carries charge, so a right factor must leave the bond labels alone whatever its own bond labels are
    if H is not None:
        for q in sel[:2]:
            a0 = U.make_state(model, q, 3, rng, complex_=(rng.random() < 0.5))
            if a0 is None:
                continue
            for gd in ("fresh", "cano", "center"):
                rho = S.apply_gauge(MpDm.from_mps(a0), gd, int(rng.integers(n)))
                rho = H.apply(rho) if rng.random() < 0.5 else rho       # a density operator that is not diagonal
                Rd = S.dense(rho)
                if np.abs(Rd).max() < 1e-12:
                    continue
                key = (name, n, str(q), "mpdm", gd)
                rep = {"model": name, "nsites": n, "sector": q, "gauge": gd, "terms": [repr(t) for t in terms], "seed": seed, "rho": describe(rho)}
                fields = {"density_operator": True, "operator_has_charged_bonds": bool(any(np.any(np.asarray(x) != 0) for x in H.qn))}
                for side, fn, mk, ref in (("rho H", "MpDm.apply", lambda: rho.apply(H), Rd @ Hd), ("H rho", "Mpo.apply", lambda: H.apply(rho), Hd @ Rd)):
                    try:
                        r = mk()
                    except Exception as e:
                        led.check(False, f"post:{fn}:density_operator_total", fn, f"{side} raised {type(e).__name__}: {e}", key + (side,), fields, rep)
                        continue
                    led.check(close(S.dense(r), ref), f"post:{fn}:density_operator_product", fn, f"dense({side}) != product of the dense matrices", key + (side, "dense"), fields, rep)
                    v = S.qnv_violations(r)
                    led.check(not v, f"post:{fn}:density_operator_product_qn_valid", fn, f"{side}: labels invalid: {v[:1]}", key + (side, "qnv"), fields, rep,
                              nontrivial=fields["operator_has_charged_bonds"])
                    for how, r2 in lossless_variants(r):
                        led.check(close(S.dense(r2), ref), f"post:{fn}:density_operator_product_correct_after_canonicalise", fn, f"{side} wrong after {how}",
                                  key + (side, how), fields, dict(rep, then=how), nontrivial=fields["operator_has_charged_bonds"])
                    led.check(close(S.dense(rho), Rd), f"frame:{fn}:density_operator_input", fn, f"{side} changed the density operator", key + (side, "frame"), fields, rep)
                try:
                    rc = rho.apply(H, canonicalise=True)
                    led.check(close(S.dense(rc), Rd @ Hd), "post:MpDm.apply:canonicalise_flag", "MpDm.apply", "rho.apply(H, canonicalise=True) differs from rho H", key + ("canoflag",), fields, rep)
                except Exception as e:
                    led.check(False, "post:MpDm.apply:density_operator_total", "MpDm.apply", f"apply(canonicalise=True) raised {type(e).__name__}: {e}", key + ("canoflag",), fields, rep)
    # ---- charged operators: sector shift and adjoint
    eo = [(op, ch, s) for op, ch, s in U.elem_ops(model) if any(ch)]
    if eo:
        op, ch, s = eo[int(rng.integers(len(eo)))]
        key = (name, n, "charged", op.symbol, s)
        rep = {"model": name, "nsites": n, "op": repr(op), "charge": list(ch), "seed": seed}
        fields = {"charged": True}
        O = Mpo(model, op)
        Od = U.dense_terms(model, [op])
        led.check(close(S.dense(O), Od) and not S.qnv_violations(O), "post:Mpo.__init__:charged_dense_and_qn", "Mpo.__init__",
                  "charged operator MPO wrong / labels invalid", key + ("init",), fields, rep)
        led.check(np.all(np.asarray(O.qntot).reshape(-1) == np.asarray(ch)), "post:Mpo.__init__:qntot_is_charge", "Mpo.__init__",
                  f"qntot {O.qntot} != charge {ch}", key + ("qntot",), fields, rep)
        Ot = O.conj_trans()
        led.check(close(S.dense(Ot), Od.conj().T), "post:Mpo.conj_trans:dense_adjoint", "Mpo.conj_trans", "adjoint wrong", key + ("adj",), fields, rep)
        v = S.qnv_violations(Ot)
        led.check(not v, "post:Mpo.conj_trans:qn_valid", "Mpo.conj_trans",
                  f"adjoint of a charged operator has invalid labels/qntot: {v[:1]}", key + ("adj-qnv",), fields, rep)
        for q in sel:
            a0 = U.make_state(model, q, 3, rng)
            if a0 is None:
                continue
            da = S.dense(a0)
            r = O.apply(a0)
            want_q = np.asarray(q).reshape(-1) + np.asarray(ch)
            led.check(close(S.dense(r), Od @ da), "post:Mpo.apply:charged_dense_product", "Mpo.apply", "O|a> wrong", key + (str(q), "apply"), fields, rep)
            led.check(np.all(np.asarray(r.qntot).reshape(-1) == want_q) and not S.qnv_violations(r), "post:Mpo.apply:sector_shift", "Mpo.apply",
                      f"sector after O: {r.qntot}, expected {want_q}; qnv={S.qnv_violations(r)[:1]}", key + (str(q), "shift"), fields, rep)
            led.check(np.all(np.asarray(a0.qntot).reshape(-1) == np.asarray(q).reshape(-1)) and not S.qnv_violations(a0) and close(S.dense(a0), da),
                      "frame:Mpo.apply:operand_sector_and_labels", "Mpo.apply",
                      f"applying a charged operator changed the operand: qntot={np.asarray(a0.qntot).tolist()} (was {q})", key + (str(q), "frame"), fields, rep)
            if np.abs(Od @ da).max() > 1e-12:
                try:
                    back = Ot.apply(r)
                    ok = close(S.dense(back), Od.conj().T @ (Od @ da)) and not S.qnv_violations(back)
                    what = "O^dagger O |a> wrong or labels invalid"
                except Exception as e:
                    ok, what = False, f"applying the adjoint raised {type(e).__name__}: {e}"
                led.check(ok, "post:Mpo.conj_trans:usable_adjoint", "Mpo.conj_trans", what, key + (str(q), "OtO"), fields, rep)

    # ---- single product operators: bond dimension 1 everywhere, total charge zero, but non-zero labels on the bonds between the two sites (a hopping term), and neutral
    #      one-site operators: products, label validity of the product, and the product used further (canonicalised, added to another state)
    charged = [(op, ch, s) for op, ch, s in U.elem_ops(model) if any(ch)]
    singles = []
    for (o1, c1, s1) in charged:
        for (o2, c2, s2) in charged:
            if s1 != s2 and not np.any(np.asarray(c1) + np.asarray(c2)):
                singles.append(o1 * o2 * 0.7)
    rng.shuffle(singles)
    neutral = [op for op, ch, s in U.elem_ops(model) if not any(ch)]
    rng.shuffle(neutral)
    for op in singles[:3] + neutral[:1]:
        try:
            O = Mpo(model, op)
        except Exception:
            continue
        Od = U.dense_terms(model, [op])
        key = (name, n, "single-product", repr(op))
        rep = {"model": name, "nsites": n, "op": repr(op), "operator_bonds": list(O.bond_dims), "seed": seed}
        fields = {"single_product_operator": True, "bond_dimension_one": bool(max(O.bond_dims) == 1)}
        for q in sel:
            a0 = U.make_state(model, q, 3, rng, complex_=bool(rng.integers(2)))
            b0 = U.make_state(model, q, 2, rng)
            if a0 is None or b0 is None:
                continue
            da, db = S.dense(a0), S.dense(b0)
            if np.abs(Od @ da).max() <= 1e-12:
                continue
            try:
                r = O.apply(a0)
                led.check(close(S.dense(r), Od @ da) and not S.qnv_violations(r) and np.all(np.asarray(r.qntot).reshape(-1) == np.asarray(q).reshape(-1)),
                          "post:Mpo.apply:single_product_operator", "Mpo.apply", f"O|a> wrong or labels invalid: {S.qnv_violations(r)[:1]}", key + (str(q), "apply"), fields, rep)
                rc = r.copy().canonicalise().canonicalise()
                led.check(close(S.dense(rc), Od @ da) and not S.qnv_violations(rc), "post:Mpo.apply:single_product_operator_then_canonicalise", "Mpo.apply",
                          "O|a> changed when it was canonicalised", key + (str(q), "cano"), fields, rep)
                sm = r.add(b0).canonicalise()
                led.check(close(S.dense(sm), Od @ da + db), "post:Mpo.apply:single_product_operator_then_add", "MatrixProduct.add", "(O|a> + |b>) canonicalised differs from the dense sum",
                          key + (str(q), "add"), fields, rep)
                r2 = O.apply(a0, canonicalise=True)
                led.check(close(S.dense(r2), Od @ da) and not S.qnv_violations(r2), "post:Mpo.apply:single_product_operator_canonicalise_flag", "Mpo.apply", "apply(canonicalise=True) wrong",
                          key + (str(q), "flag"), fields, rep)
            except Exception as e:
                led.check(False, "post:Mpo.apply:single_product_operator_total", "Mpo.apply", f"raised {type(e).__name__}: {e}", key + (str(q), "total"), fields, rep)
    # ---- Hermiticity predicate of operators: true exactly for operators equal to their conjugate transpose (complex Hermitian ones included, complex symmetric
    #      non-Hermitian ones excluded)
    for cf in (False, True):
        tt = U.random_terms(model, rng, 3, complex_factors=cf)
        if not tt:
            continue
        try:
            # preparing the operators is harness work: sums that vanish (O already Hermitian) cannot be scaled (documented assertion) - such candidates are skipped
            O1 = Mpo(model, tt)
            cands = [("O", O1)]
            for label, mk in (("O + O^dagger", lambda: O1.add(O1.conj_trans())), ("i(O - O^dagger)", lambda: O1.add(O1.conj_trans().scale(-1.0)).scale(1j)),
                              ("i(O + O^dagger)", lambda: O1.add(O1.conj_trans()).scale(1j))):
                if label.startswith("i") and not cf:
                    continue
                try:
                    cands.append((label, mk()))
                except (AssertionError, FloatingPointError):
                    led.ok("skipped:Mpo.is_hermitian:candidate_not_constructible", "Mpo.is_hermitian", (name, n, "is_hermitian", label, cf, "skip"), nontrivial=False)
        except Exception:
            continue
        try:
            for label, O_ in cands:
                Dd = S.dense(O_)
                want = bool(np.abs(Dd - Dd.conj().T).max() <= 1e-9 * max(1.0, np.abs(Dd).max()))
                borderline = (not want) and np.abs(Dd - Dd.conj().T).max() <= 1e-5
                if borderline:
                    continue
                got = bool(O_.is_hermitian())
                led.check(got == want, "post:Mpo.is_hermitian:iff_equal_to_its_conjugate_transpose", "Mpo.is_hermitian",
                          f"{label} ({'complex' if cf else 'real'} coefficients): is_hermitian() = {got}, dense |O - O^dagger| = {np.abs(Dd - Dd.conj().T).max():.2e}",
                          (name, n, "is_hermitian", label, cf), {"complex": cf, "expected": want}, {"model": name, "nsites": n, "terms": [repr(t) for t in tt], "operator": label})
        except Exception as e:
            led.check(False, "post:Mpo.is_hermitian:total", "Mpo.is_hermitian", f"raised {type(e).__name__}: {e}", (name, n, "is_hermitian", cf), {}, {})
    # ---- a state embedded as a density operator (MpDm.from_mps) keeps its prefactor, sign and phase included
    from renormalizer.mps import MpDm
    for q in sel[:2]:
        a0 = U.make_state(model, q, 2, rng, complex_=bool(rng.integers(2)))
        if a0 is None:
            continue
        for c_ in (1.0, -0.5, 0.3 + 0.4j, 2.0j):
            a1 = a0.copy()
            a1.coeff = c_
            key = (name, n, "from_mps", str(q), str(c_))
            try:
                rho = MpDm.from_mps(a1)
                want = np.diag(S.dense(a1))
                got = S.dense(rho)
                led.check(got.shape == want.shape and close(got, want) and not S.qnv_violations(rho), "post:MpDm.from_mps:diagonal_embedding_with_the_prefactor", "MpDm.from_mps",
                          f"prefactor {c_}: the embedded operator differs from diag(c psi) by {np.abs(got - want).max() if got.shape == want.shape else 'shape'}", key, {"prefactor": str(c_)},
                          {"model": name, "nsites": n, "sector": q, "prefactor": str(c_)})
                led.check(close(S.dense(a1), c_ * S.dense(a0, with_coeff=False)), "frame:MpDm.from_mps:input", "MpDm.from_mps", "input state changed", key + ("frame",), {}, {})
            except Exception as e:
                led.check(False, "post:MpDm.from_mps:total", "MpDm.from_mps", f"raised {type(e).__name__}: {e}", key, {}, {})
    # ---- bra-ket pairs (the correlation-function helper): <c_b B| O |c_k K> with the prefactors of both states, with and without an operator
    from renormalizer.mps.mps import BraKetPair
    for q in sel[:2]:
        a0 = U.make_state(model, q, 3, rng, complex_=True)
        b0 = U.make_state(model, q, 2, rng, complex_=True)
        if a0 is None or b0 is None:
            continue
        da, db = S.dense(a0, with_coeff=False), S.dense(b0, with_coeff=False)
        for cb, ck in ((0.6 + 0.8j, 1.0), (1.0, -0.5j), (0.3 - 1.1j, 2.0 + 0.5j)):
            b1, a1 = b0.copy(), a0.copy()
            b1.coeff, a1.coeff = cb, ck
            key = (name, n, "braket", str(q), str(cb), str(ck))
            rep = {"model": name, "nsites": n, "sector": q, "bra_prefactor": str(cb), "ket_prefactor": str(ck), "seed": seed}
            for label, O_, Od_ in (("no-operator", None, None),) + ((("operator", H, Hd),) if terms else ()):
                try:
                    ft = BraKetPair(b1, a1, O_).ft
                    ref = np.conj(cb) * ck * (np.vdot(db, da) if O_ is None else np.vdot(db, Od_ @ da))
                    led.check(abs(ft - ref) <= TOL * max(1.0, abs(ref)), "post:BraKetPair.calc_ft:amplitude_with_both_prefactors", "BraKetPair.calc_ft",
                              f"{label}: {ft} vs conj(c_b) c_k <B|O|K> = {ref}", key + (label,), {"operator": O_ is not None}, rep)
                except Exception as e:
                    led.check(False, "post:BraKetPair.calc_ft:total", "BraKetPair.calc_ft", f"{label}: raised {type(e).__name__}: {e}", key + (label,), {}, rep)


def w_normalize(case, led):
    """normalize(kind) on chain states, density operators and tree states with real, negative and complex prefactors: the tensors become dense/|dense|, the prefactor
    stays (only), is divided by its modulus (and_coeff) or takes over the norm (norm_to_coeff)"""
    _, seed = case
    rng = np.random.default_rng([seed, 303])
    from renormalizer.model import Model, Op
    from renormalizer.model.basis import BasisHalfSpin
    from renormalizer.mps import Mps, MpDm
    n = 3 + seed % 2
    model = Model([BasisHalfSpin(i) for i in range(n)], [Op("sigma_z", 0)])
    np.random.seed(seed + 5)
    objs = []
    a = Mps.random(model, 0, 4, percent=1.0)
    objs.append(("Mps", a, "mps"))
    ac = a.to_complex()
    ac[1] = ac[1].array * (0.3 + 0.9j)
    objs.append(("Mps-complex", ac, "mps"))
    objs.append(("MpDm", MpDm.from_mps(a), "mps"))
    try:
        from renormalizer.tn.tree import from_mps
        objs.append(("TTNS", from_mps(a)[1], "ttns"))
    except Exception:
        pass
    for label, x0, pre in objs:
        for c in (1.0, -2.5, 0.6 + 0.3j, -0.2 - 1.1j, 1.7j):
            for kind in ("only", "and_coeff", "norm_to_coeff"):
                x = x0.copy()
                x = x.scale(float(rng.uniform(0.4, 2.5)))
                x.coeff = c
                if pre == "ttns":
                    from vk.specs import tree as T
                    dense = lambda y: np.asarray(T.dense_ttns(y, list(model.basis), with_coeff=False))
                else:
                    dense = lambda y: np.asarray(S.dense(y, with_coeff=False))
                v = dense(x)
                nv = float(np.linalg.norm(v))
                key = ("normalize", label, seed, repr(c), kind)
                rep = {"object": label, "prefactor": repr(c), "kind": f"{pre}_{kind}", "seed": seed}
                try:
                    r = x.normalize(f"{pre}_{kind}")
                    want_c = {"only": c, "and_coeff": c / abs(c), "norm_to_coeff": c * nv}[kind]
                    got_c = complex(r.coeff)
                    w = dense(r)
                    led.check(np.abs(w - v / nv).max() <= 1e-12 and abs(got_c - want_c) <= 1e-12 * max(1.0, abs(want_c)), "post:normalize:tensors_unit_norm_and_prefactor_by_kind",
                              "normalize", f"tensors differ from dense/|dense| by {np.abs(w - v / nv).max():.1e}; prefactor {got_c} vs {want_c}", key, {"kind": kind}, rep)
                except Exception as e:
                    led.check(False, "post:normalize:total", "normalize", f"raised {type(e).__name__}: {e}", key, {"kind": kind}, rep)


def check(run):
    from props import C03_proof, C03_sym
    C03_proof.prove(run)
    guarded(run, C03_sym.prove)
    seeds = [run.seed] if run.tier == "quick" else [run.seed, run.seed + 1, run.seed + 2]
    cases = [(name, n, s, run.tier) for name, n in U.chain_cases(run.tier, run.seed) for s in seeds]
    run_cases(run, worker, cases)
    run_cases(run, w_normalize, [("normalize", run.seed + i) for i in range(2 if run.tier == "quick" else 6)])
    run.rule = ("models {spin, spin+1qn, spin+2qn, electron-phonon, multi-electron} x 1..4(5) sites x <=2(4) sectors x operand gauge histories "
                "{fresh, canonicalised once/twice, compressed, ensure_left/right, centre moved, partial canonicalise} x {add, sub, scale, conj, dot, "
                "distance, norm, prefactors, Mpo.apply, operator products/sums/adjoints, charged operators}; non-trivial = >=2 sites and operands in "
                "different gauges or bond dimension > 1; distinct = distinct (model, size, sector, gauges, contract) tuples")
    run.sample({"model": "spinqn", "nsites": 4, "sector": 2, "gauge_a": "compress", "gauge_b": "center",
                "contract": "dense(a.add(b)) == dense(a)+dense(b) and QNV(result) and the same after ensure_left_canonical()"})
    run.explanation = ("Proved (pyvc, all sizes): move_qnidx preserves the QN-valid representation invariant and the add/apply label bookkeeping "
                       "obligations built on it. Decided exactly per shape (Engine S) where listed. Everything else: runtime contracts against an "
                       "independent dense contraction, bounded by the enumerated models/gauges (bounded stand-in, not counted as proved).")
    run.trusted += ["independent dense contraction in vk/specs/chain.py (np.tensordot) as the reference semantics"]
