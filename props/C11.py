"""C11 Tree tensor network states behave as dense vectors for every topology."""
from vk.symx.harness import guarded
import numpy as np

from vk.rtc.harness import run_cases
from vk.specs import tree as T
from vk.specs import treeuniv as TU
from vk.specs import universe as U
from vk.specs import chain as S

LEVEL = "other"
TECHNIQUE = ("contracts decided exactly by symbolic execution of the real TTNS/TTNO code (all tensor values, every tree shape of the universe) + runtime contracts on the real TTNS/TTNO methods against an independent recursive tree contraction and dense linear algebra over enumerated "
             "rooted ordered tree shapes (every child order is its own case), node groupings and dummy placements (bounded stand-in)")
TOL = 1e-10


def close(x, y, tol=TOL):
    x, y = np.asarray(x), np.asarray(y)
    if x.shape != y.shape:
        return False
    sc = max(1.0, float(np.abs(x).max()) if x.size else 0.0, float(np.abs(y).max()) if y.size else 0.0)
    return bool(np.all(np.abs(x - y) <= tol * sc))


def dims_of(order):
    return [b.nbas for b in order]


def rdm_ref(v, dims, sites):
    k = len(sites)
    m = np.moveaxis(v.reshape(dims), sites, list(range(k))).reshape(int(np.prod([dims[s] for s in sites])), -1)
    return m @ m.conj().T


def entropy(p):
    p = np.asarray(p, dtype=float)
    p = p[p > 1e-15]
    p = p / p.sum()
    return float(-(p * np.log(p)).sum())


def worker(case, led):
    n_nodes, flavour, seed, tier = case
    from renormalizer.tn import TTNS, TTNO
    from renormalizer.model import Op
    su = TU.setup(seed, n_nodes, flavour)
    if su is None:
        return
    bt, order, model, terms, H, Hd, sectors, rng = su["bt"], su["order"], su["model"], su["terms"], su["H"], su["Hd"], su["sectors"], su["rng"]
    dims = dims_of(order)
    desc = dict(TU.describe_tree(bt), flavour=flavour, seed=seed, n_nodes=n_nodes, shape=repr(su["shape"]))
    sel = list(sectors)
    rng.shuffle(sel)
    done = 0
    for q in sel:
        if done >= 2:
            break
        a = TU.random_ttns(bt, q, 3, rng)
        b = TU.random_ttns(bt, q, 2, rng, complex_=rng.random() < 0.4)
        if a is None or b is None:
            continue
        done += 1
        va, vb = T.dense_ttns(a, order), T.dense_ttns(b, order)
        mask = S.sector_mask(model, q)
        key = (repr(su["shape"]), flavour, seed, str(q))
        rep = dict(desc, sector=q)
        f = {"n_nodes": n_nodes}
        # ---- constructor
        leak = float(np.abs(va[~mask]).max()) if (~mask).any() else 0.0
        led.check(not T.qnv_tree_violations(a) and leak == 0.0 and abs(np.linalg.norm(va) - 1) < 1e-10, "post:TTNS.random:normalised_in_sector_qn_valid", "TTNS.random",
                  f"leak {leak:.1e}, norm {np.linalg.norm(va)}, qnv {T.qnv_tree_violations(a)[:1]}", key + ("random",), f, rep)
        led.check(close(np.asarray(a.todense(order)).ravel() * a.coeff, va), "post:TTNS.todense:independent_contraction", "TTNS.todense", "todense(order) differs from the independent contraction",
                  key + ("todense",), f, rep)
        rev = order[::-1]
        led.check(close(np.asarray(a.todense(rev)).ravel() * a.coeff, T.dense_ttns(a, rev)), "post:TTNS.todense:order_argument", "TTNS.todense", "todense(reversed order) wrong", key + ("todense-rev",), f, rep)
        # the default order is the tree's own list of basis sets; virtual (dummy) nodes carry no physical index
        has_dummy = any(type(bb).__name__ == "BasisDummy" for bb in bt.basis_list)
        try:
            dflt = [bb for bb in bt.basis_list if type(bb).__name__ != "BasisDummy"]
            led.check(close(np.asarray(a.todense()).ravel() * a.coeff, T.dense_ttns(a, dflt)), "post:TTNS.todense:default_order", "TTNS.todense",
                      "todense() differs from the contraction in the order of basis.basis_list", key + ("todense-default",), dict(f, dummy_nodes=has_dummy), rep, nontrivial=has_dummy)
        except Exception as e:
            led.check(False, "post:TTNS.todense:default_order", "TTNS.todense", f"todense() with the default order raised {type(e).__name__}: {e}"
                      + (" (the tree has virtual nodes)" if has_dummy else ""), key + ("todense-default",), dict(f, dummy_nodes=has_dummy), rep)
        # ---- arithmetic
        c = a.add(b)
        led.check(close(T.dense_ttns(c, order), va + vb), "post:TTNS.add:dense_sum", "TTNS.add", "dense(a+b) != dense(a)+dense(b)", key + ("add",), f, rep)
        led.check(not T.qnv_tree_violations(c), "post:TTNS.add:qn_valid", "TTNS.add", f"{T.qnv_tree_violations(c)[:1]}", key + ("add-qnv",), f, rep)
        led.check(close(T.dense_ttns(a, order), va) and close(T.dense_ttns(b, order), vb), "frame:TTNS.add:operands", "TTNS.add", "operand changed", key + ("add-frame",), f, rep)
        for val in (0.5, -2.0, 0.3 + 0.4j):
            r = a.scale(val)
            led.check(close(T.dense_ttns(r, order), val * va), "post:TTNS.scale:dense_scale", "TTNS.scale", f"scale({val}) wrong", key + ("scale", str(val)), f, rep)
            led.check(close(T.dense_ttns(a, order), va), "frame:TTNS.scale:input", "TTNS.scale", "scale changed its input", key + ("scale-frame", str(val)), f, rep)
        cp = a.copy()
        cp.scale(3.0, inplace=True)
        led.check(close(T.dense_ttns(cp, order), 3 * va) and close(T.dense_ttns(a, order), va), "frame:TTNS.copy:independent", "TTNS.copy", "in-place change of a copy leaked", key + ("copy",), f, rep)
        tc = a.to_complex()
        led.check(close(T.dense_ttns(tc, order), va.astype(complex)) and close(T.dense_ttns(a, order), va), "post:TTNS.to_complex:same_state", "TTNS.to_complex", "to_complex changed the state",
                  key + ("tocomplex",), f, rep)
        # ---- operator application
        r = H.apply(a)
        led.check(close(T.dense_ttns(r, order), Hd @ va), "post:TTNO.apply:dense_product", "TTNO.apply", "dense(H|a>) != dense(H) dense(a)", key + ("apply",), f, rep)
        led.check(not T.qnv_tree_violations(r), "post:TTNO.apply:qn_valid", "TTNO.apply", f"{T.qnv_tree_violations(r)[:1]}", key + ("apply-qnv",), f, rep)
        led.check(close(T.dense_ttns(a, order), va), "frame:TTNO.apply:input", "TTNO.apply", "apply changed its input", key + ("apply-frame",), f, rep)
        # ---- canonicalise / lossless compress of redundant states
        for label, st0, ref in (("a+b", c, va + vb), ("H|a>", r, Hd @ va), ("a+a", a.add(a), 2 * va)):
            x = st0.copy()
            bd0 = list(x.bond_dims)
            x.canonicalise()
            led.check(close(T.dense_ttns(x, order), ref), "post:TTNS.canonicalise:dense_unchanged", "TTNS.canonicalise", f"{label}: object changed", key + ("cano", label), f, rep)
            ok_iso = True
            for node in x.node_list[1:]:
                m = np.asarray(node.tensor).reshape(-1, node.tensor.shape[-1])
                if np.abs(m.conj().T @ m - np.eye(m.shape[1])).max() > 1e-9:
                    ok_iso = False
            led.check(ok_iso and not T.qnv_tree_violations(x), "post:TTNS.canonicalise:isometries_towards_root", "TTNS.canonicalise", f"{label}: non-root node not an isometry / labels invalid",
                      key + ("cano-iso", label), f, rep)
            led.check(all(p <= q_ for p, q_ in zip(x.bond_dims, bd0)), "post:TTNS.canonicalise:no_bond_grows", "TTNS.canonicalise", f"{bd0} -> {list(x.bond_dims)}", key + ("cano-bd", label), f, rep)
            if len(x.node_list) >= 2:
                y = x.copy()
                from renormalizer.utils import CompressConfig, CompressCriteria
                y.compress_config = CompressConfig(CompressCriteria.fixed, max_bonddim=10 ** 4)
                try:
                    y.compress()
                    led.check(close(T.dense_ttns(y, order), ref, 1e-9) and not T.qnv_tree_violations(y), "post:TTNS.compress:lossless_preserves_object", "TTNS.compress",
                              f"{label}: lossless compression changed the object", key + ("compress", label), f, rep)
                    eb = y.bond_dims_exact
                    led.check(all(bd <= e + 1e-9 for bd, e in zip(y.bond_dims, eb)), "post:TTNS.compress:bonds_bounded_by_physical_dims", "TTNS.compress",
                              f"{list(y.bond_dims)} vs {list(eb)}", key + ("compress-bd", label), f, rep)
                except Exception as e:
                    led.check(False, "post:TTNS.compress:total", "TTNS.compress", f"{label}: raised {type(e).__name__}: {e}", key + ("compress", label), f, rep)
                # the same through the per-bond list argument: limits equal to the current bond dimensions (entry i = bond above node i) cut nothing
                for how, lims in (("current_bond_dims", [int(d) for d in x.bond_dims]), ("current_bond_dims_as_array", np.array([int(d) for d in x.bond_dims]))):
                    z = x.copy()
                    try:
                        z.compress(temp_m_trunc=lims)
                        led.check(close(T.dense_ttns(z, order), ref, 1e-9) and not T.qnv_tree_violations(z), "post:TTNS.compress:per_bond_list_at_current_dims_is_lossless", "TTNS.compress",
                                  f"{label}: compress(temp_m_trunc={list(map(int, lims))}) changed the object; bond dims {list(x.bond_dims)} -> {list(z.bond_dims)}",
                                  key + ("compress-list", label, how), dict(f, via=how), dict(rep, limits=[int(v) for v in lims]),
                                  nontrivial=len(set(int(v) for v in lims[1:len(x.node_list)])) > 1)
                    except Exception as e:
                        led.check(False, "post:TTNS.compress:total", "TTNS.compress", f"{label}: compress(temp_m_trunc=list) raised {type(e).__name__}: {e}", key + ("compress-list", label, how), f, rep)
        # ---- norms / expectation values
        led.check(abs(b.ttns_norm - np.linalg.norm(vb)) <= TOL * max(1, np.linalg.norm(vb)), "post:TTNS.ttns_norm:dense_norm", "TTNS.ttns_norm", f"{b.ttns_norm} vs {np.linalg.norm(vb)}", key + ("norm",), f, rep)
        for st, v in ((a, va), (b, vb)):
            e = st.expectation(H)
            refe = np.vdot(v, Hd @ v)
            led.check(abs(e - refe) <= 1e-9 * max(1, abs(refe)), "post:TTNS.expectation:dense_value", "TTNS.expectation", f"{e} vs {refe}", key + ("exp", id(st) == id(a)), f, rep)
            led.check(st.root.parent is None and bt.root.parent is None and H.root.parent is None, "frame:TTNS.expectation:roots_restored", "TTNS.expectation",
                      "expectation left a temporary parent attached to a root", key + ("exp-frame", id(st) == id(a)), f, rep)
        # the einsum entry point (the only one taking a bra): <bra|O|ket> with the bra conjugated, for real and complex states
        for lb_, bra_, vbra in (("ket", None, va), ("other", b, vb)):
            try:
                e1 = a.expectation1(H) if bra_ is None else a.expectation1(H, bra=bra_)
                refe = np.vdot(vbra, Hd @ va)
                led.check(abs(e1 - refe) <= 1e-9 * max(1, abs(refe)), "post:TTNS.expectation1:dense_transition_amplitude", "TTNS.expectation1", f"bra={lb_}: {e1} vs {refe}",
                          key + ("exp1", lb_), dict(f, complex_state=bool(np.iscomplexobj(va) or np.iscomplexobj(vbra))), rep)
            except Exception as e:
                led.check(False, "post:TTNS.expectation1:total", "TTNS.expectation1", f"bra={lb_}: raised {type(e).__name__}: {e}", key + ("exp1", lb_), f, rep)
        t0 = terms[0]
        e = a.expectation(t0)
        refe = np.vdot(va, U.dense_terms(model, [t0]) @ va)
        led.check(abs(e - refe) <= 1e-9 * max(1, abs(refe)), "post:TTNS.expectation:op_argument", "TTNS.expectation", f"expectation(Op): {e} vs {refe}", key + ("exp-op",), f, rep)
        # ---- reduced density matrices and entropies
        for st, v in ((a, va), (b.scale(1 / max(np.linalg.norm(vb), 1e-300)), vb / max(np.linalg.norm(vb), 1e-300))):
            cplx = np.iscomplexobj(v)
            r1 = st.calc_1site_rdm()
            for ni, node in enumerate(bt.node_list):
                bs = node.basis_sets
                sites = [order.index(bb) for bb in bs if type(bb).__name__ != "BasisDummy"]
                got = np.asarray(r1[ni])
                pd = [bb.nbas for bb in bs]
                d = int(np.prod(pd))
                got2 = got.reshape(d, d)
                if sites:
                    # node physical order may differ from `order`: build the reference in node order
                    ref = rdm_ref(v, dims, sites)
                else:
                    ref = np.array([[np.vdot(v, v)]])
                rel = "equal" if close(got2, ref, 1e-9) else ("result == conj(rho)" if close(got2, ref.conj(), 1e-9) else "other")
                led.check(rel == "equal", "post:TTNS.calc_1site_rdm:partial_trace", "TTNS.calc_1site_rdm", f"node {ni}: differs from the partial trace ({rel})",
                          key + ("rdm1", ni, cplx), {"complex_state": bool(cplx), "relation": rel}, dict(rep, node=ni))
            dofs = [bb.dofs[0] for bb in order]
            r1d = st.calc_1dof_rdm()
            for bi, bb in enumerate(order):
                ref = rdm_ref(v, dims, [bi])
                got = np.asarray(r1d[bb.dofs[0]])
                rel = "equal" if close(got, ref, 1e-9) else ("result == conj(rho)" if close(got, ref.conj(), 1e-9) else "other")
                led.check(rel == "equal", "post:TTNS.calc_1dof_rdm:partial_trace", "TTNS.calc_1dof_rdm", f"dof {bb.dofs[0]}: differs from the partial trace ({rel})",
                          key + ("rdm1dof", bi, cplx), {"complex_state": bool(cplx), "relation": rel}, dict(rep, dof=repr(bb.dofs[0])))
            if len(order) >= 2:
                pairs = [(dofs[i], dofs[j]) for i in range(len(dofs)) for j in range(i + 1, len(dofs))][:6]
                try:
                    r2 = st.calc_2dof_rdm(pairs)
                    for (d1, d2) in pairs:
                        i, j = dofs.index(d1), dofs.index(d2)
                        ref = rdm_ref(v, dims, [i, j])
                        got = np.asarray(r2[(d1, d2)]).reshape(ref.shape)
                        rel = "equal" if close(got, ref, 1e-9) else ("result == conj(rho)" if close(got, ref.conj(), 1e-9) else "other")
                        led.check(rel == "equal", "post:TTNS.calc_2dof_rdm:partial_trace", "TTNS.calc_2dof_rdm", f"dofs {(d1, d2)}: differs from the partial trace ({rel})",
                                  key + ("rdm2dof", i, j, cplx), {"complex_state": bool(cplx), "relation": rel, "same_node": bt.dof2idx[d1] == bt.dof2idx[d2]}, dict(rep, dofs=[repr(d1), repr(d2)]))
                except Exception as e:
                    led.check(False, "post:TTNS.calc_2dof_rdm:total", "TTNS.calc_2dof_rdm", f"raised {type(e).__name__}: {e}", key + ("rdm2dof", cplx), {}, rep)
                # one call listing pairs in BOTH orders and a pair twice: every entry is the partial trace in the order of ITS key, whatever else the list holds
                both = [(dofs[i], dofs[j]) for i in range(len(dofs)) for j in range(len(dofs)) if i != j][:8]
                both = both + both[:1]
                try:
                    r2b = st.calc_2dof_rdm(both)
                    for (d1, d2) in dict.fromkeys(both):
                        i, j = dofs.index(d1), dofs.index(d2)
                        ref = rdm_ref(v, dims, [i, j])
                        got = np.asarray(r2b[(d1, d2)])
                        ok = got.size == ref.size and close(got.reshape(ref.shape), ref, 1e-9)
                        led.check(ok, "post:TTNS.calc_2dof_rdm:partial_trace_in_the_order_of_the_key", "TTNS.calc_2dof_rdm",
                                  f"dofs {(d1, d2)} in a list holding both orders: differs from the partial trace over ({d1}, {d2}) (shape {got.shape})",
                                  key + ("rdm2dof-both", i, j, cplx), {"complex_state": bool(cplx), "reversed_pair": bool(i > j)}, dict(rep, dofs=[repr(d1), repr(d2)], pairs=repr(both)))
                except Exception as e:
                    led.check(False, "post:TTNS.calc_2dof_rdm:total", "TTNS.calc_2dof_rdm", f"raised {type(e).__name__}: {e} for a list with both orders", key + ("rdm2dof-both", cplx), {}, rep)
            try:
                s1 = st.calc_1dof_entropy()
                ok = all(abs(s1[bb.dofs[0]] - entropy(np.linalg.eigvalsh(rdm_ref(v, dims, [bi])))) <= 1e-8 for bi, bb in enumerate(order))
                led.check(ok, "post:TTNS.calc_1dof_entropy:dense_value", "TTNS.calc_1dof_entropy", "entropy differs from the dense value", key + ("s1", cplx), {}, rep)
            except Exception as e:
                led.check(False, "post:TTNS.calc_1dof_entropy:total", "TTNS.calc_1dof_entropy", f"raised {type(e).__name__}: {e}", key + ("s1", cplx), {}, rep)
            # ---- the remaining observables of the property text: two-site RDMs and the entropies built on the RDMs (sites, pairs of sites, pairs of dofs, mutual information)
            phys = [ni for ni, node in enumerate(bt.node_list) if any(type(bb).__name__ != "BasisDummy" for bb in node.basis_sets)]

            def node_sites(ni):
                return [order.index(bb) for bb in bt.node_list[ni].basis_sets if type(bb).__name__ != "BasisDummy"]
            try:
                s1s = st.calc_1site_entropy()
                ok = all(abs(s1s[ni] - entropy(np.linalg.eigvalsh(rdm_ref(v, dims, node_sites(ni))))) <= 1e-8 for ni in phys)
                led.check(ok, "post:TTNS.calc_1site_entropy:dense_value", "TTNS.calc_1site_entropy", "site entropy differs from the entropy of the dense partial trace", key + ("s1site", cplx),
                          {"complex_state": bool(cplx)}, rep)
            except Exception as e:
                led.check(False, "post:TTNS.calc_1site_entropy:total", "TTNS.calc_1site_entropy", f"raised {type(e).__name__}: {e}", key + ("s1site", cplx), {}, rep)
            npairs = [(i_, j_) for i_ in phys for j_ in phys if i_ != j_][:6]
            if npairs:
                try:
                    r2s = st.calc_2site_rdm(npairs)
                    s2s = st.calc_2site_entropy(npairs)
                    for (i_, j_) in npairs:
                        sites = node_sites(i_) + node_sites(j_)
                        ref = rdm_ref(v, dims, sites)
                        got = np.asarray(r2s[(i_, j_)])
                        okr = got.size == ref.size and close(got.reshape(ref.shape), ref, 1e-9)
                        led.check(okr, "post:TTNS.calc_2site_rdm:partial_trace", "TTNS.calc_2site_rdm", f"nodes {(i_, j_)}: differs from the partial trace over their degrees of freedom (ket indices of "
                                  f"the first node, then of the second, then the bra indices)", key + ("rdm2site", i_, j_, cplx), {"complex_state": bool(cplx), "reversed_pair": bool(i_ > j_)}, dict(rep, nodes=[i_, j_]))
                        se = entropy(np.linalg.eigvalsh((ref + ref.conj().T) / 2))
                        led.check(abs(s2s[(i_, j_)] - se) <= 1e-8, "post:TTNS.calc_2site_entropy:dense_value", "TTNS.calc_2site_entropy", f"nodes {(i_, j_)}: {s2s[(i_, j_)]} vs {se}",
                                  key + ("s2site", i_, j_, cplx), {"complex_state": bool(cplx)}, dict(rep, nodes=[i_, j_]))
                except Exception as e:
                    led.check(False, "post:TTNS.calc_2site_rdm:total", "TTNS.calc_2site_rdm", f"raised {type(e).__name__}: {e}", key + ("rdm2site", cplx), {}, rep)
            if len(order) >= 2:
                dpairs = [(dofs[i_], dofs[j_]) for i_ in range(len(dofs)) for j_ in range(len(dofs)) if i_ != j_][:6]
                try:
                    s2d = st.calc_2dof_entropy(dpairs)
                    mi, (e1, e2) = st.calc_2dof_mutual_info(dpairs)
                    for (d1, d2) in dpairs:
                        i_, j_ = dofs.index(d1), dofs.index(d2)
                        ref = rdm_ref(v, dims, [i_, j_])
                        s12 = entropy(np.linalg.eigvalsh((ref + ref.conj().T) / 2))
                        sa, sb = entropy(np.linalg.eigvalsh(rdm_ref(v, dims, [i_]))), entropy(np.linalg.eigvalsh(rdm_ref(v, dims, [j_])))
                        led.check(abs(s2d[(d1, d2)] - s12) <= 1e-8, "post:TTNS.calc_2dof_entropy:dense_value", "TTNS.calc_2dof_entropy", f"dofs {(d1, d2)}: {s2d[(d1, d2)]} vs {s12}",
                                  key + ("s2dof", i_, j_, cplx), {"complex_state": bool(cplx), "same_node": bt.dof2idx[d1] == bt.dof2idx[d2]}, dict(rep, dofs=[repr(d1), repr(d2)]))
                        led.check(abs(mi[(d1, d2)] - (sa + sb - s12) / 2) <= 1e-8 and abs(e2[(d1, d2)] - s12) <= 1e-8 and abs(e1[d1] - sa) <= 1e-8 and abs(e1[d2] - sb) <= 1e-8,
                                  "post:TTNS.calc_2dof_mutual_info:dense_value", "TTNS.calc_2dof_mutual_info", f"dofs {(d1, d2)}: mutual information {mi[(d1, d2)]} vs (s_i + s_j - s_ij)/2 = {(sa + sb - s12) / 2}",
                                  key + ("mi", i_, j_, cplx), {"complex_state": bool(cplx)}, dict(rep, dofs=[repr(d1), repr(d2)]))
                except Exception as e:
                    led.check(False, "post:TTNS.calc_2dof_mutual_info:total", "TTNS.calc_2dof_mutual_info", f"raised {type(e).__name__}: {e}", key + ("mi", cplx), {}, rep)
            # bond entropies: the bond above node m cuts the tree into the subtree of m and the rest
            try:
                sb_ = np.asarray(st.calc_bond_entropy())
                for ni, node in enumerate(st.node_list):
                    if node.parent is None:
                        continue
                    sub = []
                    stack = [node]
                    while stack:
                        x_ = stack.pop()
                        sub += node_sites(st.node_idx[x_])
                        stack += list(x_.children)
                    if not sub or len(sub) == len(order):
                        want = 0.0
                    else:
                        rr = rdm_ref(v, dims, sorted(sub))
                        want = entropy(np.linalg.eigvalsh((rr + rr.conj().T) / 2))
                    led.check(abs(sb_[ni] - want) <= 1e-7, "post:TTNS.calc_bond_entropy:entropy_of_the_subtree", "TTNS.calc_bond_entropy", f"bond above node {ni}: {sb_[ni]} vs entropy of its subtree {want}",
                              key + ("sbond", ni, cplx), {"complex_state": bool(cplx)}, dict(rep, node=ni))
            except Exception as e:
                led.check(False, "post:TTNS.calc_bond_entropy:total", "TTNS.calc_bond_entropy", f"raised {type(e).__name__}: {e}", key + ("sbond", cplx), {}, rep)
            # call-history independence: measure, change the SAME object in place (rescale, move the norm into the prefactor), measure again - the second
            # measurement is that of the state the object now holds
            try:
                st2 = st.copy()
                st2.calc_1dof_rdm()
                if len(order) >= 2:
                    st2.calc_2dof_rdm((dofs[0], dofs[-1]))
                for how_, act in (("scale(-0.5, inplace=True)", lambda x_: x_.scale(-0.5, inplace=True)), ("normalize('ttns_norm_to_coeff')", lambda x_: x_.normalize("ttns_norm_to_coeff")),
                                  ("scale(2j, inplace=True)", lambda x_: x_.scale(2j, inplace=True))):
                    act(st2)
                    # (the tree observables - todense, expectation, RDMs - are those of the tensors; the separate prefactor `coeff` only keeps the norm that
                    # normalize(...) took out, see the todense clause above)
                    v2 = T.dense_ttns(st2, order, with_coeff=False)
                    r_again = st2.calc_1dof_rdm()
                    ok = all(close(np.asarray(r_again[bb.dofs[0]]), rdm_ref(v2, dims, [bi]), 1e-9) for bi, bb in enumerate(order))
                    if len(order) >= 2:
                        ref2 = rdm_ref(v2, dims, [0, len(order) - 1])
                        got2 = np.asarray(st2.calc_2dof_rdm((dofs[0], dofs[-1]))[(dofs[0], dofs[-1])])
                        ok = ok and got2.size == ref2.size and close(got2.reshape(ref2.shape), ref2, 1e-9)
                    led.check(ok, "post:TTNS.calc_1dof_rdm:second_measurement_after_an_in_place_change", "TTNS.calc_1dof_rdm",
                              f"after {how_} on the measured object its RDMs are not those of the state it now holds (trace of the first: {np.trace(np.asarray(r_again[order[0].dofs[0]])):.6f}, "
                              f"dense norm^2 {np.vdot(v2, v2).real:.6f})", key + ("rdm-history", how_, cplx), {"complex_state": bool(cplx), "change": how_}, dict(rep, history=f"measure; {how_}; measure"))
            except Exception as e:
                led.check(False, "post:TTNS.calc_1dof_rdm:total", "TTNS.calc_1dof_rdm", f"measure / change in place / measure raised {type(e).__name__}: {e}", key + ("rdm-history", cplx), {}, rep)
            led.check(close(T.dense_ttns(st, order), v, 1e-10), "frame:TTNS.calc_*:state_unchanged", "TTNS.calc_bond_entropy", "the observables changed the state they were computed from", key + ("obs-frame", cplx), {}, rep)
    # ---- chain -> tree conversion preserves the state
    if flavour in ("spinqn", "holstein"):
        from renormalizer.tn.tree import from_mps
        from renormalizer.model import Model
        cm = Model(list(order), terms)
        q = sectors[len(sectors) // 2]
        mps = U.make_state(cm, q, 3, rng)
        if mps is not None:
            for gauge in ("fresh", "right", "center", "left"):
                m2 = S.apply_gauge(mps, gauge, 0)
                v = S.dense(m2)
                basis2, ttns2, ttno2 = from_mps(m2)
                got = T.dense_ttns(ttns2, list(order))
                led.check(close(got, v, 1e-9) and not T.qnv_tree_violations(ttns2), "post:from_mps:state_preserved", "from_mps", f"gauge {gauge}: chain -> tree conversion changed the state",
                          (repr(su["shape"]), flavour, seed, "from_mps", gauge), {}, dict(desc, gauge=gauge))
                led.check(close(S.dense(m2), v), "frame:from_mps:input", "from_mps", "input chain state changed", (repr(su["shape"]), flavour, seed, "from_mps-frame", gauge), {}, dict(desc, gauge=gauge))
                # the tree state is a new object: changing it in place (rescale, normalise) leaves the chain it was built from alone, whatever gauge the chain was in
                try:
                    ttns2.scale(3.0, inplace=True)
                    led.check(close(S.dense(m2), v), "frame:from_mps:mutating_the_tree_leaves_the_chain", "from_mps", f"gauge {gauge}: rescaling the tree state in place changed the chain state it came from",
                              (repr(su["shape"]), flavour, seed, "from_mps-mut", gauge), {}, dict(desc, gauge=gauge))
                except Exception as e:
                    led.check(False, "frame:from_mps:mutating_the_tree_leaves_the_chain", "from_mps", f"raised {type(e).__name__}: {e}", (repr(su["shape"]), flavour, seed, "from_mps-mut", gauge), {}, dict(desc, gauge=gauge))
                led.check(close(T.dense_ttno(ttno2, list(order)), U.dense_terms(cm, terms).real, 1e-9), "post:from_mps:operator", "from_mps", "TTNO of the chain Hamiltonian differs",
                          (repr(su["shape"]), flavour, seed, "from_mps-op", gauge), {}, dict(desc, gauge=gauge))


def w_find_path(case, led):
    from renormalizer.tn.treebase import Tree
    n_nodes, idx = case
    shape = T.tree_shapes(n_nodes)[idx]
    bt = T.build_basis_tree(shape, [[T.make_basis("spin", f"s{i}")] for i in range(n_nodes)])
    nodes = bt.node_list
    for i, x in enumerate(nodes):
        for j, y in enumerate(nodes):
            if i == j:
                continue
            p = Tree.find_path(x, y)
            ok = p[0] is x and p[-1] is y and len(set(map(id, p))) == len(p) and all((u.parent is w) or (w.parent is u) for u, w in zip(p, p[1:]))
            led.check(ok, "post:Tree.find_path:simple_path_between_the_nodes", "Tree.find_path", f"shape {shape}: path {i}->{j} = {[bt.node_idx[z] for z in p]}",
                      (repr(shape), i, j), {}, {"shape": repr(shape), "from": i, "to": j})


def w_single_node(case, led):
    """the smallest topology: a tree that is a single node carrying one or several basis sets (no bond at all) still behaves as its dense vector"""
    nsets, flavour, seed = case
    from renormalizer.tn import TTNS, TTNO, BasisTree
    from renormalizer.tn.treebase import TreeNodeBasis
    from renormalizer.model import Op
    rng = np.random.default_rng([seed, nsets, 1111, sum(map(ord, flavour))])
    created = [T.make_basis("spinqn" if flavour == "spinqn" else "spin", f"s{i}") for i in range(nsets)]
    bt = BasisTree(TreeNodeBasis(created))
    dims = [b.nbas for b in created]
    key = ("single-node", nsets, flavour, seed)
    rep = {"tree": "one node", "basis_sets": [repr(b) for b in created], "seed": seed}
    qs = [0] if flavour == "spin" else list(range(0, nsets + 1))
    for q in qs:
        try:
            a = TTNS.random(bt, q, 1, 1.0)
            c = TTNS.random(bt, q, 1, 1.0)
        except Exception as e:
            led.ok("skipped:TTNS.random:raised", "TTNS.random", key + (q, type(e).__name__), nontrivial=False)
            continue
        for cplx in (False, True):
            if cplx:
                a, c = a.to_complex(), c.to_complex()
                for x in (a, c):
                    t = np.asarray(x.root.tensor)
                    x.root.tensor = t * np.exp(2j * np.pi * rng.random(t.shape))
            va, vc = T.dense_ttns(a, created), T.dense_ttns(c, created)
            if np.abs(va).max() == 0 or np.abs(vc).max() == 0:
                continue
            k2 = key + (q, cplx)
            led.check(va.shape == (int(np.prod(dims)),) and close(np.asarray(a.todense(created)).reshape(-1), va, 1e-12), "post:TTNS.todense:dense_vector", "TTNS.todense",
                      "todense differs from the independent contraction", k2 + ("dense",), {"nodes": 1}, rep)
            try:
                s_ = a.add(c)
                led.check(close(T.dense_ttns(s_, created), va + vc, 1e-12), "post:TTNS.add:dense_sum", "TTNS.add",
                          f"single-node tree: |a.add(c) - (a + c)| = {np.abs(T.dense_ttns(s_, created) - (va + vc)).max():.3e} "
                          f"(|result - c| = {np.abs(T.dense_ttns(s_, created) - vc).max():.1e})", k2 + ("add",), {"nodes": 1}, rep)
                led.check(close(T.dense_ttns(a, created), va, 1e-14) and close(T.dense_ttns(c, created), vc, 1e-14), "frame:TTNS.add:operands", "TTNS.add", "add changed an operand",
                          k2 + ("add-frame",), {"nodes": 1}, rep)
            except Exception as e:
                led.check(False, "post:TTNS.add:total", "TTNS.add", f"single-node tree: raised {type(e).__name__}: {e}", k2 + ("add",), {"nodes": 1}, rep)
            try:
                r_ = a.scale(0.5 - 0.25j if cplx else -1.5)
                led.check(close(T.dense_ttns(r_, created), (0.5 - 0.25j if cplx else -1.5) * va, 1e-12) and close(T.dense_ttns(a, created), va, 1e-14), "post:TTNS.scale:dense_scale", "TTNS.scale",
                          "single-node tree: scale wrong or operand changed", k2 + ("scale",), {"nodes": 1}, rep)
            except Exception as e:
                led.check(False, "post:TTNS.scale:total", "TTNS.scale", f"single-node tree: raised {type(e).__name__}: {e}", k2 + ("scale",), {"nodes": 1}, rep)
            try:
                terms = [Op("sigma_z", created[0].dofs[0], 0.7)] + ([Op("sigma_z sigma_z", [created[0].dofs[0], created[1].dofs[0]], -0.4)] if nsets > 1 else [])
                Ho = TTNO(bt, terms)
                Hd = T.dense_ttno(Ho, created)
                ev = a.expectation(Ho)
                led.check(abs(ev - np.vdot(va, Hd @ va)) <= 1e-10 * max(1.0, abs(ev)), "post:TTNS.expectation:dense_value", "TTNS.expectation", f"{ev} vs {np.vdot(va, Hd @ va)}",
                          k2 + ("exp",), {"nodes": 1}, rep)
                led.check(close(T.dense_ttns(Ho.apply(a), created), Hd @ va, 1e-12), "post:TTNO.apply:dense_product", "TTNO.apply", "single-node tree: H|a> wrong", k2 + ("apply",), {"nodes": 1}, rep)
            except Exception as e:
                led.check(False, "post:TTNS.expectation:total", "TTNS.expectation", f"single-node tree: raised {type(e).__name__}: {e}", k2 + ("exp",), {"nodes": 1}, rep)


def check(run):
    from props import C11_sym
    guarded(run, C11_sym.prove)
    seeds = list(range(run.seed * 100, run.seed * 100 + (3 if run.tier == "quick" else 12)))
    cases = [(nn, fl, s, run.tier) for s in seeds for nn in ((2, 3, 4, 5) if run.tier == "quick" else (2, 3, 4, 5, 6)) for fl in ("spinqn", "holstein", "spin")]
    run_cases(run, worker, cases)
    run_cases(run, w_single_node, [(ns, fl, run.seed) for ns in (1, 2, 3) for fl in ("spinqn", "spin")])
    run_cases(run, w_find_path, [(n, i) for n in (2, 3, 4, 5) for i in range(len(T.tree_shapes(n)))])
    run.rule = ("rooted ordered trees with 2..5(6) nodes sampled from the complete shape enumeration (each child order is a separate shape) x payloads {1-2 basis sets, dummy} x "
                "flavours {spin+qn, electron-phonon, spin} x 2 sectors x real/complex states: constructor, todense(order), add/scale/copy/to_complex, TTNO.apply, canonicalise, "
                "lossless compress, norm, expectation (TTNO and Op), 1-site/1-dof/2-dof RDMs, entropies, chain->tree conversion; find_path exhaustive on all shapes <= 5 nodes")
    run.sample({"shape": "((), ((),))", "payload": [["e0"], [], ["v1", "e2"], ["v3"]], "contract": "dense(H.apply(a)) == dense(H) @ dense(a) with the independent recursive contraction"})
    run.explanation = "Engine S decides todense/add/scale/apply/expectation/1-dof RDM identities exactly for every rooted ordered tree shape up to the bound; the rest is bounded; the independent oracle is a recursive tensordot contraction that does not use opt_einsum index naming"
    run.trusted += ["independent tree contraction (vk/specs/tree.py)", "print_tree shim"]
