"""Engine S part of C14: load(dump(x)) is the identity for ALL tensor values and prefactors (file-layer stub).

The real `MatrixProduct.dump` / `Mps.dump` / `MatrixProduct.load` / `Mps.load` / `TTNBase.dump` / `TTNS.dump` / `TTNBase.load` / `TTNS.load` run on states whose
tensor entries and prefactor are independent indeterminates.  Only the file layer is replaced: `numpy.savez(fname, **d)` stores `numpy.asanyarray(v)` of every
value in memory (what savez does before writing: scalars become 0-d arrays, lists become arrays) and `numpy.load(fname)` hands those arrays back (what NpzFile
item access returns).  That savez/load reproduce arrays bit for bit is the assumed contract of NumPy; it is monitored by the bounded part (real files, bitwise
comparison).  What is decided here for every value: which keys are written and read back into which attribute, the version branches, the conversion of the
prefactor, the label lists, centre and direction.
"""
import contextlib

import numpy as np

from vk.specs import chain as S
from vk.specs import universe as U
from vk.specs import tree as T
from vk.specs import treeuniv as TU
from vk.symx import shims as SH
from vk.symx.harness import decide, decide_true, native_cond
from vk.symx.poly import Poly, VarFactory

FILE_STUB = ("numpy.savez(fname, **d) -> in-memory {key: numpy.asanyarray(value).copy()}; numpy.load(fname, ...) -> that mapping "
             "(assumed contract of NumPy's npz layer: arrays come back unchanged; monitored bitwise on real files by the bounded part)")


@contextlib.contextmanager
def file_stub():
    store = {}
    orig_savez, orig_load = np.savez, np.load

    def savez(fname, *args, **kw):
        assert not args
        store[str(fname)] = {k: np.array(np.asanyarray(v), copy=True) for k, v in kw.items()}

    class Npz(dict):
        files = property(lambda self: list(self.keys()))

        def close(self):
            pass

    def load(fname, *a, **kw):
        if str(fname) not in store:
            raise FileNotFoundError(fname)
        return Npz(store[str(fname)])
    np.savez, np.load = savez, load
    try:
        yield store
    finally:
        np.savez, np.load = orig_savez, orig_load


def _same_scalar_kind(a, b):
    """both plain scalars (python / numpy scalar / Poly), or both arrays"""
    return isinstance(a, np.ndarray) == isinstance(b, np.ndarray)


def _real_roundtrip(obj, loader):
    import os
    import tempfile
    d = tempfile.mkdtemp(prefix="c14_sym_")
    try:
        f = os.path.join(d, "x.npz")
        obj.dump(f)
        return loader(f)
    finally:
        import shutil
        shutil.rmtree(d, ignore_errors=True)


def prove(run):
    from renormalizer.mps import Mps, MpDm, Mpo
    shapes = [("spinqn", 3), ("spin2qn", 3), ("holstein", 3)] if run.tier == "quick" else [("spin", 2), ("spinqn", 3), ("spinqn", 4), ("spin2qn", 3), ("spin2qn", 4), ("holstein", 3), ("holstein", 4), ("multi", 3)]
    ncase = 0
    for name, n in shapes:
        rng = np.random.default_rng([run.seed, n, 1414, sum(map(ord, name))])
        model, sectors = S.model_zoo(name, n)
        sel = list(sectors)
        rng.shuffle(sel)
        for q in sel[:2]:
            m0 = U.make_state(model, q, 3, rng)
            if m0 is None:
                continue
            objs = [("Mps", m0), ("MpDm", MpDm.from_mps(m0))]
            terms = U.random_terms(model, rng, 3, complex_factors=False)
            if terms:
                objs.append(("Mpo", Mpo(model, terms)))
            for kind, base in objs:
                for gauge in ("fresh", "center", "right"):
                    x0 = S.apply_gauge(base, gauge, int(rng.integers(n)))
                    vf = VarFactory()
                    x = SH.symbolic_state(x0, vf)
                    has_coeff = hasattr(x0, "coeff")
                    if has_coeff:
                        x.coeff = vf.array((1,))[0]          # an indeterminate complex prefactor
                    case = {"model": name, "nsites": n, "sector": q, "class": kind, "gauge": gauge, "bond_dims": [int(b) for b in x0.bond_dims]}
                    tag = f"{kind}:{name}{n}:{q}:{gauge}"
                    fn = "Mps.load" if has_coeff else "MatrixProduct.load"
                    ncase += 1

                    def nat(x0=x0, has_coeff=has_coeff):
                        y = x0.copy()
                        if has_coeff:
                            y.coeff = 0.3 - 0.4j
                        l_ = _real_roundtrip(y, lambda f: type(y).load(model, f))
                        bad = [i for i in range(len(y)) if not np.array_equal(np.asarray(l_[i].array), np.asarray(y[i].array))]
                        okc = (not has_coeff) or (complex(l_.coeff) == complex(y.coeff) and not isinstance(l_.coeff, np.ndarray))
                        ok = not bad and okc and int(l_.qnidx) == int(y.qnidx) and bool(l_.to_right) == bool(y.to_right)
                        return ok, {"tensors_differ_at": bad, "coeff_after_load": repr(getattr(l_, "coeff", None))}
                    nrep = native_cond(nat, "real files: y.dump(f); type(y).load(model, f) on the float state of this case with coeff 0.3-0.4j")
                    try:
                        with SH.symbolic_mode(), file_stub() as store:
                            x.dump("mem://x")
                            written = sorted(store.get("mem://x", {}))
                            l = type(x0).load(model, "mem://x")
                    except Exception as e:
                        decide_true(run, f"post:{fn}:round_trip_total@{tag}", fn, False, f"dump/load raised on indeterminate tensors: {type(e).__name__}: {e}", case, numeric_replay=nrep)
                        continue
                    decide_true(run, f"post:{fn}:site_count@{tag}", fn, len(l) == len(x), f"{len(l)} sites after load, {len(x)} before", case, numeric_replay=nrep)
                    for i in range(min(len(l), len(x))):
                        decide(run, f"post:{fn}:tensor[{i}]_identical@{tag}", fn, np.asarray(l[i].array, dtype=object), np.asarray(x[i].array, dtype=object), case,
                               fields={"site": i}, numeric_replay=nrep)
                    if has_coeff:
                        decide(run, f"post:{fn}:prefactor_identical@{tag}", fn, np.array([Poly.coerce(np.asarray(getattr(l, "coeff", 0)).reshape(-1)[0])], dtype=object),
                               np.array([Poly.coerce(x.coeff)], dtype=object), case, numeric_replay=nrep)
                        decide_true(run, f"post:{fn}:prefactor_is_a_scalar@{tag}", fn, _same_scalar_kind(getattr(l, "coeff", None), x.coeff),
                                    f"prefactor after load is a {type(getattr(l, 'coeff', None)).__name__} (a mutable array shared by metacopy/copy), was a scalar", case, numeric_replay=nrep)
                    okq = len(l.qn) == len(x.qn) and all(np.array_equal(np.asarray(a), np.asarray(b)) for a, b in zip(l.qn, x.qn))
                    decide_true(run, f"post:{fn}:bond_labels@{tag}", fn, okq, "bond quantum numbers differ after the round trip", case, numeric_replay=nrep)
                    decide_true(run, f"post:{fn}:centre_direction_sector@{tag}", fn,
                                l.qnidx is not None and int(l.qnidx) == int(x.qnidx) and l.to_right is not None and bool(l.to_right) == bool(x.to_right)
                                and np.array_equal(np.asarray(l.qntot).reshape(-1), np.asarray(x.qntot).reshape(-1)),
                                f"qnidx {l.qnidx}/{x.qnidx}, to_right {l.to_right}/{x.to_right}, qntot {l.qntot}/{x.qntot}", case, numeric_replay=nrep)
                    need = {"version", "nsites", "qnidx", "qntot", "to_right"} | {f"mt_{i}" for i in range(len(x))} | ({"coeff"} if has_coeff else set())
                    decide_true(run, f"post:MatrixProduct.dump:keys_written@{tag}", "MatrixProduct.dump", need <= set(written), f"keys missing from the dump: {sorted(need - set(written))}", case)
    # ---- trees
    from renormalizer.tn import TTNS
    tcases = [(3, "spinqn"), (4, "holstein")] if run.tier == "quick" else [(2, "spinqn"), (3, "spinqn"), (4, "spinqn"), (3, "holstein"), (4, "holstein"), (5, "holstein")]
    for nn, fl in tcases:
        su = TU.setup(run.seed, nn, fl, max_dim=200)
        if su is None:
            continue
        bt, order, rng = su["bt"], su["order"], su["rng"]
        for q in list(su["sectors"])[:2]:
            t0 = TU.random_ttns(bt, q, 3, rng)
            if t0 is None:
                continue
            vf = VarFactory()
            x = SH.symbolic_ttns(t0, vf)
            x.coeff = vf.array((1,))[0]
            x.time = 0.25
            for extra in (None, [], ["time"]):
                case = dict(TU.describe_tree(bt), flavour=fl, sector=q, other_attrs=extra)
                tag = f"TTNS:{fl}{nn}:{q}:{extra}"
                fn = "TTNBase.load"
                ncase += 1

                def nat(t0=t0, extra=extra):
                    y = t0.copy()
                    y.coeff, y.time = 0.3 - 0.4j, 0.25
                    import os
                    import tempfile
                    import shutil
                    d = tempfile.mkdtemp(prefix="c14_sym_")
                    try:
                        f = os.path.join(d, "t.npz")
                        if extra is None:
                            y.dump(f)
                            l_ = TTNS.load(bt, f)
                        else:
                            y.dump(f, other_attrs=list(extra))
                            l_ = TTNS.load(bt, f, other_attrs=list(extra))
                    finally:
                        shutil.rmtree(d, ignore_errors=True)
                    bad = [i for i, (a, b) in enumerate(zip(l_.node_list, y.node_list)) if not np.array_equal(np.asarray(a.tensor), np.asarray(b.tensor))]
                    okc = complex(np.asarray(l_.coeff).reshape(-1)[0]) == complex(y.coeff) and not isinstance(l_.coeff, np.ndarray)
                    return (not bad) and okc, {"tensors_differ_at": bad, "coeff_after_load": repr(l_.coeff)}
                nrep = native_cond(nat, "real files: y.dump(f[, other_attrs]); TTNS.load(basis, f[, other_attrs]) on the float tree state with coeff 0.3-0.4j")
                try:
                    with SH.symbolic_mode_tree(), file_stub():
                        if extra is None:
                            x.dump("mem://t")
                            l = TTNS.load(bt, "mem://t")
                        else:
                            x.dump("mem://t", other_attrs=list(extra))
                            l = TTNS.load(bt, "mem://t", other_attrs=list(extra))
                except Exception as e:
                    decide_true(run, f"post:{fn}:round_trip_total@{tag}", fn, False, f"dump/load raised on indeterminate tensors: {type(e).__name__}: {e}", case, numeric_replay=nrep)
                    continue
                decide_true(run, f"post:{fn}:node_count@{tag}", fn, len(l.node_list) == len(x.node_list), "number of nodes differs", case, numeric_replay=nrep)
                for i, (a, b) in enumerate(zip(l.node_list, x.node_list)):
                    decide(run, f"post:{fn}:tensor[{i}]_identical@{tag}", fn, np.asarray(a.tensor, dtype=object), np.asarray(b.tensor, dtype=object), case, fields={"node": i}, numeric_replay=nrep)
                    decide_true(run, f"post:{fn}:node_labels[{i}]@{tag}", fn, np.array_equal(np.asarray(a.qn), np.asarray(b.qn)), "node quantum numbers differ", case, numeric_replay=nrep)
                decide(run, f"post:{fn}:prefactor_identical@{tag}", fn, np.array([Poly.coerce(np.asarray(l.coeff).reshape(-1)[0])], dtype=object),
                       np.array([Poly.coerce(x.coeff)], dtype=object), case, numeric_replay=nrep)
                decide_true(run, f"post:{fn}:prefactor_is_a_scalar@{tag}", fn, _same_scalar_kind(l.coeff, x.coeff),
                            f"prefactor after load is a {type(l.coeff).__name__} (a mutable array shared by metacopy/copy), was a scalar", case, numeric_replay=nrep)
                decide_true(run, f"post:{fn}:sector@{tag}", fn, np.array_equal(np.asarray(l.qntot).reshape(-1), np.asarray(x.qntot).reshape(-1)), f"qntot {l.qntot} / {x.qntot}", case,
                            numeric_replay=nrep)
                if extra:
                    decide_true(run, f"post:{fn}:other_attrs_restored@{tag}", fn, all(hasattr(l, a) and float(np.asarray(getattr(l, a))) == 0.25 for a in extra),
                                f"extra attributes {extra} not restored", case)
    run.extra.setdefault("symx", {})["C14"] = {"round_trips_decided": ncase, "file_layer_stub": FILE_STUB, "shims": SH.SHIMS + SH.TREE_SHIMS}
