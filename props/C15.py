"""C15 Symbolic operator algebra is a faithful homomorphism.

Engine B only: every public arithmetic operator of Op/OpSum, simplify, squeeze_identity, eq/hash, the
symbol string layer and Model.check_operator_terms are called on bounded-exhaustive inputs and compared
with an independent exact denotation (vk/specs/opalg.py: integer 2x2 letters, dyadic-exact factors).
"""
from vk.symx.harness import guarded
import itertools
from collections import OrderedDict
from fractions import Fraction

import numpy as np

from vk.rtc.harness import run_cases
from vk.specs import opalg as A

LEVEL = "other"
TECHNIQUE = ("contracts evaluated at run time on the real functions over bounded-exhaustive inputs: all expressions of depth <= 3 "
             "of the operator grammar compared with an exact (integer/dyadic) matrix denotation (bounded stand-in); Engine S: the real Op/OpSum "
             "arithmetic executed on indeterminate factors, denotation identities decided exactly (all factor values per expression shape)")

K = 8            # generous constant in K*eps*scale per floating-point rounding (one rounding is <= ~3 eps for a complex product)
SETUP = ("from renormalizer.model import Op, OpSum; import numpy as np; evaluate `expr`; compare vk.specs.opalg.Universe.den(result) "
         "(exact kron of 2x2 integer letters times the factor) with the same matrix expression of the operands")

DOFS = [0, "s", ("e", 1)]
_QN2 = {0: (1, 0), "s": (0, 1), ("e", 1): (1, -1)}
RAISE = ("sigma_+", r"a^\dagger")
LOWER = ("sigma_-", "a")


def _qn1(letter, dof):
    return (1,) if letter in RAISE else (-1,) if letter in LOWER else (0,)


def _qn2(letter, dof):
    b = _QN2[dof]
    return b if letter in RAISE else (-b[0], -b[1]) if letter in LOWER else (0, 0)


PAULI = ["I", "sigma_x", "isigma_y", "sigma_z", "sigma_+", "sigma_-"]
BOSON = ["I", A.PLUS, r"b^\dagger", "b", "x", r"a^\dagger", "a"]


def universe(name):
    if name == "pauli1":
        return A.Universe(name, DOFS, 1, _qn1, PAULI)
    if name == "pauli2":
        return A.Universe(name, DOFS, 2, _qn2, PAULI)
    if name == "boson":
        return A.Universe(name, DOFS, 1, _qn1, BOSON)
    raise KeyError(name)


UNIVERSES = ["pauli1", "pauli2", "boson"]


class V:
    """a value of the expression language with the Python source that produced it"""
    __slots__ = ("src", "val", "depth", "_den", "_scale", "_wf")

    def __init__(self, src, val, depth):
        self.src, self.val, self.depth, self._den, self._scale, self._wf = src, val, depth, None, None, None

    def wf(self, uni):
        """is the value itself well-formed? (a malformed operand is reported where it is produced, not again downstream)"""
        if self._wf is None:
            self._wf = wf_value(self.val, uni) is None
        return self._wf

    @property
    def is_op(self):
        return hasattr(self.val, "symbol")

    def den(self, uni):
        if self._den is None:
            self._den = uni.den(self.val)
            self._scale = uni.scale(self.val)
        return self._den

    def scale(self, uni):
        self.den(uni)
        return self._scale


def mk(uni, symbol, dof, factor, explicit_qn=True):
    """a leaf Op with the universe's quantum numbers, and its source text"""
    from renormalizer.model import Op
    toks = A.tokenize(symbol)
    dl = dof if isinstance(dof, list) else [dof] * len(toks)
    if explicit_qn:
        qs = [list(uni.qn_of(t, d)) for t, d in zip(toks, dl)]
        qn = qs if uni.qn_size > 1 else [q[0] for q in qs]
        if len(toks) == 1 and uni.qn_size == 1:
            qn = qn[0]
        return V(f"Op({symbol!r}, {dof!r}, {factor!r}, qn={qn!r})", Op(symbol, dof, factor, qn=qn), 1)
    return V(f"Op({symbol!r}, {dof!r}, {factor!r})", Op(symbol, dof, factor), 1)


def leaves(uni):
    from renormalizer.model import Op
    e = ("e", 1)
    if uni.name == "boson":   # default quantum numbers (qn=None): a^\dagger -> 1, a -> -1, others 0
        return [mk(uni, A.PLUS, 0, 0.5, False), mk(uni, r"a^\dagger a", [0, "s"], -2.0, False),
                mk(uni, "x " + A.PLUS + " b", ["s", e, "s"], 1.5, False), mk(uni, "I", e, 3.0, False),
                mk(uni, r"b^\dagger I " + A.PLUS, [0, "s", 0], 0.5 - 1j, False)]
    out = [mk(uni, "sigma_x", 0, 0.5, uni.qn_size > 1), mk(uni, "sigma_+ sigma_z", [0, "s"], -2.0),
           mk(uni, "sigma_z sigma_- isigma_y", ["s", e, "s"], 1.5)]
    if uni.qn_size > 1:
        out.append(V(f"Op.identity({e!r}, qn_size={uni.qn_size}, factor=3.0)", Op.identity(e, qn_size=uni.qn_size, factor=3.0), 1))
    else:
        out.append(mk(uni, "I", e, 3.0))
    out.append(mk(uni, "sigma_- I sigma_x", [0, "s", 0], 0.5 - 1j))
    return out


def scalars(tier):
    s = [("2", 2), ("0.5", 0.5), ("1j", 1j), ("np.float64(3)", np.float64(3)), ("np.int64(2)", np.int64(2))]
    if tier != "quick":
        s += [("(-1.5+0.5j)", -1.5 + 0.5j), ("np.complex128(2j)", np.complex128(2j)), ("-1", -1), ("0.1", 0.1), ("0", 0)]
    return s


ATOLS = [None, 0, 1e-12, 1e-3]


# ------------------------------------------------------------------------------------------ term invariants
def wellformed(t, uni):
    """None, or what is wrong with a result term (fields of an Op must describe a word over the universe with its quantum numbers)"""
    from renormalizer.model import Op
    if not isinstance(t, Op):
        return f"term is a {type(t).__name__}, not an Op"
    toks = A.tokenize(t.symbol)
    if [A.norm_letter(x) for x in toks] != list(t.split_symbol):
        return f"split_symbol {t.split_symbol} is not the list of simple symbols of {t.symbol!r}"
    if not (len(toks) == len(t.dofs) == len(t.qn_list)):
        return f"{len(toks)} symbols, {len(t.dofs)} DoFs, {len(t.qn_list)} quantum numbers"
    for x, d, q in zip(toks, t.dofs, t.qn_list):
        if d not in uni.dofs or x not in A.LETTER_MATS:
            return f"letter {x!r} on DoF {d!r} is outside the universe"
        q = np.asarray(q)
        if q.ndim != 1 or tuple(int(v) for v in q) != tuple(uni.qn_of(x, d)):
            return f"letter {x!r} on DoF {d!r} carries quantum number {q.tolist()}, expected {uni.qn_of(x, d)}"
    tot = tuple(int(sum(uni.qn_of(x, d)[k] for x, d in zip(toks, t.dofs))) for k in range(uni.qn_size))
    if tuple(int(v) for v in np.asarray(t.qn).reshape(-1)) != tot or t.qn_size != uni.qn_size:
        return f"total quantum number {t.qn} (size {t.qn_size}), expected {tot}"
    f = t.factor
    if not isinstance(f, (float, complex, np.floating, np.complexfloating)) or not np.isfinite(f):
        return f"factor {f!r} of type {type(f).__name__} is not a finite float/complex"
    return None


def wf_value(x, uni):
    for t in ([x] if hasattr(x, "symbol") else x):
        w = wellformed(t, uni)
        if w:
            return w
    return None


def mixed_identity(x):
    """does some term contain an identity letter next to other letters?"""
    for t in ([x] if hasattr(x, "symbol") else x):
        toks = A.tokenize(t.symbol)
        if "I" in toks and set(toks) != {"I"}:
            return True
    return False


def kind(x):
    from renormalizer.model import Op, OpSum
    return "Op" if isinstance(x, Op) else "OpSum" if isinstance(x, OpSum) else type(x).__name__


# ------------------------------------------------------------------------------------------ operations
def _iadd(a, b):
    from renormalizer.model import OpSum
    x = OpSum(list(a))
    x0 = x
    x += b
    if x is not x0:
        raise _NotSameObject()
    return x


class _NotSameObject(Exception):
    pass


def _opprod(a, b):
    from renormalizer.model import Op
    return Op.product([a, b])


def _osprod(a, b):
    from renormalizer.model import OpSum
    return OpSum.product([a, b])


def _sum0(a, b):
    from renormalizer.model import OpSum
    return sum([a, b], OpSum())


# code, real function for (left kind), callable, source format, what (add/sub/mul), roundings, applicability(a_is_op, b_is_op),
# TypeError acceptable?
BINOPS = [
    ("add", {"Op": "Op.__add__", "OpSum": "OpSum.__add__"}, lambda a, b: a + b, "({}) + ({})", "add", 0, lambda ao, bo: True, False),
    ("sub", {"Op": "Op.__sub__", "OpSum": "OpSum.__sub__"}, lambda a, b: a - b, "({}) - ({})", "sub", 0, lambda ao, bo: True, False),
    ("mul", {"Op": "Op.__mul__", "OpSum": "OpSum.__mul__"}, lambda a, b: a * b, "({}) * ({})", "mul", 1, lambda ao, bo: True, False),
    ("iadd", {"OpSum": "OpSum.__iadd__"}, _iadd, "x = OpSum(list({})); x += ({}); x", "add", 0, lambda ao, bo: not ao, False),
    ("sum", {"Op": "Op.__radd__", "OpSum": "OpSum.__radd__"}, lambda a, b: sum([a, b]), "sum([{}, {}])", "add", 0, lambda ao, bo: True, True),
    ("sum0", {"Op": "OpSum.__add__", "OpSum": "OpSum.__add__"}, _sum0, "sum([{}, {}], OpSum())", "add", 0, lambda ao, bo: True, False),
    ("Op.product", {"Op": "Op.product"}, _opprod, "Op.product([{}, {}])", "mul", 1, lambda ao, bo: ao and bo, False),
    ("OpSum.product", {"Op": "OpSum.product", "OpSum": "OpSum.product"}, _osprod, "OpSum.product([{}, {}])", "mul", 1, lambda ao, bo: True, False),
    ("mul_list", {"Op": "Op.__mul__", "OpSum": "OpSum.__mul__"}, lambda a, b: a * list(b), "({}) * list({})", "mul", 1, lambda ao, bo: not bo, False),
    ("rmul_list", {"OpSum": "Op.__rmul__"}, lambda a, b: list(a) * b, "list({}) * ({})", "mul", 1, lambda ao, bo: (not ao) and bo, False),
    ("add_list", {"Op": "Op.__add__", "OpSum": "OpSum.__add__"}, lambda a, b: a + list(b), "({}) + list({})", "add", 0, lambda ao, bo: not bo, False),
]
CORE = ("add", "sub", "mul")


def expected_bin(what, dA, dB):
    return dA + dB if what == "add" else dA - dB if what == "sub" else dA @ dB


def unary_ops(is_op, tier):
    """(code, real function, callable, source format, expected(den) -> den, roundings, scale factor, TypeError acceptable)"""
    k = "Op" if is_op else "OpSum"
    ops = [("neg", f"{k}.__neg__", lambda a: -a, "-({})", lambda d: -d, 0, 1.0, False),
           ("add0", f"{k}.__add__", lambda a: a + 0, "({}) + 0", lambda d: d, 0, 1.0, not is_op),
           ("radd0", f"{k}.__radd__", lambda a: 0 + a, "0 + ({})", lambda d: d, 0, 1.0, not is_op),
           ("add0.0", f"{k}.__add__", lambda a: a + 0.0, "({}) + 0.0", lambda d: d, 0, 1.0, not is_op),
           ("add_array0", f"{k}.__add__", lambda a: a + np.array(0), "({}) + np.array(0)", lambda d: d, 0, 1.0, not is_op)]
    if not is_op:
        from renormalizer.model import OpSum
        ops.append(("copy", "OpSum.copy", lambda a: a.copy(), "({}).copy()", lambda d: d, 0, 1.0, False))
        # an empty summand on either side (an optional Hamiltonian part that is empty, a sum that cancelled): same value, and a NEW list
        ops += [("add_empty_sum", "OpSum.__add__", lambda a: a + OpSum(), "({}) + OpSum()", lambda d: d, 0, 1.0, False),
                ("add_empty_list", "OpSum.__add__", lambda a: a + [], "({}) + []", lambda d: d, 0, 1.0, False),
                ("sub_empty_sum", "OpSum.__sub__", lambda a: a - OpSum(), "({}) - OpSum()", lambda d: d, 0, 1.0, False),
                ("empty_sum_add", "OpSum.__add__", lambda a: OpSum() + a, "OpSum() + ({})", lambda d: d, 0, 1.0, False)]
    for src, c in scalars(tier):
        ac = abs(complex(c))
        ops.append((f"lmul[{src}]", f"{k}.__rmul__", (lambda a, c=c: c * a), src + " * ({})", (lambda d, c=c: d.smul(c)), 1, ac, False))
        ops.append((f"rmul[{src}]", f"{k}.__mul__", (lambda a, c=c: a * c), "({}) * " + src, (lambda d, c=c: d.smul(c)), 1, ac, False))
        if ac != 0:
            # expected value is stated without a quotient: den(result) * c == den(operand)
            ops.append((f"div[{src}]", f"{k}.__truediv__", (lambda a, c=c: a / c), "({}) / " + src, ("div", c), 2, 1.0 / ac, is_op))
    return ops


def build_pool(uni, tier="quick"):
    """all values of depth <= 2 of the core grammar (leaves; +, -, * of leaves; scalar multiples, negation, +0 of leaves),
    de-duplicated on their fields.  An operation that raises is skipped here (it is reported by the case that evaluates it)."""
    P1 = leaves(uni)
    pool, seen = [], set()

    def put(v):
        s = A.vsig(v.val)
        if s not in seen:
            seen.add(s)
            pool.append(v)

    for v in P1:
        put(v)
    for code, _, f, fmt, _, _, app, _ in BINOPS:
        if code not in CORE:
            continue
        for a in P1:
            for b in P1:
                try:
                    put(V(fmt.format(a.src, b.src), f(a.val, b.val), 2))
                except Exception:
                    pass
    for a in P1:
        for code, _, f, fmt, _, _, _, _ in unary_ops(True, "quick"):
            if code.startswith("div") or code in ("radd0", "add0.0", "add_array0"):
                continue
            try:
                put(V(fmt.format(a.src), f(a.val), 2))
            except Exception:
                pass
    return pool


CAP = 8


def capped(led, oid, fields):
    """True while fewer than CAP failures with this obligation and these fields were recorded by this worker: further identical
    failures add nothing to the verdict and are not recorded at all (neither as failures nor as evaluations)"""
    d = led.__dict__.setdefault("_c15_cap", {})
    k = (oid, tuple(sorted((str(a), str(b)) for a, b in fields.items())))
    d[k] = d.get(k, 0) + 1
    return d[k] <= CAP


# ------------------------------------------------------------------------------------------ simplify contract
def check_simplify(led, uni, v, atol, key, nontriv_hint=True, agg=None):
    """contract of OpSum.simplify(atol) on the value v (an OpSum); returns the result or None.
    With `agg` (a dict), passing evaluations of the auxiliary clauses are only tallied there (the caller records one
    ledger entry per clause and batch with flush_agg); the property-level clause and every failure are recorded individually."""
    from renormalizer.model import OpSum
    inp = v.val
    src = f"({v.src}).simplify()" if atol is None else f"({v.src}).simplify(atol={atol!r})"
    rep = {"universe": uni.name, "expr": src, "how": SETUP}
    before = A.vsig(inp)
    mixed = mixed_identity(inp)
    try:
        res = inp.simplify() if atol is None else inp.simplify(atol=atol)
    except Exception as e:
        fields = {"qn_size": uni.qn_size, "identity_mixed": bool(mixed), "error": type(e).__name__, "via": "OpSum.simplify"}
        if capped(led, "post:Op.squeeze_identity:total", fields):
            led.check(False, "post:Op.squeeze_identity:total", "Op.squeeze_identity",
                      f"{src} raised {type(e).__name__}: {e}", key + ("total",), fields, rep)
        return None
    fields = {"atol": atol, "qn_size": uni.qn_size}
    fn = "OpSum.simplify"
    at = 0.0 if atol is None else float(atol)
    groups = OrderedDict()
    for t in inp:
        f = complex(t.factor)
        g = groups.setdefault(A.squeeze_key(t), [Fraction(0), Fraction(0), 0.0, 0, uni.word(t.symbol, t.dofs)[1]])
        g[0] += Fraction(f.real)
        g[1] += Fraction(f.imag)
        g[2] += abs(f)
        g[3] += 1

    def slack(g):   # rounding of the (n-1) floating-point additions that merge n equal terms
        return K * A.EPS * max(0, g[3] - 1) * g[2]

    def gabs(g):
        return abs(complex(float(g[0]), float(g[1])))

    nontriv = nontriv_hint and (len(groups) < len(inp) or mixed or any(gabs(g) <= at for g in groups.values()))

    def c(cond, oid, fn_, what, key_, fields_, rep_, nt):
        if cond and agg is not None:
            a_ = agg.setdefault(oid, [fn_, 0, False])
            a_[1] += 1
            a_[2] = a_[2] or bool(nt)
        else:
            led.check(cond, oid, fn_, what, key_, fields_, rep_, nt)
        return cond

    ok_type = isinstance(res, OpSum)
    c(ok_type, f"post:{fn}:type", fn, f"result is a {type(res).__name__}", key + ("type",), fields, rep, nontriv)
    if not ok_type and not isinstance(res, list):
        return None
    w = wf_value(res, uni)
    c(w is None, f"post:{fn}:wellformed", fn, f"{src}: {w}", key + ("wf",), fields, rep, nontriv)
    if w is not None:
        return None
    rkeys = [A.squeeze_key(t) for t in res]
    c(len(set(rkeys)) == len(rkeys) and all(k in groups for k in rkeys), f"post:{fn}:merged", fn,
              f"{src}: result terms {rkeys} are not distinct terms of the input", key + ("merged",), fields, rep, nontriv)
    noI = all(("I" not in A.tokenize(t.symbol)) or A.tokenize(t.symbol) == ["I"] for t in res)
    c(noI, f"post:{fn}:identity_removed", fn, f"{src}: an identity letter is left in {list(res)}", key + ("noI",), fields, rep, nontriv)
    bad = None
    for t, k in zip(res, rkeys):
        g = groups.get(k)
        if g is None:
            continue
        f = complex(t.factor)
        d = abs(complex(float(Fraction(f.real) - g[0]), float(Fraction(f.imag) - g[1])))
        if d > slack(g):
            bad = f"term {k}: factor {f} but the merged input factor is {complex(float(g[0]), float(g[1]))} (|diff| {d:.3g} > {slack(g):.3g})"
    c(bad is None, f"post:{fn}:merged_factor", fn, f"{src}: {bad}", key + ("coef",), fields, rep, nontriv)
    # negligible terms: exactly those with |factor| <= atol are dropped
    kept_small = [k for t, k in zip(res, rkeys) if not abs(complex(t.factor)) > at]
    dropped = [k for k in groups if k not in set(rkeys)]
    dropped_big = [(k, gabs(groups[k])) for k in dropped if gabs(groups[k]) > at + slack(groups[k])]
    c(not kept_small, f"post:{fn}:negligible_dropped", fn, f"{src}: kept terms with |factor| <= atol: {kept_small}",
              key + ("small",), fields, rep, nontriv)
    c(not dropped_big, f"post:{fn}:only_negligible_dropped", fn,
              f"{src}: dropped terms with |factor| > atol={at}: {dropped_big}", key + ("big",), fields, rep, nontriv)
    # property-level clause: the denoted operator moves by at most the sum of the dropped terms, each <= atol
    bound = sum(min(gabs(groups[k]), at) * groups[k][4] for k in dropped) + sum(slack(g) * g[4] for g in groups.values())
    dist = uni.den(res).dist(v.den(uni))
    if key[1] == "simplify-list" and key[2] in ((1, 0, 4), (3, 9, 2)) and atol == 1e-3:
        led.samples.append({"universe": uni.name, "expr": src, "contract": "equal terms merged after removing identity letters; terms with |factor| <= atol "
                            "dropped; |den(result) - den(input)| <= sum of the dropped terms", "result": repr(res), "observed_distance": dist, "bound": bound})
    led.check(dist <= bound, f"post:{fn}:den_within_dropped", fn,
              f"{src}: |den(result) - den(input)| = {dist:.3g} > {bound:.3g} = sum of {len(dropped)} dropped terms (each <= atol={at}) + rounding",
              key + ("den",), fields, rep, nontriv)
    c(A.vsig(inp) == before, f"frame:{fn}:input", fn, f"{src} changed its input", key + ("frame",), fields, rep, nontriv)
    return res


def flush_agg(led, agg, key):
    for oid, (fn, n, nt) in agg.items():
        led.check(True, oid, fn, "", key + (oid,), {"batch_evaluations": n}, {}, nt)
    agg.clear()


# ------------------------------------------------------------------------------------------ workers
def w_expr(case, led):
    _, uname, i, seed, tier = case
    uni = universe(uname)
    pool = build_pool(uni)
    if i >= len(pool):
        raise RuntimeError(f"pool of {uname} has {len(pool)} values, case index {i}")
    a = pool[i]
    dA = a.den(uni)
    ka = kind(a.val)
    sagg = {}
    # ---------------- binary operators, a on the left, every pool value on the right
    for code, fns, f, fmt, what, nround, app, te_ok in BINOPS:
        if not (ka in fns):
            continue
        fn = fns[ka]
        agg = {"frame": None, "wf": None, "type": None}
        n_agg = 0
        for j, b in enumerate(pool):
            if not app(a.is_op, b.is_op):
                continue
            kb = kind(b.val)
            src = fmt.format(a.src, b.src)
            key = (uname, code, i, j)
            fields = {"op": code, "left": ka, "right": kb, "qn_size": uni.qn_size}
            rep = {"universe": uname, "expr": src, "how": SETUP}
            dB = b.den(uni)
            sa, sb = A.vsig(a.val), A.vsig(b.val)
            try:
                r = f(a.val, b.val)
            except _NotSameObject:
                led.check(False, f"post:{fn}:in_place", fn, f"`{src}`: += did not return the object it extends", key, fields, rep)
                continue
            except Exception as e:
                if te_ok and isinstance(e, TypeError) and not a.is_op:
                    # sum() of OpSums starts with int 0 + OpSum, which Python rejects: the expression is not accepted
                    led.check(True, f"post:{fn}:den_or_typeerror", fn, "", key, fields, rep, nontrivial=False)
                    continue
                led.check(False, f"post:{fn}:total", fn, f"`{src}` raised {type(e).__name__}: {e}", key,
                          dict(fields, error=type(e).__name__), rep)
                continue
            exp = expected_bin(what, dA, dB)
            tol = K * A.EPS * nround * (a.scale(uni) * b.scale(uni))
            dR = uni.den(r) if (hasattr(r, "symbol") or isinstance(r, list)) else None
            ok = dR is not None and dR.dist(exp) <= tol
            if what == "mul":
                nontriv = not (dA @ dB).same(dB @ dA)       # operand order matters
            else:
                nontriv = not exp.is_zero()
            led.check(ok, f"post:{fn}:den", fn,
                      f"den(`{src}`) differs from den(left) {'@' if what == 'mul' else '+' if what == 'add' else '-'} den(right)"
                      + (f" by {dR.dist(exp):.3g} (tolerance {tol:.3g})" if dR is not None else f": result is a {type(r).__name__}"),
                      key, fields, rep, nontriv)
            if dR is None:
                continue
            if i == 7 and j == 60 and code in ("mul", "sub") and uname != "pauli2":
                led.samples.append({"universe": uname, "expr": src, "contract": f"den(result) == den(left) {'@' if what == 'mul' else '-'} den(right) "
                                    "as exact 8x8 matrices", "observed_distance": dR.dist(exp), "tolerance": tol, "result": repr(r)})
            n_agg += 1
            want = "Op" if (what == "mul" and a.is_op and b.is_op and code in ("mul", "Op.product", "OpSum.product")) else "OpSum"
            if kind(r) != want and agg["type"] is None:
                agg["type"] = (f"`{src}` is a {type(r).__name__}, expected {want}", key, fields, rep)
            w = wf_value(r, uni)
            if w and agg["wf"] is None and a.wf(uni) and b.wf(uni):
                agg["wf"] = (f"`{src}`: {w}", key, fields, rep)
            if (A.vsig(a.val) != sa or A.vsig(b.val) != sb) and agg["frame"] is None:
                agg["frame"] = (f"`{src}` changed an operand", key, fields, rep)
            if code != "iadd" and isinstance(r, list) and (r is a.val or r is b.val) and agg.get("fresh") is None:
                agg["fresh"] = (f"`{src}` returns one of its operands instead of a new list (a later += on the result would change that operand)", key, fields, rep)
            if code == "iadd" and len(r) != len(a.val) + (1 if b.is_op else len(b.val)):
                led.check(False, f"post:{fn}:in_place", fn, f"`{src}`: wrong number of terms", key, fields, rep)
            # simplify of a depth-3 sum (all of them in thorough, a seeded sample in quick)
            if code in CORE and not hasattr(r, "symbol") and isinstance(r, list) and w is None:
                if tier != "quick" or (i * 131 + j * 17 + seed + len(code)) % 6 == 0:
                    vr = V(src, r, 3)
                    for at in ATOLS[1:]:
                        check_simplify(led, uni, vr, at, (uname, "simplify", code, i, j, at), agg=sagg)
        if n_agg:
            for cl, oid in (("type", f"post:{fn}:type"), ("wf", f"post:{fn}:wellformed"), ("frame", f"frame:{fn}:operands"), ("fresh", f"post:{fn}:result_is_a_new_object")):
                if cl == "fresh" and code == "iadd":
                    continue
                if agg.get(cl) is None:
                    led.check(True, oid, fn, "", (uname, code, i, cl), {}, {}, True)
                else:
                    what_, key_, fields_, rep_ = agg[cl]
                    led.check(False, oid, fn, what_, key_, fields_, rep_)
    # ---------------- unary operators on a
    for code, fn, f, fmt, expf, nround, sc, te_ok in unary_ops(a.is_op, tier):
        src = fmt.format(a.src)
        key = (uname, code, i)
        fields = {"op": code.split("[")[0], "operand": ka, "qn_size": uni.qn_size}
        rep = {"universe": uname, "expr": src, "how": SETUP}
        sa = A.vsig(a.val)
        try:
            r = f(a.val)
        except Exception as e:
            if te_ok and isinstance(e, TypeError):
                # the expression is not accepted (Op has no division; OpSum + 0 is documented to raise): nothing is denoted
                led.check(True, f"post:{fn}:den_or_typeerror", fn, "", key, fields, rep, nontrivial=False)
                continue
            led.check(False, f"post:{fn}:total", fn, f"`{src}` raised {type(e).__name__}: {e}", key, dict(fields, error=type(e).__name__), rep)
            continue
        if not (hasattr(r, "symbol") or isinstance(r, list)):
            led.check(False, f"post:{fn}:den", fn, f"`{src}` is a {type(r).__name__}", key, fields, rep)
            continue
        dR = uni.den(r)
        tol = K * A.EPS * nround * a.scale(uni) * sc
        if isinstance(expf, tuple):      # division: den(result) * c == den(a)
            c = expf[1]
            d = dR.smul(c).dist(dA) / abs(complex(c))
        else:
            d = dR.dist(expf(dA))
        led.check(d <= tol, f"post:{fn}:den", fn, f"den(`{src}`) is off by {d:.3g} (tolerance {tol:.3g})", key, fields, rep, not dA.is_zero())
        want = "Op" if (a.is_op and code.split("[")[0] in ("neg", "lmul", "rmul")) else "OpSum"
        led.check(kind(r) == want, f"post:{fn}:type", fn, f"`{src}` is a {type(r).__name__}, expected {want}", key + ("type",), fields, rep)
        w = wf_value(r, uni)
        led.check(w is None or not a.wf(uni), f"post:{fn}:wellformed", fn, f"`{src}`: {w}", key + ("wf",), fields, rep)
        led.check(A.vsig(a.val) == sa, f"frame:{fn}:operand", fn, f"`{src}` changed its operand", key + ("frame",), fields, rep)
        if code == "copy":
            led.check(r is not a.val and A.vsig(r) == sa, "post:OpSum.copy:independent_equal", fn, f"`{src}` is not an independent equal list",
                      key + ("copy",), fields, rep)
        if isinstance(r, list) and isinstance(a.val, list):
            # value semantics of the arithmetic operators: the result is a new list, so extending it in place (+=, append) cannot reach the operand
            fresh = r is not a.val
            if fresh and code in ("add_empty_sum", "add_empty_list", "sub_empty_sum", "empty_sum_add", "neg", "add0", "copy"):
                r += list(a.val[:1]) or [leaves(uni)[0].val]
                fresh = A.vsig(a.val) == sa
            led.check(fresh, f"post:{fn}:result_is_a_new_object", fn, f"`{src}` returns (or shares storage with) its operand: extending the result in place changes the operand",
                      key + ("fresh",), fields, rep)
    if not a.is_op:
        for at in ATOLS:
            check_simplify(led, uni, a, at, (uname, "simplify", i, at), agg=sagg)
    flush_agg(led, sagg, (uname, "simplify-batch", i))


def w_nary(case, led):
    """n-ary products and sums (Op.product, OpSum.product, sum) over triples"""
    from renormalizer.model import Op, OpSum
    _, uname, seed, tier = case
    uni = universe(uname)
    pool = build_pool(uni)
    P1 = [v for v in pool if v.depth == 1]
    sums = [v for v in pool if not v.is_op][: (6 if tier == "quick" else 12)]
    for vs in itertools.chain(itertools.product(P1, repeat=3), itertools.product(P1 + sums[:2], repeat=4) if tier != "quick" else []):
        srcs = ", ".join(v.src for v in vs)
        key = (uname, "nary") + tuple(pool.index(v) for v in vs)
        rep = {"universe": uname, "expr": None, "how": SETUP}
        exp_p, exp_s, sc = None, A.EM.zero(uni.D), 1.0
        for v in vs:
            exp_p = v.den(uni) if exp_p is None else exp_p @ v.den(uni)
            exp_s = exp_s + v.den(uni)
            sc *= v.scale(uni)
        tol = K * A.EPS * (len(vs) - 1) * sc
        nontriv = not exp_p.is_zero()
        calls = [("OpSum.product", f"OpSum.product([{srcs}])", lambda: OpSum.product([v.val for v in vs]), exp_p, tol)]
        if all(v.is_op for v in vs):
            calls.append(("Op.product", f"Op.product([{srcs}])", lambda: Op.product([v.val for v in vs]), exp_p, tol))
        if vs[0].is_op:
            calls.append(("Op.__radd__", f"sum([{srcs}])", lambda: sum(v.val for v in vs), exp_s, 0.0))
        for fn, src, f, exp, tl in calls:
            before = [A.vsig(v.val) for v in vs]
            try:
                r = f()
            except Exception as e:
                led.check(False, f"post:{fn}:total", fn, f"`{src}` raised {type(e).__name__}: {e}", key + (fn,), {"nary": len(vs), "error": type(e).__name__},
                          dict(rep, expr=src))
                continue
            ok = (hasattr(r, "symbol") or isinstance(r, list))
            d = uni.den(r).dist(exp) if ok else float("inf")
            led.check(ok and d <= tl, f"post:{fn}:den_nary", fn, f"den(`{src}`) is off by {d:.3g} (tolerance {tl:.3g})", key + (fn,), {"nary": len(vs)},
                      dict(rep, expr=src), nontriv)
            if ok:
                w = wf_value(r, uni)
                led.check(w is None, f"post:{fn}:wellformed", fn, f"`{src}`: {w}", key + (fn, "wf"), {"nary": len(vs)}, dict(rep, expr=src), nontriv)
            led.check([A.vsig(v.val) for v in vs] == before, f"frame:{fn}:operands", fn, f"`{src}` changed an operand", key + (fn, "frame"),
                      {"nary": len(vs)}, dict(rep, expr=src), nontriv)
    for vs in itertools.product(sums, repeat=3):
        srcs = ", ".join(v.src for v in vs)
        key = (uname, "nary-sums") + tuple(pool.index(v) for v in vs)
        exp = vs[0].den(uni) @ vs[1].den(uni) @ vs[2].den(uni)
        tol = K * A.EPS * 2 * vs[0].scale(uni) * vs[1].scale(uni) * vs[2].scale(uni)
        src = f"OpSum.product([{srcs}])"
        try:
            r = OpSum.product([v.val for v in vs])
        except Exception as e:
            led.check(False, "post:OpSum.product:total", "OpSum.product", f"`{src}` raised {type(e).__name__}: {e}", key, {"nary": 3, "error": type(e).__name__},
                      {"universe": uname, "expr": src, "how": SETUP})
            continue
        d = uni.den(r).dist(exp)
        led.check(d <= tol, "post:OpSum.product:den_nary", "OpSum.product", f"den(`{src}`) is off by {d:.3g} (tolerance {tol:.3g})", key, {"nary": 3},
                  {"universe": uname, "expr": src, "how": SETUP}, not exp.is_zero())
    # degenerate lists
    r = OpSum.product([])
    led.check(isinstance(r, OpSum) and len(r) == 0, "post:OpSum.product:empty", "OpSum.product", f"OpSum.product([]) = {r!r}, expected the empty sum",
              (uname, "nary-empty"), {}, {"expr": "OpSum.product([])"}, False)
    for v in [x for x in pool if not x.is_op][:6]:
        # a product of ONE operator sum is still a new list: extending it in place must not reach the factor
        sa = A.vsig(v.val)
        r = OpSum.product([v.val])
        fresh = r is not v.val
        if fresh and isinstance(r, list):
            r += list(v.val[:1]) or [leaves(uni)[0].val]
            fresh = A.vsig(v.val) == sa
        led.check(fresh, "post:OpSum.product:result_is_a_new_object", "OpSum.product", f"OpSum.product([{v.src}]) returns its only factor: extending the result in place changes the factor",
                  (uname, "nary-1-fresh", v.src), {"nary": 1}, {"universe": uname, "expr": f"p = OpSum.product([{v.src}]); p += [...]", "how": SETUP})
    for v in pool[:8]:
        r = OpSum.product([v.val])
        led.check(uni.den(r).same(v.den(uni)), "post:OpSum.product:den_nary", "OpSum.product", f"OpSum.product([{v.src}]) changed the value",
                  (uname, "nary-1", v.src), {"nary": 1}, {"universe": uname, "expr": f"OpSum.product([{v.src}])", "how": SETUP})
        if v.is_op:
            r = Op.product([v.val])
            led.check(uni.den(r).same(v.den(uni)) and wf_value(r, uni) is None, "post:Op.product:den_nary", "Op.product",
                      f"Op.product([{v.src}]) changed the value", (uname, "nary-1p", v.src), {"nary": 1},
                      {"universe": uname, "expr": f"Op.product([{v.src}])", "how": SETUP})


SIMP_FACTORS = [0.5, -0.5, 4e-4, 7e-4, 1e-3, 1e-13, -2.0 + 1j, 0.0]


def simplify_terms(uni):
    """term pool for the direct simplify enumeration: equal words written with and without identity letters, cancelling and
    negligible factors (below / at / above each tolerance), pure identities on different DoFs, a zero factor"""
    e = ("e", 1)
    if uni.name == "boson":
        X, Z = A.PLUS, "b"
    else:
        X, Z = "sigma_x", "sigma_+"
    T = [mk(uni, X, 0, 0.5), mk(uni, X + " I", [0, "s"], 0.5), mk(uni, X, 0, -0.5), mk(uni, "I " + X, [e, 0], 4e-4), mk(uni, X, 0, 7e-4),
         mk(uni, Z + " " + X, ["s", 0], 1e-3), mk(uni, X + " " + Z, [0, "s"], 1e-13), mk(uni, "I", 0, 2.0), mk(uni, "I I", [0, "s"], -2.0),
         mk(uni, "I", "s", 1e-13), mk(uni, Z + " I " + X, ["s", e, 0], -2.0 + 1j), mk(uni, Z, "s", 0.0),
         mk(uni, X + " " + Z, [0, "s"], 0.25), mk(uni, X + " " + Z, ["s", 0], 0.75)]      # one symbol string on permuted degrees of freedom: different operators
    return T


def w_simplify_lists(case, led):
    from renormalizer.model import OpSum
    _, uname, first, seed, tier = case
    uni = universe(uname)
    T = simplify_terms(uni)
    full = 3 if tier == "quick" else 4      # all lists up to this length; one length more as a seeded 1-in-8 sample
    sagg = {}
    for n in range(0, full + 1):     # lists [T[first]] + n more terms (and the empty list once)
        for cnt, rest in enumerate(itertools.product(range(len(T)), repeat=n)):
            if n == full and (cnt * 7 + first + seed) % 8:
                continue
            idx = (first,) + rest
            v = V("OpSum([" + ", ".join(T[k].src for k in idx) + "])", OpSum([T[k].val for k in idx]), 2)
            for at in ATOLS:
                check_simplify(led, uni, v, at, (uname, "simplify-list", idx, at), agg=sagg)
    if first == 0:
        v = V("OpSum([])", OpSum([]), 2)
        for at in ATOLS:
            check_simplify(led, uni, v, at, (uname, "simplify-list", (), at), nontriv_hint=False, agg=sagg)
    flush_agg(led, sagg, (uname, "simplify-list-batch", first))


def w_squeeze(case, led):
    """Op.squeeze_identity on every word of length <= 3 (4) over {I, two other letters} x DoFs"""
    from renormalizer.model import Op
    _, uname, l0, seed, tier = case
    uni = universe(uname)
    letters = ["I", "sigma_x", "sigma_+"] if uname != "boson" else ["I", A.PLUS, r"a^\dagger"]
    alpha = [(x, d) for x in letters for d in uni.dofs]
    maxlen = 3 if tier == "quick" else 4
    fn = "Op.squeeze_identity"
    for n in range(0, maxlen):
        for rest in itertools.product(alpha, repeat=n):
            word = (alpha[l0],) + rest
            for fac in (0.5, -2.0 + 1j):
                v = mk(uni, " ".join(x for x, _ in word), [d for _, d in word], fac)
                op = v.val
                src = f"{v.src}.squeeze_identity()"
                key = (uname, "squeeze", word, fac)
                rep = {"universe": uname, "expr": src, "how": SETUP}
                mixed = mixed_identity(op)
                before = A.sig(op)
                try:
                    r = op.squeeze_identity()
                except Exception as e:
                    fields = {"qn_size": uni.qn_size, "identity_mixed": bool(mixed), "error": type(e).__name__, "via": "direct"}
                    if capped(led, f"post:{fn}:total", fields):
                        led.check(False, f"post:{fn}:total", fn, f"`{src}` raised {type(e).__name__}: {e}", key, fields, rep)
                    continue
                fields = {"qn_size": uni.qn_size, "identity_mixed": bool(mixed)}
                nt = any(x == "I" for x, _ in word)
                w = wellformed(r, uni)
                led.check(w is None, f"post:{fn}:wellformed", fn, f"`{src}`: {w}", key + ("wf",), fields, rep, nt)
                if w is not None:
                    continue
                rest_w = [(A.norm_letter(x), d) for x, d in word if x != "I"]
                want = rest_w if rest_w else [("I", word[0][1])]
                got = [(A.norm_letter(x), d) for x, d in zip(A.tokenize(r.symbol), r.dofs)]
                led.check(got == want, f"post:{fn}:removes_exactly_identity", fn, f"`{src}` has letters {got}, expected {want}", key + ("letters",), fields, rep, nt)
                led.check(r.factor == op.factor, f"post:{fn}:factor_kept", fn,
                          f"`{src}` has factor {r.factor!r}, expected {op.factor!r}", key + ("factor",), fields, rep, nt)
                led.check(uni.den(r).same(uni.den(op)), f"post:{fn}:den", fn, f"`{src}` denotes another operator", key + ("den",), fields, rep, nt)
                led.check(A.sig(op) == before, f"frame:{fn}:input", fn, f"`{src}` changed its input", key + ("frame",), fields, rep, nt)
                led.check(op.is_identity == (not rest_w), "post:Op.is_identity:all_identity_letters", "Op.is_identity",
                          f"{v.src}.is_identity = {op.is_identity}", key + ("is_identity",), fields, rep, nt)


def eq_objects(uni, tier):
    """Ops that are pairwise equal / different in exactly one field, built through different constructor spellings"""
    from renormalizer.model import Op
    words = [(("sigma_x", 0),), (("sigma_x", "s"),), (("sigma_z", 0),), (("I", 0),), (("sigma_+", 0),), (("sigma_-", ("e", 1)),),
             (("sigma_x", 0), ("sigma_z", "s")), (("sigma_z", "s"), ("sigma_x", 0)), (("sigma_x", 0), ("sigma_z", 0)), (("sigma_x", 0), ("sigma_x", 0)),
             (("sigma_x", 0), ("I", "s")), (("sigma_+", 0), ("sigma_-", 0)), (("sigma_+", 0), ("sigma_-", "s")),
             (("sigma_x", ("e", 1)), ("sigma_x", ("e", 1)))]
    if uni.name == "boson":
        words = [((A.PLUS, 0),), ((A.PLUS, "s"),), (("b", 0),), (("I", 0),), ((r"a^\dagger", 0),), (("a", ("e", 1)),),
                 ((A.PLUS, 0), ("b", "s")), (("b", "s"), (A.PLUS, 0)), ((A.PLUS, 0), ("b", 0)), ((A.PLUS, 0), (A.PLUS, 0)),
                 ((r"b^\dagger", 0), ("b", 0)), ((r"a^\dagger", 0), ("a", "s"))]
    factors = [("1.0", 1.0), ("1", 1), ("(1+0j)", 1 + 0j), ("np.float64(1.0)", np.float64(1.0)), ("2.0", 2.0), ("-1.0", -1.0), ("1j", 1j),
               ("0.0", 0.0), ("-0.0", -0.0),
               # the same number reached along two routes of floating-point arithmetic: equal up to round-off, different bit patterns.  Whatever == decides
               # for such a pair, hash must agree with it (a tolerant == with an exact hash breaks sets and dicts of operators)
               ("0.3", 0.3), ("0.1*3", 0.1 * 3), ("(0.1+0.2)", 0.1 + 0.2), ("1.0+2**-52", 1.0 + 2.0 ** -52), ("(0.3+0j)", 0.3 + 0j), ("0.1*3+0j", 0.1 * 3 + 0j)]
    if tier != "quick":
        factors += [("np.complex128(1j)", np.complex128(1j)), ("0.5", 0.5), ("np.int64(2)", np.int64(2))]
    out = []
    for w in words:
        sym = " ".join(x for x, _ in w)
        dl = [d for _, d in w]
        qs = [list(uni.qn_of(x, d)) for x, d in w]
        qn_plain = qs if uni.qn_size > 1 else [q[0] for q in qs]
        spell = [("qn=" + repr(qn_plain), dict(qn=qn_plain)), ("qn=arrays", dict(qn=[np.array(q) for q in qs]))]
        if uni.qn_size == 1 and all(tuple(q) == ((1,) if x == r"a^\dagger" else (-1,) if x == "a" else (0,)) for q, (x, _) in zip(qs, w)):
            spell.append(("qn=None", dict()))
        # a different (inconsistent) quantum number: equal denotation, different field
        spell.append(("qn=shifted", dict(qn=[[v + 1 for v in q] for q in qs])))
        dspell = [(repr(dl), dl)]
        if len(set(dl)) == 1:
            dspell.append((repr(dl[0]), dl[0]))        # a single hashable DoF shared by all symbols
        for (fs, f), (qs_, kw), (ds, d) in itertools.product(factors, spell, dspell):
            out.append(V(f"Op({sym!r}, {ds}, {fs}, {qs_})", Op(sym, d, f, **kw), 1))
    return out


def w_eqhash(case, led):
    _, uname, chunk, nchunk, seed, tier = case
    uni = universe(uname)
    objs = eq_objects(uni, tier)
    sigs = [A.sig(v.val) for v in objs]
    hs = [hash(v.val) for v in objs]
    for i in range(chunk, len(objs), nchunk):
        a, sa = objs[i].val, sigs[i]
        key = (uname, "eq", i)
        rep = {"universe": uname, "a": objs[i].src, "how": "construct the two Ops and compare ==, hash, to_tuple, same_term"}
        led.check(a == a and not (a != a), "post:Op.__eq__:reflexive", "Op.__eq__", f"{objs[i].src} != itself", key + ("refl",), {}, rep)
        try:
            tt = a.to_tuple()
            hash(tt)
            ok = tt == sa and isinstance(tt, tuple)
        except Exception as e:
            ok, tt = False, repr(e)
        led.check(ok, "post:Op.to_tuple:fields_hashable", "Op.to_tuple", f"to_tuple() = {tt!r}, expected the hashable fields {sa!r}", key + ("tt",), {}, rep)
        led.check(hash(a) == hs[i], "post:Op.__hash__:stable", "Op.__hash__", "hash changes between calls", key + ("hstable",), {}, rep)
        bad = {"sym": None, "spec": None, "hash": None, "ne": None, "same_term": None, "same_word": None, "den": None}
        neq = 0
        for j in range(len(objs)):
            b, sb = objs[j].val, sigs[j]
            e1, e2 = (a == b), (b == a)
            pair = dict(rep, b=objs[j].src)
            if e1 is not e2 and bad["sym"] is None:
                bad["sym"] = (f"({objs[i].src} == {objs[j].src}) = {e1} but reversed = {e2}", pair)
            if bool(e1) != (sa == sb) and bad["spec"] is None:
                bad["spec"] = (f"({objs[i].src} == {objs[j].src}) = {e1} but the fields (symbol, dofs, factor, qn) are {'equal' if sa == sb else 'different'}", pair)
            if e1:
                neq += 1
                if hs[i] != hs[j] and bad["hash"] is None:
                    bad["hash"] = (f"{objs[i].src} == {objs[j].src} but their hashes differ", pair)
                if not uni.den(a).same(uni.den(b)) and bad["den"] is None:
                    bad["den"] = (f"{objs[i].src} == {objs[j].src} but they denote different operators", pair)
            if (a != b) is not (not e1) and bad["ne"] is None:
                bad["ne"] = (f"!= is not the negation of == for {objs[i].src}, {objs[j].src}", pair)
            st = a.same_term(b)
            if (bool(st) != (sa[:2] == sb[:2]) or st is not b.same_term(a)) and bad["same_term"] is None:
                bad["same_term"] = (f"{objs[i].src}.same_term({objs[j].src}) = {st}; symbol/DoFs are {'equal' if sa[:2] == sb[:2] else 'different'}", pair)
            if st and not np.array_equal(uni.word(a.symbol, a.dofs)[0], uni.word(b.symbol, b.dofs)[0]) and bad["same_word"] is None:
                bad["same_word"] = (f"same_term holds for {objs[i].src}, {objs[j].src} but the words denote different operators", pair)
        for cl, oid, fn in (("sym", "post:Op.__eq__:symmetric", "Op.__eq__"), ("spec", "post:Op.__eq__:iff_fields_equal", "Op.__eq__"),
                            ("hash", "post:Op.__hash__:eq_implies_equal_hash", "Op.__hash__"), ("ne", "post:Op.__eq__:ne_is_negation", "Op.__eq__"),
                            ("den", "post:Op.__eq__:eq_implies_equal_den", "Op.__eq__"),
                            ("same_term", "post:Op.same_term:iff_symbol_and_dofs_equal", "Op.same_term"),
                            ("same_word", "post:Op.same_term:implies_proportional_den", "Op.same_term")):
            if bad[cl] is None:
                led.check(True, oid, fn, "", key + (cl,), {}, rep, neq > 1)
            else:
                led.check(False, oid, fn, bad[cl][0], key + (cl,), {}, bad[cl][1])
    if chunk == 0:
        nd = len(set(v.val for v in objs))
        classes = []
        for s in sigs:     # number of classes of equal field tuples, by pairwise comparison (no hashing involved)
            if not any(s == c for c in classes):
                classes.append(s)
        led.check(nd == len(classes), "post:Op.__hash__:usable_in_sets", "Op.__hash__", f"set() keeps {nd} of {len(objs)} Ops, {len(classes)} are distinct",
                  (uname, "eq-set"), {}, {"universe": uname, "how": "len(set(ops)) for the Ops of props.C15.eq_objects"})


def w_strings(case, led):
    """symbol layer: join / split of simple symbols, including the simple symbol that contains spaces"""
    from renormalizer.model import Op
    _, seed, tier = case
    alpha = [A.PLUS, r"b^\dagger", "b", "x", "I", r"a^\dagger", "a", r"b^\dagger+b", "sigma_+", "+", "-"]
    maxlen = 3 if tier == "quick" else 4
    # "+" and "-" are spin symbols of BasisHalfSpin; the word (b^\dagger, +, b) joins to the reserved phrase and is
    # excluded (documented: that phrase is one simple symbol)
    def reserved(w):
        s = " ".join(w)
        return A.tokenize(s) != list(w)
    words = [w for n in range(1, maxlen + 1) for w in itertools.product(alpha, repeat=n)]
    ops = {}
    for w in words:
        sym = " ".join(w)
        key = ("strings", w)
        rep = {"symbol": sym, "how": "Op(symbol, list(range(n))).split_symbol"}
        if reserved(w):
            led.check(True, "post:Op.__init__:split_symbol", "Op.__init__", "", key, {}, rep, nontrivial=False)
            continue
        try:
            op = Op(sym, list(range(len(w))))
        except Exception as e:
            led.check(False, "post:Op.__init__:split_symbol", "Op.__init__", f"Op({sym!r}, {list(range(len(w)))}) raised {type(e).__name__}: {e}", key,
                      {"n": len(w)}, rep)
            continue
        ops[w] = op
        want = [A.norm_letter(x) for x in w]
        led.check(list(op.split_symbol) == want and op.symbol == sym and len(op.dofs) == len(w) == len(op.qn_list),
                  "post:Op.__init__:split_symbol", "Op.__init__", f"Op({sym!r}).split_symbol = {op.split_symbol}, expected {want}", key, {"n": len(w)}, rep,
                  A.PLUS in w)
        wantq = [1 if x == r"a^\dagger" else -1 if x == "a" else 0 for x in w]
        led.check([int(q[0]) for q in op.qn_list] == wantq and all(len(q) == 1 for q in op.qn_list), "post:Op.__init__:default_qn", "Op.__init__",
                  f"default quantum numbers of {sym!r} are {[q.tolist() for q in op.qn_list]}, expected {wantq}", key + ("qn",), {"n": len(w)}, rep)
        # one shared DoF given as a bare hashable
        op1 = Op(sym, ("mol", 1))
        led.check(op1.dofs == [("mol", 1)] * len(w) and list(op1.split_symbol) == want, "post:Op.__init__:shared_dof", "Op.__init__",
                  f"Op({sym!r}, ('mol', 1)).dofs = {op1.dofs}", key + ("shared",), {"n": len(w)}, rep)
    # products re-join and re-split the symbols of their operands
    short = [w for w in ops if len(w) <= 2]
    for w1 in short:
        for w2 in short:
            if len(w1) + len(w2) > maxlen or reserved(w1 + w2):
                continue
            a, b = ops[w1], ops[w2]
            b2 = Op(" ".join(w2), [10 + k for k in range(len(w2))])
            key = ("strings-mul", w1, w2)
            rep = {"left": a.symbol, "right": b.symbol, "how": "Op(left, dofs) * Op(right, dofs')"}
            want = [A.norm_letter(x) for x in w1 + w2]
            for fn, f in (("Op.__mul__", lambda: a * b2), ("Op.product", lambda: Op.product([a, b2]))):
                try:
                    r = f()
                except Exception as e:
                    led.check(False, f"post:{fn}:total", fn, f"({a.symbol!r}) * ({b.symbol!r}) raised {type(e).__name__}: {e}", key + (fn,),
                              {"error": type(e).__name__}, rep)
                    continue
                led.check(list(r.split_symbol) == want and r.dofs == a.dofs + b2.dofs and len(r.qn_list) == len(want), f"post:{fn}:word_concatenation", fn,
                          f"({a.symbol!r}) * ({b.symbol!r}) has simple symbols {r.split_symbol} on {r.dofs}, expected {want}", key + (fn,), {}, rep,
                          A.PLUS in w1 + w2)
    # boundary: the join of legitimate simple symbols ("b^\\dagger" of a boson, "+" of a spin, "b" of a boson) spells the reserved phrase
    for w1, w2 in (((r"b^\dagger",), ("+", "b")), ((r"b^\dagger", "+"), ("b",)), (("x", r"b^\dagger"), ("+", "b", "x"))):
        a = Op(" ".join(w1), list(range(len(w1))))
        b2 = Op(" ".join(w2), [10 + k for k in range(len(w2))])
        want = list(w1 + w2)
        src = f"Op({a.symbol!r}, {a.dofs}) * Op({b2.symbol!r}, {b2.dofs})"
        try:
            r = a * b2
            ok = list(r.split_symbol) == want and r.dofs == a.dofs + b2.dofs
            what = f"`{src}` has simple symbols {r.split_symbol} on {r.dofs}, expected {want}"
        except Exception as e:
            ok, what = False, f"`{src}` (a product of simple symbols on different DoFs) raised {type(e).__name__}: {e}"
        led.check(ok, "post:Op.product:reserved_phrase_boundary", "Op.product", what, ("strings-boundary", w1, w2),
                  {"boundary": "join spells b^\\dagger + b"}, {"expr": src, "how": "from renormalizer.model import Op; evaluate expr"})
    for w in ((r"b^\dagger", "I", "+", "b"), (r"b^\dagger", "+", "I", "b")):      # the same boundary reached by removing an identity letter
        op = Op(" ".join(w), list(range(len(w))))
        want, wantd = [x for x in w if x != "I"], [d for x, d in zip(w, op.dofs) if x != "I"]
        src = f"Op({op.symbol!r}, {op.dofs}).squeeze_identity()"
        try:
            r = op.squeeze_identity()
            ok, what = list(r.split_symbol) == want and r.dofs == wantd, f"`{src}` has simple symbols {r.split_symbol} on {r.dofs}, expected {want} on {wantd}"
        except Exception as e:
            ok, what = False, f"`{src}` raised {type(e).__name__}: {e}"
        led.check(ok, "post:Op.squeeze_identity:reserved_phrase_boundary", "Op.squeeze_identity", what, ("strings-boundary-squeeze", w),
                  {"boundary": "join spells b^\\dagger + b"}, {"expr": src, "how": "from renormalizer.model import Op; evaluate expr"})
    # squeeze_identity re-joins the normalised spelling; the result must still split into the same letters
    for w, op in ops.items():
        if "I" not in w:
            continue
        key = ("strings-squeeze", w)
        rep = {"symbol": op.symbol, "how": "Op(symbol, list(range(n))).squeeze_identity().split_symbol"}
        want = [A.norm_letter(x) for x in w if x != "I"] or ["I"]
        wantd = [d for x, d in zip(w, op.dofs) if x != "I"] or [0]
        boundary = reserved(tuple(x for x in w if x != "I"))     # removing the identity letters spells the reserved phrase
        try:
            r = op.squeeze_identity()
        except Exception as e:
            if boundary:
                led.check(False, "post:Op.squeeze_identity:reserved_phrase_boundary", "Op.squeeze_identity",
                          f"Op({op.symbol!r}, {op.dofs}).squeeze_identity() raised {type(e).__name__}: {e}", key, {"boundary": "join spells b^\\dagger + b"}, rep)
            else:
                led.check(False, "post:Op.squeeze_identity:total", "Op.squeeze_identity",
                          f"Op({op.symbol!r}, {op.dofs}).squeeze_identity() raised {type(e).__name__}: {e}", key,
                          {"qn_size": 1, "identity_mixed": True, "error": type(e).__name__, "via": "strings"}, rep)
            continue
        if boundary:
            led.check(list(r.split_symbol) == want and r.dofs == wantd, "post:Op.squeeze_identity:reserved_phrase_boundary", "Op.squeeze_identity",
                      f"squeeze_identity of {op.symbol!r}: {r.split_symbol} on {r.dofs}, expected {want} on {wantd}", key, {"boundary": "join spells b^\\dagger + b"}, rep)
            continue
        led.check(list(r.split_symbol) == want and r.dofs == wantd and [A.norm_letter(t) for t in A.tokenize(r.symbol)] == want,
                  "post:Op.squeeze_identity:symbol_round_trip", "Op.squeeze_identity",
                  f"squeeze_identity of {op.symbol!r}: symbol {r.symbol!r} splits into {r.split_symbol} on {r.dofs}, expected {want} on {wantd}", key, {}, rep,
                  A.PLUS in w)
        # the squeezed and the directly written term are the same term (this is what lets simplify merge them)
        direct = Op(" ".join(x for x in w if x != "I") or "I", wantd)
        rr = direct.squeeze_identity()
        led.check(r.same_term(rr), "post:Op.squeeze_identity:canonical_spelling", "Op.squeeze_identity",
                  f"{op.symbol!r} and {direct.symbol!r} denote the same term but are not same_term after squeeze_identity ({r.symbol!r} vs {rr.symbol!r})",
                  key + ("canon",), {}, rep, A.PLUS in w)


def w_errors(case, led):
    """documented rejections: the call raises the documented exception type and leaves its operands unchanged"""
    from renormalizer.model import Op, OpSum
    _, uname, seed, tier = case
    uni = universe(uname)
    P1 = leaves(uni)
    x, y = P1[0].val, P1[1].val
    s = x + y
    TE, VE, AE = TypeError, ValueError, AssertionError
    table = [
        ("Op.__add__", "x + 1", lambda: x + 1, (TE,)), ("Op.__add__", "x + 1.5", lambda: x + 1.5, (TE,)), ("Op.__add__", "x + 'a'", lambda: x + "a", (TE,)),
        ("Op.__add__", "x + None", lambda: x + None, (TE,)), ("Op.__add__", "x + np.array(1)", lambda: x + np.array(1), (TE,)),
        ("Op.__radd__", "1 + x", lambda: 1 + x, (TE,)), ("Op.__radd__", "'a' + x", lambda: "a" + x, (TE,)), ("Op.__radd__", "2.5 + x", lambda: 2.5 + x, (TE,)),
        ("Op.__mul__", "x * 'a'", lambda: x * "a", (TE,)), ("Op.__mul__", "x * None", lambda: x * None, (TE,)), ("Op.__mul__", "x * [1]", lambda: x * [1], (TE,)),
        ("Op.__mul__", "x * [y, 3]", lambda: x * [y, 3], (TE,)), ("Op.__mul__", "x * {}", lambda: x * {}, (TE,)),
        ("Op.__rmul__", "'a' * x", lambda: "a" * x, (TE,)), ("Op.__rmul__", "None * x", lambda: None * x, (TE,)),
        ("OpSum.__add__", "s + 1", lambda: s + 1, (TE,)), ("OpSum.__add__", "s + 0", lambda: s + 0, (TE,)), ("OpSum.__add__", "s + 'ab'", lambda: s + "ab", (TE,)),
        ("OpSum.__add__", "s + 2.0", lambda: s + 2.0, (TE,)), ("OpSum.__sub__", "s - 1", lambda: s - 1, (TE,)),
        ("OpSum.__mul__", "s * 'a'", lambda: s * "a", (TE,)), ("OpSum.__mul__", "s * None", lambda: s * None, (TE,)),
        ("OpSum.__mul__", "s * [1]", lambda: s * [1], (TE,)),
        ("OpSum.__truediv__", "s / 'a'", lambda: s / "a", (TE, AE)), ("OpSum.__truediv__", "s / [2]", lambda: s / [2], (TE, AE)),
        ("OpSum.__truediv__", "s / x", lambda: s / x, (TE, AE)),
        ("Op.__init__", "Op(3, 0)", lambda: Op(3, 0), (TE,)), ("Op.__init__", "Op(None, 0)", lambda: Op(None, 0), (TE,)),
        ("Op.__init__", "Op('X Y', [0])", lambda: Op("X Y", [0]), (VE,)), ("Op.__init__", "Op('X Y', [0, 1, 2])", lambda: Op("X Y", [0, 1, 2]), (VE,)),
        ("Op.__init__", "Op('X', [0, 1])", lambda: Op("X", [0, 1]), (VE, AE)),
        ("Op.__init__", "Op('X Y', [0, 1], qn=1)", lambda: Op("X Y", [0, 1], qn=1), (VE,)),
        ("Op.__init__", "Op('X Y', [0, 1], qn=[1])", lambda: Op("X Y", [0, 1], qn=[1]), (VE,)),
        ("Op.__init__", "Op('X', 0, qn=[1, 2])", lambda: Op("X", 0, qn=[1, 2]), (VE,)),
        ("Op.__init__", "Op('X', [[0]])", lambda: Op("X", [[0]]), (VE, TE)),
        ("Op.__init__", "Op('X Y', [0, {}])", lambda: Op("X Y", [0, {}]), (VE, TE)),
    ]
    sx, sy, ss = A.sig(x), A.sig(y), A.vsig(s)
    for fn, src, f, excs in table:
        key = (uname, "errors", src)
        rep = {"universe": uname, "x": P1[0].src, "y": P1[1].src, "s": "x + y", "expr": src}
        try:
            r = f()
            ok, what = False, f"`{src}` returned {r!r}; documented to raise {'/'.join(e.__name__ for e in excs)}"
        except excs:
            ok, what = True, ""
        except Exception as e:
            ok, what = False, f"`{src}` raised {type(e).__name__}: {e}; documented to raise {'/'.join(x_.__name__ for x_ in excs)}"
        led.check(ok, f"raises:{fn}:rejects_unsupported_operand", fn, what, key, {"expr": src}, rep)
        led.check(A.sig(x) == sx and A.sig(y) == sy and A.vsig(s) == ss, f"frame:{fn}:operands_after_rejection", fn, f"`{src}` changed an operand",
                  key + ("frame",), {"expr": src}, rep)


def w_terms(case, led):
    """Model.check_operator_terms: ravels OpSum, drops exactly the zero-factor terms, rejects unknown DoFs and non-Op items"""
    from renormalizer.model import Op, OpSum, Model
    from renormalizer.model.basis import BasisHalfSpin
    _, uname, first, seed, tier = case
    uni = universe(uname)
    zq = [0] * uni.qn_size
    model = Model([BasisHalfSpin(d, sigmaqn=[zq, zq] if uni.qn_size > 1 else [0, 0]) for d in uni.dofs], [])
    P1 = leaves(universe("pauli1" if uname == "boson" else uname))
    a, l1, l2, l4 = P1[0], P1[1], P1[2], P1[4]
    z0 = mk(uni, "sigma_z", "s", 0.0)
    zneg = mk(uni, "sigma_z", "s", -0.0)
    zc = mk(uni, "sigma_+ sigma_-", [0, ("e", 1)], 0j)
    tiny = mk(uni, "sigma_x", 0, 5e-324)
    items = [
        (a.src, a.val, "ok"), (z0.src, z0.val, "ok"), (zneg.src, zneg.val, "ok"), (zc.src, zc.val, "ok"), (tiny.src, tiny.val, "ok"), (l4.src, l4.val, "ok"),
        (f"OpSum([{a.src}, {z0.src}, {l1.src}])", OpSum([a.val, z0.val, l1.val]), "ok"), ("OpSum([])", OpSum([]), "ok"),
        (f"OpSum([{zc.src}, {zneg.src}])", OpSum([zc.val, zneg.val]), "ok"),
        (f"({l1.src}) * (({a.src}) - ({a.src}))", l1.val * (a.val - a.val), "ok"),
        ("Op('sigma_x', 'nope', 1.0)", Op("sigma_x", "nope", 1.0), "bad"), ("Op('sigma_x', 'nope', 0.0)", Op("sigma_x", "nope", 0.0), "bad"),
        (f"OpSum([{a.src}, Op('sigma_x sigma_z', [0, 1], 2.0)])", OpSum([a.val, Op("sigma_x sigma_z", [0, 1], 2.0)]), "bad"),
        ("3", 3, "bad"), ("'sigma_x'", "sigma_x", "bad"), ("None", None, "bad"),
    ]
    fn = "Model.check_operator_terms"
    maxlen = 3 if tier == "quick" else 4
    for n in range(0, maxlen):
        for rest in itertools.product(range(len(items)), repeat=n):
            idx = (first,) + rest
            lst = [items[k][1] for k in idx]
            src = "[" + ", ".join(items[k][0] for k in idx) + "]"
            key = (uname, "terms", idx)
            rep = {"universe": uname, "terms": src, "how": "Model([BasisHalfSpin(d) for d in (0, 's', ('e', 1))], []).check_operator_terms(terms)"}
            must_raise = any(items[k][2] == "bad" for k in idx)
            flat = []
            for t in lst:
                if hasattr(t, "symbol"):
                    flat.append(t)
                elif isinstance(t, OpSum):
                    flat.extend(list(t))
            before = [A.vsig(t) if (hasattr(t, "symbol") or isinstance(t, list)) else t for t in lst]
            fields = {"must_raise": must_raise}
            try:
                out = model.check_operator_terms(lst)
                raised = None
            except Exception as e:
                out, raised = None, e
            if raised is not None and must_raise:
                led.check(isinstance(raised, (ValueError, TypeError)), f"raises:{fn}:error_type", fn,
                          f"check_operator_terms({src}) raised {type(raised).__name__}: {raised}; documented: an error for non-Op items / unknown DoFs",
                          key + ("exc",), fields, rep)
            led.check((raised is not None) == must_raise, f"post:{fn}:rejects_exactly_invalid", fn,
                      (f"check_operator_terms({src}) accepted a term list with an unknown DoF or a non-Op item" if must_raise else
                       f"check_operator_terms({src}) raised {type(raised).__name__}: {raised}"), key, fields, rep)
            if out is not None and not must_raise:
                want = [t for t in flat if complex(t.factor) != 0]
                ok = isinstance(out, list) and len(out) == len(want) and all(hasattr(o, "symbol") and A.sig(o) == A.sig(t) for o, t in zip(out, want))
                nt = len(want) < len(flat)
                led.check(ok, f"post:{fn}:drops_exactly_zero_factor_terms", fn,
                          f"check_operator_terms({src}) = {out!r}; expected the ravelled list without zero-factor terms ({len(want)} terms)", key + ("drop",),
                          fields, rep, nt)
                if ok:
                    led.check(uni.den(out).same(uni.den(flat)), f"post:{fn}:den", fn, f"check_operator_terms({src}) denotes another operator",
                              key + ("den",), fields, rep, nt)
                # the checked terms are the model's own: a later in-place extension of the caller's container (`h += v`, `.append`) must not reach them - also
                # when nothing had to be ravelled or dropped
                led.check(out is not lst and not any(out is t for t in lst if isinstance(t, list)), f"post:{fn}:result_is_a_new_container", fn,
                          f"check_operator_terms({src}) handed back the caller's own container: extending it later changes the terms of the model", key + ("fresh",),
                          fields, rep, not nt)
                if ok and isinstance(lst, list) and want:
                    n0 = len(out)
                    sig0 = [A.sig(t) for t in out]
                    lst.append(want[0])
                    led.check(len(out) == n0 and [A.sig(t) for t in out] == sig0, f"frame:{fn}:result_independent_of_later_changes_of_the_argument", fn,
                              f"after appending to the argument of check_operator_terms({src}) the checked terms changed as well", key + ("alias",), fields, rep, not nt)
                    lst.pop()
            if idx in ((6, 1, 11), (8, 0)) and uname == "pauli1":
                led.samples.append({"universe": uname, "call": f"Model(...).check_operator_terms({src})", "raised": repr(raised), "result": repr(out),
                                    "contract": "ValueError iff an item is not an Op/OpSum or has an unknown DoF; else the ravelled list without zero-factor terms"})
            after = [A.vsig(t) if (hasattr(t, "symbol") or isinstance(t, list)) else t for t in lst]
            led.check(after == before and len(lst) == len(idx), f"frame:{fn}:input", fn, f"check_operator_terms({src}) changed its argument", key + ("frame",),
                      fields, rep)
    if first == 0:
        lst = [items[6][1], items[1][1], items[0][1]]
        m2 = Model([BasisHalfSpin(d, sigmaqn=[zq, zq] if uni.qn_size > 1 else [0, 0]) for d in uni.dofs], lst)
        want = [t for t in list(lst[0]) + lst[1:] if complex(t.factor) != 0]
        led.check([A.sig(t) for t in m2.ham_terms] == [A.sig(t) for t in want], "post:Model.__init__:ham_terms_checked", "Model.__init__",
                  f"Model.ham_terms = {m2.ham_terms!r}, expected {want!r}", (uname, "terms-model"), {}, {"universe": uname, "how": "Model(basis, terms).ham_terms"})


WORKERS = {"expr": w_expr, "nary": w_nary, "simplify_lists": w_simplify_lists, "squeeze": w_squeeze, "eqhash": w_eqhash, "strings": w_strings,
           "errors": w_errors, "terms": w_terms}


def worker(case, led):
    WORKERS[case[0]](case, led)


def check(run):
    tier, seed = run.tier, run.seed
    from props import C15_effects
    C15_effects.prove(run)
    cases = []
    sizes = {}
    for u in UNIVERSES:
        uni = universe(u)
        n = len(build_pool(uni))
        sizes[u] = n
        cases += [("expr", u, i, seed, tier) for i in range(n)]
        cases.append(("nary", u, seed, tier))
        cases += [("simplify_lists", u, k, seed, tier) for k in range(len(simplify_terms(uni)))]
        cases += [("squeeze", u, k, seed, tier) for k in range(3 * len(uni.dofs))]
        cases += [("eqhash", u, c, 16, seed, tier) for c in range(16)]
        cases.append(("errors", u, seed, tier))
        if u != "boson":
            cases += [("terms", u, k, seed, tier) for k in range(16)]
    cases.append(("strings", seed, tier))
    # long cases first so that the pool stays busy
    order = {"expr": 0, "simplify_lists": 1, "terms": 2, "strings": 0, "nary": 0}
    cases.sort(key=lambda c: order.get(c[0], 3))
    run_cases(run, worker, cases, procs=None)
    from props import C15_sym
    guarded(run, C15_sym.prove)
    run.exhaustive = True
    run.extra["pool_sizes_depth_le_2"] = sizes
    run.rule = ("three universes (Pauli letters with one- and with two-component quantum numbers; boson letters incl. the symbol 'b^\\dagger + b' with "
                "default quantum numbers) on the DoFs 0, 's', ('e', 1); 5 leaf Ops each (single symbol; two-site; three symbols with a repeated, interleaved "
                "DoF; identity; complex factor with an embedded identity letter). Every value of depth <= 2 of E ::= Op | E+E | E-E | E*E | c*E | E*c | -E | E+0 "
                f"(de-duplicated: {sizes}) is combined with every other one as left and right operand under +, -, *, +=, sum(), sum(.., OpSum()), Op.product, "
                "OpSum.product, plain-list operands, and with every unary operator (scalars 2, 0.5, 1j, np.float64(3), np.int64(2) on either side, /c, -E, "
                "+0, 0+, copy, simplify with atol in {default, 0, 1e-12, 1e-3}); simplify is also applied to the depth-3 sums (quick: seeded 1/6 sample, "
                "thorough: all, plus five more scalars). Separately: simplify on all lists of <= 3 (4) terms, and a seeded 1-in-8 sample of the lists with one "
                "term more, from a pool of 12 (equal words with/without identity letters, cancelling and negligible factors at/below/above each atol); squeeze_identity on all words of length <= 3 (4); "
                "==/hash/to_tuple/same_term on all pairs of ~400 Ops built through different spellings; symbol join/split on all words of length <= 3 (4) "
                "over 11 simple symbols; 36 documented rejections; Model.check_operator_terms on all lists of <= 3 (4) items from 16. "
                "non-trivial: products whose operand matrices do not commute, sums with non-zero value, simplifications that merge/drop/squeeze; "
                "distinct = distinct (universe, operator, operand indices) tuples")
    run.explanation = ("Bounded stand-in only. The denotation is computed from the public fields of the result (own tokenizer, integer 2x2 letters, exact dyadic "
                       "factors, Kronecker product in a fixed DoF order) and compared with the same matrix expression of the operands' denotations; sums, "
                       "differences, negation and in-place addition must agree exactly, products/scalar multiples/quotients within 8*eps*scale per rounding. "
                       "Each result term must also be a well-formed word carrying the universe's quantum number for every letter, operands must be unchanged, "
                       "and documented rejections must raise. The depth-<=3 expression space over the chosen leaves and scalars is enumerated completely "
                       "(exhaustive=true refers to that finite space, not to all programs).")
    run.trusted += ["exact integer/dyadic matrix arithmetic of vk/specs/opalg.py (NumPy object arrays of Python ints) as the reference semantics of symbols",
                    "letters on different DoFs commute (Kronecker factors); 'I' denotes the identity matrix"]
