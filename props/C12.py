"""C12 Tree tensor network time evolution matches the exact propagator."""
from vk.symx.harness import guarded
import numpy as np
import scipy.linalg

from vk.rtc.harness import run_cases
from vk.specs import tree as T
from vk.specs import treeuniv as TU
from vk.specs import chain as S
from vk.specs import universe as U
from props.C09 import taylor_bound

LEVEL = "other"
TECHNIQUE = ("Engine S (kernel-stub mode): the tree propagation-and-compression step equals the 4th-order Taylor polynomial of the propagator on every tree shape, for all "
             "tensor values; runtime contracts with theorem-derived bounds (Taylor-4 remainder for propagation-and-compression, exactness of PS / PS2 / VMF at full bond dimension, "
             "norm and energy conservation of one-site PS at any bond dimension, sector conservation) against scipy expm over enumerated trees; chain consistency on "
             "linear trees (bounded stand-in)")
TREE_METHODS = ["tdvp_vmf", "prop_and_compress_tdrk4", "tdvp_ps", "tdvp_ps2"]


def set_cfg(ttns, method, M=64, **kw):
    from renormalizer.utils import EvolveConfig, EvolveMethod, CompressConfig, CompressCriteria
    ttns.evolve_config = EvolveConfig(getattr(EvolveMethod, method), **kw)
    ttns.compress_config = CompressConfig(CompressCriteria.fixed, max_bonddim=M)
    return ttns


def bound(method, x, cfg, n_nodes, nrm):
    if method == "prop_and_compress_tdrk4":
        return taylor_bound(x, 4) * nrm + 1e-9
    return 60 * n_nodes * (cfg.ivp_rtol * nrm + cfg.ivp_atol)


def full_state(bt, q, rng, order):
    """a state with bond dimensions large enough to hold any state of the sector: random state, then H-expansion is not needed for M=64 on these sizes"""
    a = TU.random_ttns(bt, q, 64, rng)
    if a is None:
        return None
    a.canonicalise()
    return a


def worker(case, led):
    kind = case[0]
    from renormalizer.tn import TTNS, TTNO
    if kind == "accuracy":
        _, n_nodes, flavour, method, seed, tier = case
        su = TU.setup(seed, n_nodes, flavour, max_dim=200)
        if su is None:
            return
        bt, order, model, terms, H, Hd, sectors, rng = su["bt"], su["order"], su["model"], su["terms"], su["H"], su["Hd"], su["sectors"], su["rng"]
        if len(bt.node_list) < 2:
            return
        hn = np.linalg.norm(Hd, 2)
        if hn < 1e-8:
            return
        desc = dict(TU.describe_tree(bt), flavour=flavour, seed=seed, shape=repr(su["shape"]), method=method)
        q = sectors[len(sectors) // 2]
        a = full_state(bt, q, rng, order)
        if a is None:
            return
        # the represented vector includes the scalar prefactor: real-time evolution keeps its modulus and phase, whatever its value
        a.coeff = [1, 2.5 * np.exp(0.3j), -0.4, 1j][int(rng.integers(4))]
        desc["prefactor"] = repr(a.coeff)
        v0 = T.dense_ttns(a, order)
        mask = S.sector_mask(model, q)
        for imag in (False, True):
            for x in (0.1, 0.5):
                tau = x / hn
                key = (repr(su["shape"]), flavour, seed, method, imag, x)
                rep = dict(desc, imaginary=imag, x=x, sector=q)
                f = {"method": method, "imaginary_time": imag}
                st = set_cfg(a.copy(), method)
                try:
                    r = st.evolve(H, -1j * tau if imag else tau)
                except Exception as e:
                    led.check(False, f"post:TTNS.evolve[{method}]:total", "TTNS.evolve", f"raised {type(e).__name__}: {e}", key, f, rep)
                    continue
                v = T.dense_ttns(r, order)
                if imag:
                    ref = scipy.linalg.expm(-tau * Hd) @ v0
                    ref = ref / np.linalg.norm(ref)
                    bnd = 3 * bound(method, x, st.evolve_config, n_nodes, 1.0) * np.exp(x)
                else:
                    ref = scipy.linalg.expm(-1j * tau * Hd) @ v0
                    bnd = bound(method, x, st.evolve_config, n_nodes, np.linalg.norm(v0))
                err = np.linalg.norm(v - ref)
                led.check(err <= bnd, f"post:TTNS.evolve[{method}]:error_within_scheme_bound", "TTNS.evolve",
                          f"{'imaginary' if imag else 'real'} time |H|t={x}: error {err:.3e} > {bnd:.3e}", key, f, rep)
                leak = float(np.abs(v[~mask]).max()) if (~mask).any() else 0.0
                led.check(leak <= 1e-9 and not T.qnv_tree_violations(r), f"post:TTNS.evolve[{method}]:sector_conserved", "TTNS.evolve",
                          f"leak {leak:.1e}, qnv {T.qnv_tree_violations(r)[:1]}", key + ("sector",), f, rep)
                led.check(np.abs(T.dense_ttns(a, order) - v0).max() <= 1e-12 and np.abs(T.dense_ttns(st, order) - v0).max() <= 1e-12, f"frame:TTNS.evolve:input", "TTNS.evolve",
                          f"{method}, {'imaginary' if imag else 'real'} time: the evolved input changed", key + ("frame",), f, rep)
        if method == "tdvp_ps2":
            # per-bond limits (list form of max_dims) equal to the bond dimensions of the full manifold: nothing may be lost
            from renormalizer.utils import CompressConfig, CompressCriteria
            x = 0.3
            tau = x / hn
            st = set_cfg(a.copy(), method)
            st.compress_config = CompressConfig(CompressCriteria.fixed, max_bonddim=64)
            st.compress_config.max_dims = np.array(list(a.bond_dims) + [1])
            key = (repr(su["shape"]), flavour, seed, method, "per-bond")
            rep = dict(desc, x=x, sector=q, max_dims=[int(b) for b in a.bond_dims])
            try:
                r = st.evolve(H, tau)
                r2 = r.evolve(H, tau) if hasattr(r, "evolve") else None
                ref = scipy.linalg.expm(-1j * tau * Hd) @ v0
                err = np.linalg.norm(T.dense_ttns(r, order) - ref)
                bnd = bound(method, x, st.evolve_config, n_nodes, np.linalg.norm(v0))
                led.check(err <= bnd, "post:TTNS.evolve[tdvp_ps2]:per_bond_limits_of_the_full_manifold_lose_nothing", "TTNS.update_2site",
                          f"error {err:.3e} > {bnd:.3e}; bond dims {list(r.bond_dims)} for limits {list(a.bond_dims)}", key, {"method": method}, rep)
            except Exception as e:
                led.check(False, f"post:TTNS.evolve[{method}]:total", "TTNS.evolve", f"per-bond limits raised {type(e).__name__}: {e}", key, {"method": method}, rep)
        # multi-step history
        cur = set_cfg(a.copy(), method)
        ref = v0.copy()
        tot = 0.0
        for step in range(3):
            tau = 0.3 / hn
            try:
                nxt = cur.evolve(H, tau)
            except Exception as e:
                led.check(False, f"post:TTNS.evolve[{method}]:total", "TTNS.evolve", f"step {step}: raised {type(e).__name__}: {e}", (repr(su['shape']), flavour, seed, method, "hist", step), {"method": method}, desc)
                break
            nxt.evolve_config, nxt.compress_config = cur.evolve_config, cur.compress_config
            ref = scipy.linalg.expm(-1j * tau * Hd) @ ref
            tot += bound(method, 0.3, cur.evolve_config, n_nodes, np.linalg.norm(ref))
            err = np.linalg.norm(T.dense_ttns(nxt, order) - ref)
            led.check(err <= tot, f"post:TTNS.evolve[{method}]:multi_step_history", "TTNS.evolve", f"after {step + 1} steps: {err:.3e} > {tot:.3e}",
                      (repr(su["shape"]), flavour, seed, method, "hist", step), {"method": method}, desc)
            cur = nxt
    elif kind == "vmf_derivative":
        # contract of time_derivative_vmf (the right-hand side every VMF step integrates): mapped to the dense vector, the parameter velocity is the
        # ORTHOGONAL PROJECTION of H psi onto the tangent space of the tree manifold at psi - for any bond dimensions (truncated manifolds included) and
        # any norm of the state.  The tangent space is spanned by the derivatives of the dense vector with respect to the symmetry-allowed entries.
        _, n_nodes, flavour, seed, tier = case
        from renormalizer.tn.time_evolution import time_derivative_vmf
        su = TU.setup(seed, n_nodes, flavour, max_dim=120)
        if su is None:
            return
        bt, order, model, H, Hd, sectors, rng = su["bt"], su["order"], su["model"], su["H"], su["Hd"], su["sectors"], su["rng"]
        desc = dict(TU.describe_tree(bt), flavour=flavour, seed=seed, shape=repr(su["shape"]))
        for q in sectors[1:3] if len(sectors) > 2 else sectors[:1]:
            for M in (1, 2, 3):
                for cplx in (False, True):
                    for scale_ in (1.0, 0.6, 1.7):
                        a = TU.random_ttns(bt, q, M, rng, complex_=cplx)
                        if a is None:
                            continue
                        a.canonicalise()
                        a.scale(scale_, inplace=True)
                        set_cfg(a, "tdvp_vmf")
                        v = T.dense_ttns(a, order)
                        masks = [np.asarray(a.get_qnmask(node)) for node in a.node_list]
                        npar = int(sum(m.sum() for m in masks))
                        if npar == 0 or npar > 400:
                            continue
                        cols = []
                        for node, mk in zip(a.node_list, masks):
                            keep = np.asarray(node.tensor).copy()
                            for idx in zip(*np.nonzero(mk.reshape(keep.shape))):
                                e = np.zeros_like(keep)
                                e[idx] = 1.0
                                node.tensor = e
                                cols.append(T.dense_ttns(a, order))
                            node.tensor = keep
                        J = np.array(cols).T
                        key = (repr(su["shape"]), flavour, seed, str(q), M, cplx, scale_)
                        rep = dict(desc, sector=q, M=M, complex=cplx, scale=scale_, bond_dims=[int(x) for x in a.bond_dims], parameters=npar)
                        try:
                            xdot = np.asarray(time_derivative_vmf(a, H))
                        except Exception as e:
                            led.check(False, "post:time_derivative_vmf:total", "time_derivative_vmf", f"raised {type(e).__name__}: {e}", key, {}, rep)
                            continue
                        hv = Hd @ v
                        # The code inverts the bond overlap matrices with the regularisation reg_epsilon.  On a bond whose dimension exceeds the Schmidt rank
                        # (weight exactly zero) the inverse is 1/reg_epsilon and amplifies rounding noise (1e-16/1e-10): such states get the looser tolerance;
                        # weights that are tiny but non-zero (within 1e4 reg_epsilon) are outside the clause.
                        dims_ = [b.nbas for b in order]
                        vt = v.reshape(dims_)
                        deficient, near = False, False
                        for node in a.node_list:
                            if node.parent is None:
                                continue
                            sub, stack = [], [node]
                            while stack:
                                nd = stack.pop()
                                sub += [order.index(b) for b in bt.node_list[a.node_idx[nd]].basis_sets if b in order]
                                stack += list(nd.children)
                            if not sub or len(sub) == len(order):
                                continue
                            m_ = np.moveaxis(vt, sub, list(range(len(sub)))).reshape(int(np.prod([dims_[i] for i in sub])), -1)
                            w = np.linalg.svd(m_, compute_uv=False) ** 2
                            rank = int(np.sum(w > 1e-20 * w.max()))
                            deficient |= rank < node.tensor.shape[-1]
                            near |= bool(np.any((w > 1e-20 * w.max()) & (w < 1e4 * a.evolve_config.reg_epsilon)))
                        if near:
                            led.ok("skipped:time_derivative_vmf:bond_weight_near_regularisation", "time_derivative_vmf", key + ("pre",), nontrivial=False)
                            continue
                        tol_rel = 1e-6 if not deficient else 1e-6 + 1e-14 / a.evolve_config.reg_epsilon
                        want = J @ np.linalg.lstsq(J, hv, rcond=None)[0]
                        got = J @ xdot
                        err = np.linalg.norm(got - want)
                        # the bond overlap matrices are regularised with reg_epsilon: states whose smallest bond weight is not far above it are outside the clause
                        led.check(err <= tol_rel * max(1e-12, np.linalg.norm(hv)), "post:time_derivative_vmf:velocity_is_tangent_projection_of_H_psi", "time_derivative_vmf",
                                  f"|J xdot - P_T H psi| = {err:.3e} (|H psi| = {np.linalg.norm(hv):.3e}, norm of the state {np.linalg.norm(v):.2f})", key, {"scale": scale_, "rank_deficient_bond": bool(deficient)}, dict(rep, rank_deficient_bond=bool(deficient)),
                                  nontrivial=npar > len(v) // 4)
    elif kind == "conservation":
        _, n_nodes, flavour, seed, tier = case
        su = TU.setup(seed, n_nodes, flavour, max_dim=300)
        if su is None or len(su["bt"].node_list) < 2:
            return
        bt, order, model, terms, H, Hd, sectors, rng = su["bt"], su["order"], su["model"], su["terms"], su["H"], su["Hd"], su["sectors"], su["rng"]
        hn = np.linalg.norm(Hd, 2)
        if hn < 1e-8:
            return
        q = sectors[len(sectors) // 2]
        for M in (1, 2):
            a = TU.random_ttns(bt, q, M, rng)
            if a is None:
                continue
            a.canonicalise()
            v = T.dense_ttns(a, order)
            e0 = np.vdot(v, Hd @ v).real
            cur = set_cfg(a.copy(), "tdvp_ps", M=M)
            for step in range(3):
                nxt = cur.evolve(H, 0.4 / hn, normalize=False)
                nxt.evolve_config, nxt.compress_config = cur.evolve_config, cur.compress_config
                w = T.dense_ttns(nxt, order)
                tol = 60 * n_nodes * (cur.evolve_config.ivp_rtol + cur.evolve_config.ivp_atol)
                key = (repr(su["shape"]), flavour, seed, "ps", M, step)
                rep = dict(TU.describe_tree(bt), flavour=flavour, seed=seed, M=M, step=step)
                led.check(abs(np.linalg.norm(w) - 1) <= tol, "post:TTNS.evolve[tdvp_ps]:norm_conserved_at_any_bond_dimension", "evolve_tdvp_ps", f"norm {np.linalg.norm(w):.8f}", key + ("norm",), {"M": M}, rep)
                e = np.vdot(w, Hd @ w).real
                led.check(abs(e - e0) <= tol * max(1, hn), "post:TTNS.evolve[tdvp_ps]:energy_conserved_at_any_bond_dimension", "evolve_tdvp_ps", f"energy {e:.8f} vs {e0:.8f}", key + ("energy",), {"M": M}, rep)
                led.check(all(bd <= max(M, 1) for bd in nxt.bond_dims[1:]), "post:TTNS.evolve[tdvp_ps]:bond_limit", "evolve_tdvp_ps", f"{nxt.bond_dims}", key + ("bd",), {"M": M}, rep)
                cur = nxt
    elif kind == "chain":
        _, n, flavour, method, seed, tier = case
        from renormalizer.tn import BasisTree
        from renormalizer.model import Model
        from renormalizer.mps import Mpo
        from vk.specs import dyn as Dn
        rng = np.random.default_rng([seed, n, 1212, sum(map(ord, flavour))])
        model, terms, sectors = Dn.hamiltonian(flavour, n, rng)
        Hd = Dn.dense_h(model, terms).real
        hn = np.linalg.norm(Hd, 2)
        from renormalizer.tn.tree import from_mps
        q = sectors[len(sectors) // 2]
        m0 = U.make_state(model, q, 64, rng)
        if m0 is None:
            return
        m0 = m0.canonicalise().canonicalise()
        bt, a, H = from_mps(m0)
        order = list(model.basis)
        v0 = S.dense(m0)
        if np.abs(T.dense_ttns(a, order) - v0).max() > 1e-10:
            led.check(False, "post:from_mps:state_preserved", "from_mps", "chain -> tree conversion changed the state", (n, flavour, method, seed, "from_mps"), {}, {"nsites": n, "flavour": flavour})
            return
        m0 = m0.to_complex()
        Dn.set_evolve(m0, method, M=64)
        st = set_cfg(a.copy(), method)
        tau = 0.4 / hn
        key = (n, flavour, method, seed, "chain")
        rep = {"nsites": n, "flavour": flavour, "method": method, "seed": seed}
        try:
            rt = st.evolve(H, tau)
            rm = m0.evolve(Mpo(model, terms), tau)
            d = np.linalg.norm(T.dense_ttns(rt, order) - S.dense(rm))
            bnd = 2 * bound(method, 0.4, st.evolve_config, n, 1.0) + 2e-3 * (method != "prop_and_compress_tdrk4")
            led.check(d <= bnd, f"post:TTNS.evolve[{method}]:linear_tree_equals_chain", "TTNS.evolve", f"tree vs chain implementation differ by {d:.3e} > {bnd:.3e}", key, {"method": method}, rep)
        except Exception as e:
            led.check(False, f"post:TTNS.evolve[{method}]:total", "TTNS.evolve", f"chain comparison raised {type(e).__name__}: {e}", key, {"method": method}, rep)
    elif kind == "aux":
        # purified (P x Q) trees: imaginary-time evolution of the maximally entangled state gives Gibbs averages
        _, nmol, seed, tier = case
        from renormalizer.tn import BasisTree
        from renormalizer.tn.utils_eph import max_entangled_ex
        from renormalizer.model import Model, Op
        from props.C10 import holstein
        hm = holstein(nmol, 2, seed=seed)
        basis = list(hm.basis)
        bt0 = BasisTree.binary(basis)
        bt = bt0.add_auxiliary_space()
        order = [b for b in bt.basis_list if type(b).__name__ != "BasisDummy"]
        model = Model(order, hm.ham_terms)
        Hd = U.dense_terms(model, hm.ham_terms).real        # acts as identity on the Q space
        ttns = max_entangled_ex(bt)
        v0 = T.dense_ttns(ttns, order)
        H = TTNO(bt, hm.ham_terms)
        led.check(np.abs(T.dense_ttno(H, order) - Hd).max() <= 1e-10, "post:TTNO.__init__:acts_on_P_space_only", "TTNO.__init__", "TTNO on the P x Q tree differs from H (x) 1",
                  (nmol, seed, "aux-ttno"), {}, {"nmol": nmol, "seed": seed})
        beta = 1.0
        ref = scipy.linalg.expm(-beta / 2 * Hd) @ v0
        ref = ref / np.linalg.norm(ref)
        hn = np.linalg.norm(Hd, 2)
        for method in ("tdvp_ps2", "prop_and_compress_tdrk4"):
            cur = set_cfg(ttns.copy(), method)
            nsteps = 4
            try:
                for k in range(nsteps):
                    nxt = cur.evolve(H, -1j * beta / 2 / nsteps)
                    nxt.evolve_config, nxt.compress_config = cur.evolve_config, cur.compress_config
                    cur = nxt
                v = T.dense_ttns(cur, order)
                err = np.linalg.norm(v - ref)
                x = beta / 2 / nsteps * hn
                bnd = nsteps * 3 * bound(method, x, cur.evolve_config, len(bt.node_list), 1.0) * np.exp(x)
                led.check(err <= bnd, f"post:TTNS.evolve[{method}]:purified_thermal_state", "TTNS.evolve", f"purified Gibbs state error {err:.3e} > {bnd:.3e}",
                          (nmol, seed, method, "aux"), {"method": method}, {"nmol": nmol, "seed": seed, "beta": beta, "method": method})
                e = cur.expectation(H)
                eref = np.vdot(ref, Hd @ ref).real
                led.check(abs(e - eref) <= 2 * bnd * max(1, hn), f"post:TTNS.evolve[{method}]:thermal_energy", "TTNS.evolve", f"{e} vs {eref}", (nmol, seed, method, "auxE"), {"method": method},
                          {"nmol": nmol, "seed": seed, "beta": beta})
            except Exception as ex:
                led.check(False, f"post:TTNS.evolve[{method}]:total", "TTNS.evolve", f"purified tree raised {type(ex).__name__}: {ex}", (nmol, seed, method, "aux"), {"method": method}, {"nmol": nmol, "seed": seed})


def w_tiny_norm(case, led):
    """states of tiny norm (a weak component of a superposition, propagated with normalize=False): at full bond dimension the projector-splitting schemes still follow
    the dense propagator to the accuracy they reach at unit norm (the local propagator's stopping rule must be relative to the vector it propagates)"""
    _, seed = case
    import scipy.linalg
    from renormalizer import Op, BasisHalfSpin
    from renormalizer.tn import TTNS, TTNO
    from renormalizer.tn.treebase import BasisTree
    from renormalizer.tn.node import TreeNodeBasis
    from renormalizer.utils import EvolveConfig, EvolveMethod
    np.random.seed(seed + 5)
    rng = np.random.default_rng([seed, 1212])
    n = 8
    basis = [BasisHalfSpin(i) for i in range(n)]
    root = TreeNodeBasis(basis[:4])
    root.add_child(TreeNodeBasis(basis[4:]))
    tree = BasisTree(root)
    terms = []
    for i in range(n):
        j = (i + 1) % n
        terms += [Op("sigma_x sigma_x", [i, j], 1.0), Op("sigma_+ sigma_-", [i, j], 0.8), Op("sigma_- sigma_+", [i, j], 0.8), Op("sigma_z sigma_z", [i, j], 0.6),
                  Op("sigma_z", i, float(rng.uniform(0.2, 0.5)) * (i + 1))]
    ttno = TTNO(tree, terms)
    H = np.asarray(ttno.todense()).reshape(2 ** n, 2 ** n)
    psi0 = TTNS.random(tree, 0, 16)
    psi0.canonicalise()
    for scale in (1.0, 1e-7):
        for method in (EvolveMethod.tdvp_ps2, EvolveMethod.tdvp_ps):
            for tau in (0.3, 2.0):
                psi = psi0.copy()
                psi.scale(scale, inplace=True)
                v0 = np.asarray(psi.todense()).ravel().copy()
                psi.evolve_config = EvolveConfig(method)
                key = ("tiny", seed, scale, str(method), tau)
                rep = {"tree": "two nodes x four spins", "scale": scale, "method": str(method), "tau": tau, "seed": seed}
                try:
                    out = psi.evolve(ttno, tau, normalize=False)
                    ref = scipy.linalg.expm(-1j * tau * H) @ v0
                    got = np.asarray(out.todense()).ravel()
                    err = float(np.linalg.norm(got - ref) / np.linalg.norm(ref))
                    led.check(err <= 1e-6, "post:TTNS.evolve:full_rank_exact_for_any_norm", "TTNS.evolve",
                              f"{method}, state of norm {np.linalg.norm(v0):.1e}, tau={tau}: relative deviation from the dense propagator {err:.2e}", key, {"scale": scale}, rep)
                except Exception as e:
                    led.check(False, "post:TTNS.evolve:tiny_norm_total", "TTNS.evolve", f"raised {type(e).__name__}: {e}", key, {"scale": scale}, rep)


def check(run):
    seeds = list(range(run.seed * 100, run.seed * 100 + (2 if run.tier == "quick" else 6)))
    cases = []
    for s in seeds:
        for nn in (2, 3, 4) if run.tier == "quick" else (2, 3, 4, 5):
            for fl in ("spinqn", "holstein"):
                for m in TREE_METHODS:
                    cases.append(("accuracy", nn, fl, m, s, run.tier))
                cases.append(("conservation", nn, fl, s, run.tier))
                cases.append(("vmf_derivative", nn, fl, s, run.tier))
        for m in TREE_METHODS:
            cases.append(("chain", 4, "spinqn", m, s, run.tier))
            cases.append(("chain", 4, "holstein", m, s, run.tier))
        cases.append(("aux", 1, s, run.tier))
        cases.append(("aux", 2, s, run.tier))
    run_cases(run, worker, cases)
    run_cases(run, w_tiny_norm, [("tiny", run.seed + i) for i in range(1 if run.tier == "quick" else 3)])
    from props import C12_sym
    guarded(run, C12_sym.prove)
    # tree TDVP-PS / PS2: every local problem handed to the local propagator is the integrator's (call by contract at expm_krylov)
    from props import C12_tdvp_sym
    guarded(run, C12_tdvp_sym.prove)
    from props import C11_sym
    guarded(run, C11_sym.prove, only=("update",))      # TTNS.update_2site (tdvp_ps2) in kernel-stub mode, incl. the per-node limit probe
    run.rule = ("random trees with 2..4(5) nodes (shape enumeration, groupings, dummy nodes) x {spin+qn, electron-phonon} x 4 tree schemes x real/imaginary time x |H|t in "
                "{0.1, 0.5}; 3-step histories; one-site PS at bond limits 1, 2 (norm/energy/limit); linear tree vs chain implementation; purified P x Q trees "
                "(max_entangled_ex + imaginary time) vs dense Gibbs state; distinct = case x clause")
    run.sample({"shape": "((), ())", "method": "tdvp_ps2", "imaginary": True, "|H|t": 0.5, "contract": "|psi - e^{-tH}psi0/|.|| within the local-solver bound (exactness at full bond dimension)"})
    run.explanation = ("Decided exactly (Engine S, every rooted ordered tree shape of the universe): the propagation-and-compression step is the Taylor polynomial; "
                       "evolve_tdvp_ps / ps2 pose exactly the local problems of the tree projector-splitting integrator (call by contract at expm_krylov). Bounded: accuracy bounds as in C09.")
    run.trusted += ["scipy.linalg.expm", "independent tree contraction", "print_tree shim"]
