"""C19 Integrator coefficient tables have their advertised order."""
import math
from fractions import Fraction
from types import SimpleNamespace

import numpy as np
import z3

from vk.common import REPO
from vk.symx.exactexec import extract

LEVEL = "proof"
TECHNIQUE = ("deductive: exact symbolic execution of the real get_tableau / runge_kutta_ti_coefficient source per method; "
             "Butcher order conditions, row sums and the stage-polynomial identity as ground / polynomial obligations discharged by z3")
REL = "renormalizer/utils/rk.py"


# ------------------------------------------------------------------ rooted trees (spec)
def trees_of_order(n, _cache={}):
    """rooted trees with n vertices as sorted tuples of children (canonical)"""
    if n in _cache:
        return _cache[n]
    if n == 1:
        res = [()]
    else:
        res = set()

        def forests(total, maxkey):
            # multisets of trees with `total` vertices overall
            if total == 0:
                yield ()
                return
            for k in range(1, total + 1):
                for t in trees_of_order(k):
                    key = (k, t)
                    if maxkey is not None and key > maxkey:
                        continue
                    for rest in forests(total - k, key):
                        yield (t,) + rest
        for f in forests(n - 1, None):
            res.add(tuple(sorted(f)))
        res = sorted(res)
    _cache[n] = res
    return res


def order(t):
    return 1 + sum(order(c) for c in t)


def gamma(t):
    g = order(t)
    for c in t:
        g *= gamma(c)
    return g


def phi(t, a, s):
    """vector of elementary weights Phi_i(t), i < s"""
    out = []
    for i in range(s):
        p = Fraction(1)
        for c in t:
            pc = phi(c, a, s)
            p *= sum((a[i][k] * pc[k] for k in range(s)), Fraction(0))
        out.append(p)
    return out


def tree_str(t):
    return "[" + "".join(tree_str(c) for c in t) + "]"


def z3_ground_equal(x, y):
    s = z3.Solver()
    s.add(z3.RealVal(str(x)) != z3.RealVal(str(y)))
    return s.check() == z3.unsat


def check(run):
    run.trusted += ["Butcher's theorem (order conditions <=> order) is not needed for this property (it states the conditions themselves)",
                    "assumed contract: scipy.special.factorial(i) == i! for 0 <= i <= 20"]
    run.assumptions += ["float literals of rk.py are read as the decimal written; the link to the IEEE doubles the package "
                        "really uses is a separate closed check (|float - rational| <= 1 ulp per entry)"]
    get_tableau, src1 = extract(REPO, REL, "RungeKutta.get_tableau")
    ti_coeff, src2 = extract(REPO, REL, "RungeKutta.runge_kutta_ti_coefficient")
    import ast as _ast
    modsrc = open(f"{REPO}/{REL}").read()
    mtree = _ast.parse(modsrc)
    method_list = None
    for n in mtree.body:
        if isinstance(n, _ast.Assign) and getattr(n.targets[0], "id", None) == "method_list":
            method_list = _ast.literal_eval(n.value)
    if not method_list:
        run.crash("method_list literal not found in rk.py")
        return
    fn = "RungeKutta.get_tableau"
    n_cond = 0
    for m in method_list:
        self_ = SimpleNamespace(method=m)
        try:
            (a, b, c), stage, order_t = get_tableau(self_)
        except Exception as e:
            run.oblig(f"exec:{fn}:{m}", fn, "A(exact-exec)", "undecided", detail=f"exact execution failed: {e!r}")
            continue
        a = [[Fraction(x) for x in row] for row in a.tolist()]
        b = [[Fraction(x) for x in row] for row in b.tolist()]
        c = [Fraction(x) for x in c.tolist()]
        s = stage

        def ob(oid, ok, what, fields=None):
            run.oblig(oid, fn, "A(exact-exec)", "discharged" if ok else "violated", "z3-5.1(api)+fractions")
            if not ok:
                f = {"method": m}
                f.update(fields or {})
                run.violation(oid, fn, what, fields=f, engine="A(exact-exec)",
                              replay={"method": m, "check": what, "replay": "python: RungeKutta(%r).tableau vs the order condition" % m,
                                      "native": native_replay(m, fields)})
        ob(f"post:get_tableau:shape:{m}", len(a) == s and all(len(r) == s for r in a) and all(len(r) == s for r in b)
           and len(c) == s and len(b) == len(order_t), f"{m}: stage/order inconsistent with the shapes of a, b, c")
        ob(f"post:get_tableau:strictly_lower_triangular:{m}", all(a[i][j] == 0 for i in range(s) for j in range(i, s)),
           f"{m}: a is not strictly lower triangular (method would be implicit)")
        for i in range(s):
            rs = sum(a[i], Fraction(0))
            ob(f"post:get_tableau:row_sum:{m}:c[{i}]", rs == c[i] and z3_ground_equal(rs, c[i]),
               f"{m}: c[{i}]={c[i]} differs from the row sum {rs}", {"row": i})
        for r, p in enumerate(order_t):
            for n in range(1, p + 1):
                for t in trees_of_order(n):
                    lhs = sum((b[r][i] * ph for i, ph in enumerate(phi(t, a, s))), Fraction(0))
                    rhs = Fraction(1, gamma(t))
                    n_cond += 1
                    ok = (lhs == rhs) and z3_ground_equal(lhs, rhs)
                    ob(f"post:get_tableau:order_condition:{m}:b{r}:{tree_str(t)}", ok,
                       f"{m}: row {r} (advertised order {p}) violates the order-{n} condition of tree {tree_str(t)}: "
                       f"sum b_i Phi_i = {lhs} != 1/gamma = {rhs}", {"row": r, "tree": tree_str(t)})
            # tightness: the advertised order is not under-stated vacuously (guards the generator)
            fails = [t for t in trees_of_order(p + 1)
                     if sum((b[r][i] * ph for i, ph in enumerate(phi(t, a, s))), Fraction(0)) != Fraction(1, gamma(t))]
            if not fails and p < 5:
                run.extra.setdefault("notes", []).append(f"{m} row {r}: also satisfies all conditions of order {p + 1}")
        # derived constant-coefficient expansion == Taylor coefficients up to the advertised order
        self2 = SimpleNamespace(tableau=[np.array(a, dtype=object), np.array(b, dtype=object) if len(b) > 1 else np.array(b, dtype=object),
                                         np.array(c, dtype=object)], stage=s, order=list(order_t), method=m)
        try:
            co = ti_coeff(self2)
            co = np.asarray(co, dtype=object).reshape(len(b), s + 1)
            for r, p in enumerate(order_t):
                for k in range(0, p + 1):
                    val = Fraction(co[r][k])
                    ok = val == Fraction(1, math.factorial(k)) and z3_ground_equal(val, Fraction(1, math.factorial(k)))
                    ob(f"post:runge_kutta_ti_coefficient:taylor:{m}:b{r}:k{k}", ok,
                       f"{m}: coefficient of (f dt)^{k} is {val}, expected 1/{k}!", {"row": r, "k": k})
        except Exception as e:
            run.oblig(f"exec:runge_kutta_ti_coefficient:{m}", "RungeKutta.runge_kutta_ti_coefficient", "A(exact-exec)", "undecided",
                      detail=f"exact execution failed: {e!r}")
        # float link (closed check on the real object)
        try:
            from renormalizer.utils.rk import RungeKutta
            rk = RungeKutta(m)
            fa, fb, fc = rk.tableau
            okf = True
            for exact, fl in ((a, fa), (b, fb), ([c], [fc])):
                for er, fr in zip(exact, np.asarray(fl).reshape(len(exact), -1)):
                    for e_, f_ in zip(er, fr):
                        if abs(Fraction(float(f_)) - e_) > abs(e_) * Fraction(1, 2 ** 51):
                            okf = False
            ob(f"link:get_tableau:float_equals_rational:{m}", okf and rk.stage == s and tuple(rk.order) == tuple(order_t),
               f"{m}: runtime float tableau differs from the rational reading by more than 1 ulp")
        except Exception as e:
            run.oblig(f"link:get_tableau:float_equals_rational:{m}", fn, "B(bounded)", "undecided", detail=repr(e))
    # ---- call history on the real object: the derived expansion is a value, not shared state - asking again after the first answer was modified in place
    # (callers scale it by dt^k) still gives 1/k!
    try:
        from renormalizer.utils.rk import RungeKutta as _RK
        for m in method_list:
            oid = f"link:runge_kutta_ti_coefficient:second_call_after_the_first_result_was_changed:{m}"
            rk_ = _RK(m)
            c1 = np.asarray(rk_.runge_kutta_ti_coefficient())
            snapshot = np.array(c1, dtype=float, copy=True)
            try:
                c1 *= 0.5
            except Exception:
                pass
            c2 = np.asarray(rk_.runge_kutta_ti_coefficient(), dtype=float)
            rows = c2.reshape(len(tuple(rk_.order)), -1)
            ok = c2.shape == snapshot.shape and np.array_equal(c2, snapshot) and all(abs(rows[r][k] - 1.0 / math.factorial(k)) <= 1e-14 for r, p_ in enumerate(rk_.order) for k in range(int(p_) + 1))
            run.oblig(oid, "RungeKutta.runge_kutta_ti_coefficient", "B(bounded)", "discharged" if ok else "violated", "closed check")
            if not ok:
                run.violation(oid, "RungeKutta.runge_kutta_ti_coefficient", f"{m}: after scaling the first result in place the second call returns {c2.reshape(-1)[:6].tolist()} instead of {snapshot.reshape(-1)[:6].tolist()}",
                              fields={"method": m}, replay={"method": m, "replay": "python: rk = RungeKutta(%r); c = rk.runge_kutta_ti_coefficient(); c *= 0.5; rk.runge_kutta_ti_coefficient()" % m,
                                                             "second_call": c2.reshape(-1).tolist(), "first_call_before_scaling": snapshot.reshape(-1).tolist()})
    except Exception as e:
        run.oblig("link:runge_kutta_ti_coefficient:second_call_after_the_first_result_was_changed", "RungeKutta.runge_kutta_ti_coefficient", "B(bounded)", "undecided", detail=repr(e)[:300])
    # ---- delivery: the tableau an EvolveConfig hands to the integrators (whatever options it was built with) has the order it advertises.
    # Closed check on the float object (exact rational arithmetic on the doubles, tolerance 2^-40): a configuration that reshapes the table must keep rows and orders together.
    try:
        from renormalizer.utils.configs import EvolveConfig, EvolveMethod
        # every configuration is built FIRST and checked afterwards: the tables of objects that live side by side are independent of each other
        built = {}
        for m in method_list:
            for adaptive in (False, True):
                try:
                    built[(m, adaptive)] = EvolveConfig(EvolveMethod.prop_and_compress_tdrk, adaptive=adaptive, rk_solver=m)
                except Exception as e:
                    built[(m, adaptive)] = e
        for m in method_list:
            for adaptive in (False, True):
                oid = f"link:EvolveConfig:delivered_tableau_has_its_advertised_order:{m}:adaptive={adaptive}"
                cfg = built[(m, adaptive)]
                if isinstance(cfg, Exception):
                    run.oblig(oid, "EvolveConfig.__init__", "B(bounded)", "discharged", "closed check", detail=f"combination rejected: {type(cfg).__name__}")
                    continue
                rk = cfg.rk_config
                fa, fb, fc = rk.tableau
                fa = [[Fraction(float(x)) for x in row] for row in np.asarray(fa)]
                fb = [[Fraction(float(x)) for x in row] for row in np.asarray(fb).reshape(-1, len(fa))]
                fc = [Fraction(float(x)) for x in np.asarray(fc).reshape(-1)]
                s_ = len(fa)
                tol = Fraction(1, 2 ** 40)
                bad = None
                if len(fb) != len(tuple(rk.order)) or rk.stage != s_ or len(fc) != s_:
                    bad = f"{len(fb)} weight rows, orders {tuple(rk.order)}, stage {rk.stage}, {s_} rows of a, {len(fc)} nodes"
                else:
                    for i in range(s_):
                        if abs(sum(fa[i], Fraction(0)) - fc[i]) > tol:
                            bad = f"node c[{i}] = {float(fc[i])} is not the row sum {float(sum(fa[i], Fraction(0)))}"
                            break
                    for r, p_ in enumerate(rk.order):
                        if bad:
                            break
                        for n_ in range(1, int(p_) + 1):
                            for t in trees_of_order(n_):
                                lhs = sum((fb[r][i] * ph for i, ph in enumerate(phi(t, fa, s_))), Fraction(0))
                                if abs(lhs - Fraction(1, gamma(t))) > tol:
                                    bad = f"row {r} (advertised order {p_}) misses the order-{n_} condition of tree {tree_str(t)} by {float(lhs - Fraction(1, gamma(t))):.3e}"
                                    break
                            if bad:
                                break
                run.oblig(oid, "EvolveConfig.__init__", "B(bounded)", "discharged" if not bad else "violated", "closed check")
                if bad:
                    run.violation(oid, "EvolveConfig.__init__", f"EvolveConfig(prop_and_compress_tdrk, adaptive={adaptive}, rk_solver={m!r}).rk_config: {bad}",
                                  fields={"method": m, "adaptive": adaptive},
                                  replay={"method": m, "adaptive": adaptive, "order": [int(x) for x in rk.order], "b": [[float(x) for x in row] for row in fb],
                                          "replay": "python: EvolveConfig(EvolveMethod.prop_and_compress_tdrk, adaptive=%r, rk_solver=%r).rk_config.tableau / .order" % (adaptive, m)})
    except Exception as e:
        run.oblig("link:EvolveConfig:delivered_tableau_has_its_advertised_order", "EvolveConfig.__init__", "B(bounded)", "undecided", detail=repr(e)[:300])
    if n_cond < 90:
        run.crash(f"vacuity: only {n_cond} order conditions generated (expected 94)")
    run.extra["order_conditions_generated"] = n_cond

    # ---- symbolic stage-polynomial identity: coeff[r][k] == b_r . A^(k-1) . 1 for every strictly lower triangular tableau
    fn2 = "RungeKutta.runge_kutta_ti_coefficient"
    for s in sorted({1, 2, 3, 4, 6}):
        for nb in (1, 2):
            ti_sym, _ = extract(REPO, REL, "RungeKutta.runge_kutta_ti_coefficient", zero=z3.RealVal(0))
            A = [[z3.Real(f"a_{i}_{j}") if j < i else z3.RealVal(0) for j in range(s)] for i in range(s)]
            Bm = [[z3.Real(f"b_{r}_{i}") for i in range(s)] for r in range(nb)]
            an = np.empty((s, s), dtype=object)
            for i in range(s):
                for j in range(s):
                    an[i, j] = A[i][j]
            bn = np.empty((nb, s), dtype=object)
            for r in range(nb):
                for i in range(s):
                    bn[r, i] = Bm[r][i]
            # order deliberately smaller than the number of stages (as for the 6-stage 5th-order pairs): the expansion must depend on the tableau and the stage count only
            self3 = SimpleNamespace(tableau=[an, bn, None], stage=s, order=[max(1, s - 1)] * nb, method="generic")
            try:
                co = ti_sym(self3)
            except Exception as e:
                run.oblig(f"exec:{fn2}:symbolic:s{s}", fn2, "A(exact-exec)", "undecided", detail=repr(e))
                continue
            co = np.asarray(co, dtype=object).reshape(nb, s + 1)
            # spec: v_1 = 1 (vector), v_{k+1} = A v_k ; coeff_k = b . v_k
            v = [z3.RealVal(1)] * s
            for k in range(0, s + 1):
                for r in range(nb):
                    if k == 0:
                        spec = z3.RealVal(1)
                    else:
                        spec = z3.Sum([Bm[r][i] * v[i] for i in range(s)])
                    sol = z3.Solver()
                    sol.set("timeout", 20000)
                    got = co[r][k]
                    got = got if isinstance(got, z3.ExprRef) else z3.RealVal(str(got))
                    sol.add(got != spec)
                    res = sol.check()
                    oid = f"post:runge_kutta_ti_coefficient:stage_polynomial:s{s}:rows{nb}:b{r}:k{k}"
                    if res == z3.unsat:
                        run.oblig(oid, fn2, "A(exact-exec)", "discharged", "z3-5.1(api) NRA")
                    elif res == z3.sat:
                        run.oblig(oid, fn2, "A(exact-exec)", "violated", "z3-5.1(api) NRA")
                        mdl = sol.model()
                        run.violation(oid, fn2, f"coeff[{r}][{k}] is not b.A^{k - 1}.1 for a symbolic {s}-stage tableau",
                                      fields={"stages": s, "k": k}, engine="A(exact-exec)", no_input=True,
                                      replay={"model": str(mdl)[:1500], "obligation": oid})
                    else:
                        run.oblig(oid, fn2, "A(exact-exec)", "undecided", "z3-5.1(api) NRA", detail="unknown")
                if k >= 1:
                    v = [z3.Sum([A[i][j] * v[j] for j in range(s)]) if s > 0 else z3.RealVal(0) for i in range(s)]

    # ---- Taylor propagator coefficients
    fn3 = "TaylorExpansion.__init__"
    init, _ = extract(REPO, REL, "TaylorExpansion.__init__", extra_globals={"factorial": lambda i: Fraction(math.factorial(int(i)))})
    # (a) for every order at once: contract on the real __init__ (pyvc); `factorial` is the uninterpreted spec function k! (math.factorial trusted)
    try:
        from vk.pyvc import run as R
        from vk.pyvc.engine import Contract
        tc = Contract("TaylorExpansion.__init__", {"self": "rec:TaylorExpansion", "order": "int"}, requires=["order >= 0"],
                      records={"TaylorExpansion": {"order": "int", "coeff": "list[real]"}}, consts=["np"], modifies=["self"],
                      ensures=[("order_stored", "self.order == order"),
                               ("one_coefficient_per_power", "len(self.coeff) == order + 1"),
                               ("coefficient_is_reciprocal_factorial", "all(self.coeff[k] == 1.0 / factorial(k) for k in range(order + 1))")],
                      notes="for all orders; math.factorial is the spec function (trusted), np.array(list) keeps the entries (float rounding of each entry is the "
                            "bounded link clause below)")
        tc.ufuncs = {"factorial": (("int",), "real")}
        R.verify(run, REL, tc, fingerprint=None)
    except Exception as e:
        run.oblig("extract:TaylorExpansion.__init__", fn3, "A(pyvc)", "undecided", detail=repr(e)[:300])
    # (b) ground instances: exact execution (orders 0..12) and the float object actually built (orders up to 64 quick / 170 thorough, where 1/k! leaves
    #     the range in which an int64 or float intermediate could still be exact)
    top = 170 if run.tier == "thorough" else 64
    for order_ in range(0, top + 1):
        if order_ > 12 and order_ % 4 and order_ != top:
            continue
        o = SimpleNamespace()
        try:
            init(o, order_)
            ok = o.order == order_ and len(o.coeff) == order_ + 1 and all(Fraction(o.coeff[k]) == Fraction(1, math.factorial(k)) for k in range(order_ + 1))
        except Exception as e:
            run.oblig(f"post:TaylorExpansion:coeff:{order_}", fn3, "A(exact-exec)", "undecided", detail=repr(e))
            ok = None
        if ok is not None:
            run.oblig(f"post:TaylorExpansion:coeff:{order_}", fn3, "A(exact-exec)", "discharged" if ok else "violated", "fractions")
        if ok is False:
            run.violation(f"post:TaylorExpansion:coeff:{order_}", fn3, f"TaylorExpansion({order_}).coeff != 1/k!", fields={"order": order_},
                          replay={"order": order_, "coeff": [str(x) for x in o.coeff]}, engine="A(exact-exec)")
        try:
            from renormalizer.utils.rk import TaylorExpansion
            te = TaylorExpansion(order_)
            # k! is an exact double up to 22!; beyond that the library's factorial is a floating-point gamma evaluation (a few ulp): 2 ulp / 16 ulp
            okf = len(te.coeff) == order_ + 1 and all(abs(Fraction(float(te.coeff[k])) - Fraction(1, math.factorial(k))) <= Fraction(1, 2 ** (51 if k <= 22 else 48) * math.factorial(k))
                                                       for k in range(order_ + 1))
            run.oblig(f"link:TaylorExpansion:float:{order_}", fn3, "B(bounded)", "discharged" if okf else "violated", "closed check")
            if not okf:
                run.violation(f"link:TaylorExpansion:float:{order_}", fn3, "runtime TaylorExpansion.coeff differs from 1/k!", fields={"order": order_},
                              replay={"order": order_, "coeff": [float(x) for x in te.coeff]})
        except Exception as e:
            run.oblig(f"link:TaylorExpansion:float:{order_}", fn3, "B(bounded)", "undecided", detail=repr(e))
    run.sample({"method": "Cash-Karp45", "row": 0, "tree": "[[[]][]]", "condition": "sum_i b_i Phi_i(t) = 1/gamma(t)"})
    run.sample({"obligation": "post:runge_kutta_ti_coefficient:stage_polynomial:s6:rows2:b1:k5", "meaning": "coeff = b.A^4.1 for all tableaux"})
    run.explanation = ("get_tableau is executed from the current source once per method name with exact rational arithmetic; all rooted-tree "
                       "order conditions up to the advertised order of each row, the row-sum condition and strict lower triangularity are ground "
                       "obligations; runge_kutta_ti_coefficient is executed on a fully symbolic tableau and equals b.A^(k-1).1 (polynomial identity, z3 NRA).")
    run.exhaustive = True
    run.vacuity_min_obligs = 150


def native_replay(m, fields):
    """recompute the failing condition from the real floating-point object"""
    try:
        from renormalizer.utils.rk import RungeKutta
        rk = RungeKutta(m)
        a, b, c = rk.tableau
        return {"a": a.tolist(), "b": b.tolist(), "c": c.tolist(), "order": list(rk.order), "row_sums": a.sum(axis=1).tolist()}
    except Exception as e:
        return repr(e)
