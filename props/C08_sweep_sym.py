"""Engine S part of C08: a DMRG sweep poses exactly the projected eigenproblems of the variational principle (call by contract at the local eigensolver).

`renormalizer.mps.gs.eigh_direct` (the dense local eigensolver; the Davidson path takes the same matrix as a matrix-free product, decided in props/C08_sym.py) is
replaced by a recording stub: it evaluates the real `get_ham_direct` on the arguments the sweep hands over, records the matrix together with the tensors the state
holds at that moment, and returns an ARBITRARY eigenvector (fresh indeterminates on the symmetry-allowed entries) with a distinct energy.  The real `single_sweep`
then runs end to end on symbolic tensors in kernel-stub mode (renormalised-basis update with exact trivial factorisations, limit above every block).  Obligations,
all exact polynomial identities (for every state of the shape, every environment content and every vector the eigensolver may return):

  schedule      the k-th local problem is the k-th site (1site) / pair of sites (2site) of the sweep, in sweep order, one problem each;
  matrix        the matrix handed to the eigensolver equals J^H H J (with a target omega: J^H (H - omega)^2 J), J the frame map (local tensor -> dense vector)
                contracted independently from the tensors held at that moment - i.e. the environments the sweep passes are those of the CURRENT state;
  continuity    problem k+1 is posed in the state that the update with the k-th eigenvector produced (the renormalised-basis update loses nothing);
  result        the reported energies are the eigensolver's, in sweep order; the state handed back is the one updated with the eigenvector of the site the
                caller asked for (`last_opt_e_idx`); after the sweep the direction is switched.

Several roots (state-averaged sweeps): the stub returns min(nroots, dimension) arbitrary vectors; the matrix clause is owed at every problem in the common frames the
state-averaged update leaves, and one state per root is handed back for the requested site, each carrying its own eigenvector.  Which root the working state keeps at
its centre and the guesses the update hands to the iterative solver do not enter the property and are not constrained.

Together with the variational theorem (cited), orthonormal frames (C04/C18) and the eigensolver contracts (bounded, C18) this gives: every reported energy is a
Rayleigh quotient of H in the sector, and the returned state is the state with that energy."""
import numpy as np

from vk.specs import chain as S
from vk.specs import universe as U
from vk.specs import dyn as Dn
from vk.symx import shims as SH
from vk.symx.harness import decide, decide_true, native_pass
from vk.symx.poly import Poly, VarFactory
from props.C09_tdvp_sym import conj_arr, unit_vec, _obj, dense_of


class SweepRecorder:
    def __init__(self, vf, real=None, nroots=1):
        self.vf, self.real, self.calls, self.nroots = vf, real, [], nroots
        self.updates = []        # state-averaged: what the renormalised-basis update of the working state returned (one tensor per root) and the tensors it left

    @property
    def sym(self):
        return self.real is None

    def eigh_direct(self, mps, qn_mask, ltensor, rtensor, cmo, omega):
        import renormalizer.mps.gs as gs
        if isinstance(ltensor, list):
            # StackedMpo: one environment pair and one centre operator per summand; the local matrix is the sum (what the real eigh_direct builds)
            ham = sum(gs.get_ham_direct(mps, qn_mask, l_, r_, c_, omega) for l_, r_, c_ in zip(ltensor, rtensor, cmo))
            nparts = (len(ltensor), len(rtensor), len(cmo))
        else:
            ham = gs.get_ham_direct(mps, qn_mask, ltensor, rtensor, cmo, omega)
            nparts = None
        snap = {"tensors": [(_obj(mps[i]) if self.sym else np.asarray(mps[i].array)).copy() for i in range(len(mps))], "coeff": mps.coeff,
                "qnidx": int(mps.qnidx), "to_right": bool(mps.to_right)}
        k = len(self.calls)
        nvar = int(np.sum(qn_mask))
        if self.sym and self.nroots == 1:
            c = np.array([self.vf.fresh() for _ in range(nvar)], dtype=object)
            e = float(k + 1) / 8.0
        elif self.sym:
            # several roots: as many vectors as the local space has (the real solver returns min(nroots, dimension)), energies as an array
            m = min(self.nroots, nvar)
            c = [np.array([self.vf.fresh() for _ in range(nvar)], dtype=object) for _ in range(m)]
            e = np.array([float(k + 1) / 8.0 + j / 64.0 for j in range(m)])
        else:
            e, c = self.real(mps, qn_mask, ltensor, rtensor, cmo, omega)
        if self.nroots == 1:
            cc = np.asarray(c, dtype=object if self.sym else None).copy()
        else:
            cc = [np.asarray(x, dtype=object if self.sym else None).copy() for x in c]
        self.calls.append({"ham": np.asarray(ham, dtype=object if self.sym else complex), "mask": np.asarray(qn_mask).copy(), "snap": snap,
                           "e": e if self.nroots == 1 else [float(x) for x in np.asarray(e).reshape(-1)], "c": cc, "nparts": nparts})
        return e, c


def schedule(n, to_right, method):
    if method == "1site":
        return [[i] for i in (range(n) if to_right else range(n - 1, -1, -1))]
    return [[i, i + 1] for i in range(n - 1)] if to_right else [[i - 1, i] for i in range(n - 1, 0, -1)]


def place(T, cidx, loc, sym):
    T = list(T)
    if len(cidx) == 1:
        T[cidx[0]] = loc
        return T
    l, s1, s2, r = loc.shape
    eye = np.empty((s2 * r, s2, r), dtype=object if sym else complex)
    eye.fill(Poly() if sym else 0.0)
    for a in range(s2):
        for b in range(r):
            eye[a * r + b, a, b] = Poly.const(1) if sym else 1.0
    T[cidx[0]], T[cidx[1]] = loc.reshape(l, s1, s2 * r), eye
    return T


def frame(template, snap, cidx, mask, sym):
    """columns: dense vector with the local tensor replaced by a unit tensor at every symmetry-allowed position (the eigensolver's unknowns, in mask order)"""
    cols = []
    shp = mask.shape
    for idx in zip(*np.nonzero(mask)):
        e = np.empty(shp, dtype=object if sym else complex)
        e.fill(Poly() if sym else 0.0)
        e[idx] = Poly.const(1) if sym else 1.0
        cols.append(dense_of(template, place(snap["tensors"], cidx, e, sym), snap["coeff"]))
    return np.array(cols, dtype=object if sym else complex).T


def execute(x, Hobj, method, omega, last_idx, rec, nroots=1):
    """the real single_sweep with the local eigensolver replaced by the recorder; environments as optimize_mps builds them"""
    import renormalizer.mps.gs as gs
    from renormalizer.mps.lib import Environ
    from renormalizer.mps import Mpo
    from renormalizer.utils import CompressConfig, CompressCriteria
    import renormalizer.mps.mp as mp_mod
    saved = gs.eigh_direct
    gs.eigh_direct = rec.eigh_direct
    orig_update = mp_mod.MatrixProduct._update_mps

    def spy(self, cstruct, cidx, qnbigl, qnbigr, percent=0):
        out = orig_update(self, cstruct, cidx, qnbigl, qnbigr, percent)
        if self is x and type(cstruct) is list:
            rec.updates.append({"avg": [(_obj(t) if rec.sym else np.asarray(getattr(t, "array", t))).copy() for t in out],
                                "tensors": [(_obj(self[i]) if rec.sym else np.asarray(self[i].array)).copy() for i in range(len(self))],
                                "coeff": self.coeff, "qnidx": int(self.qnidx)})
        return out
    mp_mod.MatrixProduct._update_mps = spy
    try:
        x.optimize_config.method = method
        x.optimize_config.nroots = nroots
        x.optimize_config.algo = "direct"
        x.compress_config = CompressConfig(CompressCriteria.fixed, max_bonddim=10 ** 4)
        env = "R" if x.to_right else "L"
        if isinstance(Hobj, list):
            from renormalizer.mps import StackedMpo
            Hw = StackedMpo(Hobj)
            environ = [Environ(x, item, env) for item in Hobj]
        elif omega is not None:
            ident = Mpo.identity(Hobj.model)
            if rec.sym:
                ident = SH.numeric_to_symbolic_const(ident)
            Hw = Hobj.add(ident.scale(-omega))
            environ = Environ(x, [Hw, Hw], env)
        else:
            Hw = Hobj
            environ = Environ(x, Hobj, env)
        micro, res, _ = gs.single_sweep(x, Hw, environ, omega, 0, last_idx)
        return micro, res, x
    finally:
        gs.eigh_direct = saved
        mp_mod.MatrixProduct._update_mps = orig_update


def clauses(rec, sched, template, Hop, va, micro, res, work, last_idx, to_right0, sym, nroots=1):
    cj = conj_arr if sym else np.conj
    yield ("schedule_one_problem_per_site_in_sweep_order", "", len(rec.calls), len(sched), f"{len(rec.calls)} local eigenproblems posed, the sweep has {len(sched)}")
    prev_after, complete = va, True
    for k, (c, cidx) in enumerate(zip(rec.calls, sched)):
        ctag = f":problem{k}:sites{cidx}"
        T = c["snap"]["tensors"]
        want_shape = tuple(T[cidx[0]].shape) if len(cidx) == 1 else tuple(T[cidx[0]].shape[:-1]) + tuple(T[cidx[1]].shape[1:])
        if tuple(c["mask"].shape) != want_shape:
            yield ("local_space", ctag, 0, 1, f"problem {k} lives on a tensor of shape {tuple(c['mask'].shape)}, sites {cidx} of the state held at that moment have {want_shape}")
            complete = False
            break
        J = frame(template, c["snap"], cidx, c["mask"], sym)
        if not sym:
            yield ("frames_are_orthonormal", ctag, cj(J).T.dot(J), np.eye(J.shape[1]) * abs(c["snap"]["coeff"]) ** 2, None)
        yield ("matrix_is_the_hamiltonian_projected_on_the_current_frames", ctag, c["ham"], cj(J).T.dot(Hop.dot(J)), None)
        if not sym and nroots == 1:
            # with the real solver: what it hands back is an eigenpair of that matrix (for a StackedMpo: of the SUM over the stacked operators)
            hm = np.asarray(c["ham"], dtype=complex)
            yield ("returned_vector_is_an_eigenpair_of_the_local_matrix", ctag, hm.dot(c["c"]), complex(c["e"]) * np.asarray(c["c"]), None)
        # the state in which the problem is posed: the tensors held at that moment (their own centre values)
        if nroots == 1:
            yield ("posed_in_the_state_the_previous_update_produced", ctag, dense_of(template, T, c["snap"]["coeff"]), prev_after, None)
        if nroots == 1:
            prev_after = J.dot(c["c"])
            if last_idx is not None and cidx == last_idx:
                yield ("returned_state_carries_the_eigenvector_of_the_requested_site", ctag, S.dense(res) if res is not None else None, prev_after, None)
        else:
            # several roots: the working state only carries the common frames (which root sits at its centre, and the guesses the update hands back, steer the
            # iterative solver but not the property); what is owed is the matrix clause above in those frames and one returned state per root
            prev_after = None
            if last_idx is not None and cidx == last_idx:
                if not isinstance(res, list) or len(res) != len(c["c"]):
                    yield ("one_returned_state_per_root", ctag, 0, 1, f"returned {type(res).__name__} of length {len(res) if isinstance(res, list) else '-'} for {len(c['c'])} roots")
                else:
                    for i, ci in enumerate(c["c"]):
                        yield ("returned_state_carries_the_eigenvector_of_the_requested_site", f"{ctag}:root{i}", S.dense(res[i]), J.dot(ci), None)
    if complete and len(rec.calls) == len(sched):
        fl = (lambda e: float(e)) if nroots == 1 else (lambda e: [float(x) for x in e])
        yield ("energies_are_the_eigensolvers_in_sweep_order", "", [(fl(e), list(ci)) for e, ci in micro], [(fl(c["e"]), list(ci)) for c, ci in zip(rec.calls, sched)],
               f"reported {[(e, ci) for e, ci in micro]}")
        if nroots == 1:
            yield ("state_after_the_sweep_is_the_last_update", "", S.dense(work), prev_after, None)
        yield ("direction_switched", "", bool(work.to_right), (not to_right0), f"to_right after the sweep: {work.to_right}")


def native_replay(t0, H, method, omega, last_idx, seed, nroots=1):
    def go():
        import renormalizer.mps.gs as gs
        from renormalizer.mps import Mpo
        rng = np.random.default_rng(seed)
        # several roots: real data (the state-averaged update rotates with the transposed basis, gs.py / mp.py use no conjugate there: real Hamiltonians only)
        atc = S.complexify(t0, rng) if nroots == 1 else t0.copy()
        atc.canonicalise().canonicalise()       # optimize_mps hands single_sweep a canonical state with the centre at the start of the sweep
        Hn = sum(S.dense(h) for h in H) if isinstance(H, list) else S.dense(H)
        Hop = Hn if omega is None else (Hn - omega * np.eye(Hn.shape[0])) @ (Hn - omega * np.eye(Hn.shape[0]))
        rec = SweepRecorder(None, real=gs.eigh_direct, nroots=nroots)
        try:
            micro, res, work = execute(atc.copy(), [h.copy() for h in H] if isinstance(H, list) else H.copy(), method, omega, last_idx, rec, nroots)
        except Exception as e:
            return True, {"raised": repr(e)}
        failed = []
        scale = max(1.0, float(np.abs(Hop).max()))
        for cl, ctag, lhs, rhs, msg in clauses(rec, schedule(len(t0), bool(t0.to_right), method), atc.to_complex(), Hop, S.dense(atc), micro, res, work, last_idx, bool(t0.to_right), False, nroots):
            if msg is not None:
                if lhs != rhs:
                    failed.append({"clause": cl + ctag, "what": msg})
                continue
            if lhs is None:
                failed.append({"clause": cl + ctag, "what": "no state returned"})
                continue
            err = float(np.abs(np.asarray(lhs) - np.asarray(rhs)).max())
            if err > 1e-8 * scale:
                failed.append({"clause": cl + ctag, "max_abs_difference": err})
        return bool(failed), {"how": "props.C08_sweep_sym.native_replay: same model / state with random phases, real single_sweep with the real LAPACK kernels, every local "
                                     "eigenproblem recorded and compared with J^H H J from the dense Hamiltonian", "failed_clauses": failed[:6]}
    return go


def prove(run):
    from renormalizer.mps import Mpo
    shapes = [("spinqn", 3), ("holstein", 3), ("spinqn-flux", 3)] if run.tier == "quick" else [("spinqn", 3), ("spinqn", 4), ("holstein", 3), ("spin2qn", 3), ("spin", 3), ("spinqn", 2), ("spinqn-flux", 3), ("holstein-flux", 3)]
    ncase = ncalls = 0
    for name, n in shapes:
        rng = np.random.default_rng([run.seed, n, 551, sum(map(ord, name))])
        model, terms, sectors = Dn.hamiltonian(name, n, rng)
        H = Mpo(model, terms)
        q = sectors[len(sectors) // 2]
        a0 = U.make_state(model, q, 2, rng)
        if a0 is None:
            continue
        starts = [("right-going", a0)]
        b0 = a0.copy()
        b0.canonicalise()
        if b0.to_right != a0.to_right:
            starts.append(("left-going", b0))
        for sname, t0 in starts:
            for method in ("1site", "2site"):
                if method == "2site" and n < 2:
                    continue
                sched0 = schedule(n, bool(t0.to_right), method)
                combos = [(om, li, 1, False) for om in (None, 0.3) for li in (None, sched0[len(sched0) // 2], sched0[-1]) if not (om is not None and li is sched0[-1])]
                # the Hamiltonian as a StackedMpo (terms dealt round-robin into operators that need not be Hermitian one by one): one environment per summand
                combos += [(None, sched0[len(sched0) // 2], 1, True)]
                if not name.endswith("-flux"):
                    # state-averaged sweeps (several roots): real Hamiltonians (the averaged-basis rotation is written without conjugates)
                    combos += [(None, sched0[len(sched0) // 2], 2, False)] + ([(None, sched0[-1], 3, False), (0.3, None, 2, False), (None, None, 2, True)] if run.tier != "quick" else [])
                for omega, last_idx, nroots, stacked in combos:
                    if True:
                        ncase += 1
                        vf = VarFactory()
                        a = SH.symbolic_state(t0, vf)
                        tag = f"{method}@{name}{n}:{sname}:{'omega' if omega is not None else 'H'}:last={last_idx}" + (f":roots{nroots}" if nroots > 1 else "") + (":stacked" if stacked else "")
                        case = {"model": name, "nsites": n, "start": sname, "method": method, "omega": omega, "last_opt_e_idx": last_idx, "nroots": nroots, "stacked": stacked}
                        fn = "gs.single_sweep"
                        vf2 = VarFactory()
                        vf2.n = 50000
                        rec = SweepRecorder(vf2, nroots=nroots)
                        Hparts = [Mpo(model, terms[i::2]) for i in range(2) if terms[i::2]] if stacked else None
                        replay = native_replay(t0, Hparts if stacked else H, method, omega, last_idx, [run.seed, n, 23], nroots)
                        with SH.kernel_stub_mode():
                            if stacked:
                                Hs = [SH.numeric_to_symbolic_const(h) for h in Hparts]
                                Hd, va = sum(S.dense(h) for h in Hs), S.dense(a)
                            else:
                                Hs = SH.numeric_to_symbolic_const(H)
                                Hd, va = S.dense(Hs), S.dense(a)
                            if omega is None:
                                Hop = Hd
                            else:
                                shift = Hd - np.array([[Poly.const(omega) if i == j else Poly() for j in range(Hd.shape[0])] for i in range(Hd.shape[0])], dtype=object)
                                Hop = shift.dot(shift)
                            try:
                                micro, res, work = execute(a.copy(), Hs, method, omega, last_idx, rec, nroots)
                            except Exception as e:
                                decide_true(run, f"post:{fn}:total[{tag}]", fn, False, f"raised on symbolic tensors: {type(e).__name__}: {e}", case, numeric_replay=replay)
                                continue
                            ncalls += len(rec.calls)
                            for cl, ctag, lhs, rhs, msg in clauses(rec, sched0, a, Hop, va, micro, res, work, last_idx, bool(t0.to_right), True, nroots):
                                pre = "pre:local_eigensolver" if cl.startswith(("matrix_", "posed_", "schedule_", "local_space")) else ("post:_update_mps" if cl.startswith(("root_kept", "one_guess", "one_basis")) else "post:" + fn)
                                oid = f"{pre}:{cl}[{tag}{ctag}]"
                                if msg is not None:
                                    decide_true(run, oid, fn, lhs == rhs, msg, case, fields={"method": method, "nroots": nroots}, numeric_replay=replay)
                                elif lhs is None:
                                    decide_true(run, oid, fn, False, "no state was handed back for the requested site", case, fields={"method": method, "nroots": nroots}, numeric_replay=replay)
                                else:
                                    decide(run, oid, fn, lhs, rhs, case, fields={"method": method, "nroots": nroots}, numeric_replay=replay)
                            decide(run, f"frame:{fn}:hamiltonian[{tag}]", fn, sum(S.dense(h) for h in Hs) if stacked else S.dense(Hs), Hd, case)
                            if stacked:
                                np_ = [c["nparts"] for c in rec.calls]
                                decide_true(run, f"pre:local_eigensolver:one_environment_pair_and_centre_operator_per_stacked_operator[{tag}]", fn,
                                            all(x == (len(Hs),) * 3 for x in np_), f"environment / operator counts per problem {np_[:3]}, the StackedMpo has {len(Hs)} operators", case)
                        native_pass(run, f"rtc:{fn}:local_problems_with_the_real_kernels_incl_orthonormal_frames", fn, replay, (tag,), case)
    run.extra.setdefault("symx", {})["C08_sweep"] = {"sweep_cases": ncase, "local_problems": ncalls, "kernel_stubs": SH.KERNEL_STUBS, "shims": SH.SHIMS,
                                                     "local_eigensolver_stub": "gs.eigh_direct evaluates the real get_ham_direct on the sweep's arguments, records matrix / mask / tensors of "
                                                                               "the state, and returns fresh indeterminates on the allowed entries with energy (k+1)/8"}
    if ncase == 0:
        run.crash("C08_sweep_sym: no case generated")
