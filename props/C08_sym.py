"""Engine S part of C08: the matrix the optimiser diagonalises IS the Hamiltonian projected onto the local tensor, for all environments.

For symbolic chain states (any tensors: the identity does not need canonical form) and the exactly lifted MPO, at every site (1-site) and every pair of neighbouring
sites (2-site): the environments built by the real Environ.GetLR and the real get_ham_direct give a matrix `ham` with
        ham[i, j]  ==  < d psi / d c_i | H | d psi / d c_j >          (c = the symmetry-allowed entries of the optimised tensor(s)),
as polynomials in the entries of all other tensors; with the shift target omega the matrix is the same projection of H^2; the diagonal used as preconditioner by the
iterative solver (get_ham_iterative) is the diagonal of that matrix and its matrix-free product equals ham @ c.  Together with the variational theorem (cited) and
orthonormal environments (C04) this gives "every reported energy is a Rayleigh quotient of H in the sector".  The eigensolvers themselves are numeric (bounded part)."""
import numpy as np

from vk.specs import chain as S
from vk.specs import universe as U
from vk.specs import dyn as Dn
from vk.symx import shims as SH
from vk.symx.harness import decide, decide_true, native_pair
from vk.symx.poly import Poly, VarFactory


def conj_arr(x):
    return np.vectorize(lambda v: Poly.coerce(v).conjugate(), otypes=[object])(x)


def local_jacobian(a, cidx, qn_mask, symbolic=True):
    """columns: dense vector with the tensor(s) at cidx replaced by a unit tensor at each allowed position (linear in the local tensor)"""
    keeps = [np.asarray(a[i].array).copy() for i in cidx]
    shape = qn_mask.shape
    cols = []
    for idx in zip(*np.nonzero(qn_mask)):
        if symbolic:
            e = np.empty(shape, dtype=object)
            e.fill(Poly())
            e[idx] = Poly.const(1)
        else:
            e = np.zeros(shape, dtype=complex)
            e[idx] = 1.0
        if len(cidx) == 1:
            a[cidx[0]] = e
        else:
            # two-site tensor (l, s1, s2, r) with a single non-zero entry factorises exactly: put it into an auxiliary bond of dimension one
            l, s1, s2, r = idx if len(shape) == 4 else (None,) * 4
            e1 = np.empty(shape[:2] + (1,), dtype=object if symbolic else complex)
            e2 = np.empty((1,) + shape[2:], dtype=object if symbolic else complex)
            e1.fill(Poly() if symbolic else 0.0)
            e2.fill(Poly() if symbolic else 0.0)
            e1[l, s1, 0] = Poly.const(1) if symbolic else 1.0
            e2[0, s2, r] = Poly.const(1) if symbolic else 1.0
            a[cidx[0]], a[cidx[1]] = e1, e2
        cols.append(S.dense(a))
    for i, k in zip(cidx, keeps):
        a[i] = k
    return np.array(cols, dtype=object if symbolic else complex).T


def prove(run):
    from renormalizer.mps import Mpo, gs
    from renormalizer.mps.lib import Environ
    from renormalizer.mps.svd_qn import get_qn_mask
    # "-flux": complex Hermitian Hamiltonians (complex hopping amplitudes): transposed and conjugated contractions differ
    shapes = [("spinqn", 3), ("holstein", 3), ("spinqn-flux", 3)] if run.tier == "quick" else [("spinqn", 3), ("spinqn", 4), ("holstein", 3), ("holstein", 4), ("spin2qn", 3), ("spin", 3), ("spinqn-flux", 3), ("holstein-flux", 3), ("spinqn-flux", 4)]
    ncase = 0
    for name, n in shapes:
        rng = np.random.default_rng([run.seed, n, 881, sum(map(ord, name))])
        model, terms, sectors = Dn.hamiltonian(name, n, rng)
        H = Mpo(model, terms)
        Hn = S.dense(H)
        for q in (sectors[1:3] if len(sectors) > 2 else sectors[:1]):
            a0 = U.make_state(model, q, 2, rng)
            if a0 is None:
                continue
            for method in ("1site", "2site"):
                sites = [[i] for i in range(n)] if method == "1site" else [[i, i + 1] for i in range(n - 1)]
                for cidx in sites:
                    for omega in (None, 0.3):
                        ncase += 1
                        vf = VarFactory()
                        a = SH.symbolic_state(a0, vf)
                        atc = S.complexify(a0, rng)
                        tag = f"{name}{n}:q{q}:{method}:{cidx}:{'omega' if omega is not None else 'H'}"
                        case = {"model": name, "nsites": n, "sector": q, "method": method, "sites": cidx, "omega": omega}

                        def build(x, hh, symbolic):
                            x.optimize_config.method = method
                            x.move_qnidx(cidx[0])
                            op = hh if omega is None else [hh, hh]
                            environ = Environ(x, op, "R")
                            for k_ in range(cidx[0] - 1):       # the left environments are built site by site as in a left-to-right sweep
                                environ.GetLR("L", k_, x, op, itensor=None, method="System")
                            lt = environ.GetLR("L", cidx[0] - 1, x, op, itensor=None, method="System")
                            rt = environ.GetLR("R", cidx[-1] + 1, x, op, itensor=None, method="Enviro")
                            _, _, qnmat = x._get_big_qn(cidx)
                            mask = get_qn_mask(qnmat, x.qntot)
                            cmo = [np.asarray(hh[i].array) for i in cidx]
                            ham = gs.get_ham_direct(x, mask, np.asarray(lt), np.asarray(rt), cmo, omega)
                            return np.asarray(ham), mask, lt, rt, cmo

                        def native():
                            ham, mask, _, _, _ = build(atc.copy(), H, False)
                            y = atc.copy()
                            y.move_qnidx(cidx[0])
                            J = local_jacobian(y, cidx, mask, symbolic=False)
                            Hop = Hn if omega is None else Hn @ Hn
                            return ham, J.conj().T @ Hop @ J
                        how = "props.C08_sym: same model / state with random phases; real Environ.GetLR + get_ham_direct on floats vs J^H H J from the dense Hamiltonian"
                        with SH.symbolic_mode():
                            Hs = SH.numeric_to_symbolic_const(H)
                            Hd = S.dense(Hs)
                            try:
                                ham, mask, lt, rt, cmo = build(a, Hs, True)
                                J = local_jacobian(a, cidx, mask)
                            except Exception as e:
                                decide_true(run, f"post:get_ham_direct:total[{tag}]", "get_ham_direct", False, f"raised on symbolic tensors: {type(e).__name__}: {e}", case)
                                continue
                            Hop = Hd if omega is None else Hd.dot(Hd)
                            ref = conj_arr(J).T.dot(Hop.dot(J))
                            decide(run, f"post:get_ham_direct:is_the_projected_hamiltonian[{tag}]", "get_ham_direct", np.asarray(ham, dtype=object), ref, case,
                                   numeric_replay=native_pair(native, how), fields={"method": method, "omega": omega is not None})
                            # the iterative path: preconditioner diagonal and matrix-free product
                            try:
                                a.optimize_config.method = method
                                hdiag, expr = gs.get_ham_iterative(a, mask, np.asarray(lt), np.asarray(rt), cmo, omega)
                                decide(run, f"post:get_ham_iterative:diagonal[{tag}]", "get_ham_iterative", np.asarray(hdiag, dtype=object), np.array([ref[i, i] for i in range(ref.shape[0])], dtype=object), case)
                                # the matrix-free product handed to Davidson / PRIMME: applied to every unit vector of the allowed entries it is the same matrix
                                nvar = int(np.sum(mask))
                                cols = []
                                for j_ in range(nvar):
                                    e_ = np.empty(nvar, dtype=object)
                                    e_.fill(Poly())
                                    e_[j_] = Poly.const(1)
                                    cst = np.empty(mask.shape, dtype=object)
                                    cst.fill(Poly())
                                    np.place(cst, mask, e_)
                                    cols.append(np.asarray(expr(cst), dtype=object)[mask])
                                decide(run, f"post:get_ham_iterative:matrix_free_product_is_the_projected_hamiltonian[{tag}]", "get_ham_iterative",
                                       np.array(cols, dtype=object).T, ref, case, fields={"method": method, "omega": omega is not None})
                            except Exception as e:
                                run.oblig(f"post:get_ham_iterative:diagonal[{tag}]", "get_ham_iterative", "S(symx)", "undecided", detail=f"not executable on symbolic tensors: {type(e).__name__}: {e}")
    run.extra.setdefault("symx", {})["C08"] = {"local_problems": ncase, "shims": SH.SHIMS}
    if ncase == 0:
        run.crash("C08_sym: no case generated")
