"""Engine S part of C09 / C10: the projector-splitting schemes (TDVP-PS, TDVP-PS2) pose exactly the local problems of the integrator.

Call by contract at the local propagator.  `expm_krylov(A, t, v)` / `solve_ivp(f, (0, T), v)` are kernels (C18 owns their accuracy); here they are replaced by a
recording stub whose result is an ARBITRARY vector (fresh indeterminates on the structural support of the Krylov space of v), so the real `_evolve_tdvp_ps` /
`_evolve_tdvp_ps2` run end to end on symbolic tensors in kernel-stub mode and every entry of every intermediate state stays a low-degree polynomial.  The
obligations are the *preconditions the scheme owes its kernel* - the definition of the Lubich-Oseledets / Haegeman projector-splitting integrator:

  schedule      the k-th call is the k-th local problem of the symmetric two-sweep composition: forward one-site (two-site) problems at the swept sites, a backward
                zero-site (one-site) problem on every bond (site) in between, none after the last site of a sweep;
  generator     the linear map handed to the kernel, as a matrix on the whole local space, equals J^H H J with J the frame map (local tensor -> dense vector)
                contracted independently from the tensors the state holds at that moment and H the exactly lifted dense Hamiltonian;
  time          the time argument is -i dt/2 (forward) resp. +i dt/2 (backward) - for solve_ivp the product  T * f  is compared;
  start vector  v is the current local tensor (forward) resp. the factor left over by the QR step (backward);
  continuity    the dense state in which call k+1 is posed equals the dense state produced by call k (gauge moves / absorption of the bond factor lose nothing),
                the first state is the input, the returned state is the one produced by the last call; the input object is unchanged.

All are exact identities of polynomials in the tensor entries and in the indeterminates returned by earlier local problems, i.e. they hold for every state of the
enumerated shape and every value the kernels may return.  With orthonormal frames (C04/C18) and exact local exponentials the composition is the cited integrator:
exact at full bond dimension, second order otherwise.  Real and imaginary time (C10), Krylov and ODE-solver form."""
import numpy as np

from vk.specs import chain as S
from vk.specs import universe as U
from vk.specs import dyn as Dn
from vk.symx import shims as SH
from vk.symx.harness import decide, decide_true, native_pass
from vk.symx.poly import Poly, VarFactory


def conj_arr(x):
    return np.vectorize(lambda v: Poly.coerce(v).conjugate(), otypes=[object])(x)


def _obj(a):
    a = getattr(a, "array", a)
    return np.asarray(a, dtype=object)


def is_zero(p):
    return bool(Poly.coerce(p) == Poly())


def unit_vec(n, j, sym):
    if sym:
        e = np.empty(n, dtype=object)
        e.fill(Poly())
        e[j] = Poly.const(1)
        return e
    e = np.zeros(n, dtype=complex)
    e[j] = 1.0
    return e


class Recorder:
    """stands in for expm_krylov / solve_ivp inside renormalizer.mps.mps; remembers the working copy handed to Environ"""

    def __init__(self, vf, real_kernels=None):
        self.vf = vf
        self.calls = []
        self.work = None
        self.real = real_kernels      # (expm_krylov, solve_ivp): numeric replay mode - the real kernels produce the local results

    @property
    def sym(self):
        return self.real is None

    def unit(self, n, j):
        return unit_vec(n, j, self.sym)

    def snapshot(self):
        w = self.work
        return {"tensors": [(_obj(w[i]) if self.sym else np.asarray(w[i].array)).copy() for i in range(len(w))], "qnidx": int(w.qnidx), "to_right": bool(w.to_right), "coeff": w.coeff}

    def _matrix(self, afun, n):
        cols = []
        for j in range(n):
            cols.append(np.asarray(_obj(afun(self.unit(n, j))) if self.sym else afun(self.unit(n, j))).ravel())
        return np.array(cols, dtype=object if self.sym else complex).T

    def _result(self, amat, v):
        # structural support of span{v, A v, A^2 v, A^3 v}: the result of the kernel lies in the Krylov space of v
        supp = np.array([not is_zero(x) for x in v])
        w = v
        for _ in range(3):
            w = amat.dot(w)
            supp |= np.array([not is_zero(x) for x in w])
        y = np.empty(len(v), dtype=object)
        for i in range(len(v)):
            y[i] = self.vf.fresh() if supp[i] else Poly()
        return y

    def expm_krylov(self, afun, dt, v, *a, **k):
        from vk.symx.harness import budget_check
        budget_check()      # safe point: between two local problems
        if not self.sym:
            v = np.asarray(getattr(v, "array", v)).ravel()
            y, j = self.real[0](afun, dt, v, *a, **k)
            self.calls.append({"form": "expm_krylov", "A": self._matrix(afun, len(v)), "t": complex(dt), "v": v.copy(), "y": np.asarray(y).ravel().copy(), "snap": self.snapshot()})
            return y, j
        v = _obj(v).ravel()
        amat = self._matrix(afun, len(v))
        y = self._result(amat, v)
        self.calls.append({"form": "expm_krylov", "A": amat, "t": complex(dt), "v": v, "y": y, "snap": self.snapshot()})
        return y, 1

    def solve_ivp(self, fun, t_span, y0, **k):
        from vk.symx.harness import budget_check
        budget_check()      # safe point: between two local problems
        if not self.sym:
            v = np.asarray(getattr(y0, "array", y0)).ravel()
            sol = self.real[1](fun, t_span, v, **k)
            self.calls.append({"form": "solve_ivp", "A": self._matrix(lambda e: fun(0.0, e), len(v)), "t": complex(t_span[1] - t_span[0]), "v": v.copy(),
                               "y": np.asarray(sol.y).ravel().copy(), "snap": self.snapshot()})
            return sol
        v = _obj(y0).ravel()
        amat = self._matrix(lambda e: fun(0.0, e), len(v))
        y = self._result(amat, v)
        self.calls.append({"form": "solve_ivp", "A": amat, "t": complex(t_span[1] - t_span[0]), "v": v, "y": y, "snap": self.snapshot()})

        class Sol:
            pass
        s = Sol()
        s.y, s.nfev = y, 1
        return s


def schedule(n, to_right, two_site):
    """the local problems of one step, in order: (kind, position); kind 'F' forward / 'B' backward.
    one-site scheme: F at site i, B on bond b (between sites b-1 and b); two-site scheme: F on the pair (i, i+1), B at site i"""
    out = []
    d = to_right
    for _sweep in range(2):
        if not two_site:
            sites = list(range(n)) if d else list(range(n - 1, -1, -1))
            for k, i in enumerate(sites):
                out.append(("F", i))
                if k != len(sites) - 1:
                    out.append(("B", i + 1 if d else i))
        else:
            pairs = [(i, i + 1) for i in range(n - 1)] if d else [(i - 1, i) for i in range(n - 1, 0, -1)]
            for k, p in enumerate(pairs):
                out.append(("F", p))
                if k != len(pairs) - 1:
                    out.append(("B", p[1] if d else p[0]))
        d = not d
    return out


def dense_of(template, tensors, coeff=1):
    x = template.metacopy()
    for i, t in enumerate(tensors):
        x._mp[i] = None
        x[i] = t
    x.coeff = coeff
    return flat(S.dense(x))


def frame(template, snap, kind, pos, two_site, local_shape, sym=True):
    """J: local unknown (raveled, full local space) -> dense vector, from the tensors of the snapshot (independent contraction in vk.specs.chain)"""
    T = [t.copy() for t in snap["tensors"]]
    n = int(np.prod(local_shape))
    cols = []
    from vk.symx.harness import budget_check
    for j in range(n):
        budget_check()
        e = unit_vec(n, j, sym).reshape(local_shape)
        cols.append(dense_of(template, place(T, kind, pos, two_site, e, sym), snap["coeff"]))
    return np.array(cols, dtype=object if sym else complex).T


def place(T, kind, pos, two_site, loc, sym=True):
    """the tensors of the chain with the local unknown `loc` put where the local problem lives"""
    T = list(T)
    if not two_site:
        if kind == "F":
            T[pos] = loc
        else:        # bond matrix between sites pos-1 and pos: absorbed into the right neighbour for the contraction
            T[pos] = np.tensordot(loc, T[pos], axes=(1, 0))
    else:
        if kind == "F":
            i, j = pos
            # a two-site tensor (l, phys_i..., phys_j..., r): split exactly through an auxiliary bond that enumerates (phys_j..., r)
            ki = T[i].ndim - 2
            left, right = tuple(loc.shape[: 1 + ki]), tuple(loc.shape[1 + ki:])
            F = int(np.prod(right))
            eye = np.empty((F,) + right, dtype=object if sym else complex)
            eye.fill(Poly() if sym else 0.0)
            for flat_i, multi in enumerate(np.ndindex(*right)):
                eye[(flat_i,) + multi] = Poly.const(1) if sym else 1.0
            T[i], T[j] = loc.reshape(left + (F,)), eye
        else:
            T[pos] = loc
    return T


def local_shape_of(snap, kind, pos, two_site, v_len):
    T = snap["tensors"]
    if not two_site:
        if kind == "F":
            return T[pos].shape
        left = T[pos - 1].shape[-1]
        return (left, v_len // left) if left and v_len % left == 0 else None
    if kind == "F":
        i, j = pos
        return (T[i].shape[0],) + tuple(T[i].shape[1:-1]) + tuple(T[j].shape[1:-1]) + (T[j].shape[-1],)
    return T[pos].shape


def execute(x, Hobj, dt, method, solver, rec):
    """the real scheme with the local propagators of renormalizer.mps.mps replaced by the recorder"""
    import renormalizer.mps.mps as mps_mod
    from renormalizer.utils import CompressConfig, CompressCriteria, EvolveConfig, EvolveMethod
    saved = (mps_mod.expm_krylov, mps_mod.solve_ivp, mps_mod.Environ)

    class EnvSpy(saved[2]):
        def __init__(self, mps, mpo, *aa, **kk):
            rec.work = mps
            super().__init__(mps, mpo, *aa, **kk)
    mps_mod.expm_krylov, mps_mod.solve_ivp, mps_mod.Environ = rec.expm_krylov, rec.solve_ivp, EnvSpy
    try:
        x.compress_config = CompressConfig(CompressCriteria.fixed, max_bonddim=10 ** 4)
        x.evolve_config = EvolveConfig(getattr(EvolveMethod, method), ivp_solver=solver)
        inner = getattr(type(x), "_evolve_" + method)
        inner = getattr(inner, "__wrapped__", inner)        # the adaptive wrapper of tdvp_ps2 is a pass-through for fixed steps
        return inner(x, Hobj, dt)
    finally:
        mps_mod.expm_krylov, mps_mod.solve_ivp, mps_mod.Environ = saved


def apply_h(Hd, J):
    """H J for frames of states (columns are vectors) and of density operators (columns are flattened D x D matrices; H acts on the physical index)"""
    D = Hd.shape[0]
    if J.shape[0] == D:
        return Hd.dot(J)
    J3 = J.reshape(D, D, J.shape[1])
    return np.tensordot(Hd, J3, axes=(1, 0)).reshape(D * D, J.shape[1])


def flat(x):
    return np.asarray(x).reshape(-1)


def clauses(rec, sched, template, Hd, va, result, dt, two_site, sym):
    """yields (clause, call tag, lhs, rhs, message-if-structural-failure) in the order of the local problems"""
    cj = conj_arr if sym else np.conj
    mul = (lambda m, c: m * Poly.const(c)) if sym else (lambda m, c: m * c)
    yield ("schedule_is_the_symmetric_two_sweep_composition", "", len(rec.calls), len(sched),
           f"{len(rec.calls)} local problems posed, the integrator has {len(sched)}")
    prev_after = va
    complete = True
    for k, (c, (kind, pos)) in enumerate(zip(rec.calls, sched)):
        ctag = f":call{k}:{kind}{pos}"
        shp = local_shape_of(c["snap"], kind, pos, two_site, len(c["v"]))
        J = None
        if shp is not None and int(np.prod(shp)) == len(c["v"]):
            try:
                J = frame(template, c["snap"], kind, pos, two_site, shp, sym)
            except ValueError:
                J = None
        if J is None:
            yield ("start_vector", ctag, 0, 1, f"local problem {k} ({len(c['v'])} unknowns) does not fit the integrator's problem {kind}{pos} (shape {shp}) in the state held at that moment")
            complete = False
            break
        ref = cj(J).T.dot(apply_h(Hd, J))
        if not sym:
            yield ("frames_are_orthonormal", ctag, cj(J).T.dot(J), np.eye(J.shape[1]) * abs(c["snap"]["coeff"]) ** 2, None)
        want_t = complex(0, -1) * dt / 2 if kind == "F" else complex(0, 1) * dt / 2      # dt = -i tau in imaginary time
        yield ("generator_times_time_is_the_projected_hamiltonian_step", ctag, mul(c["A"], c["t"]), mul(ref, want_t), None)
        yield ("posed_in_the_state_the_previous_problem_produced", ctag, J.dot(c["v"]), prev_after, None)
        prev_after = J.dot(c["y"])
    if complete and len(rec.calls) == len(sched):
        yield ("result_is_the_state_of_the_last_local_problem", "", flat(S.dense(result)), prev_after, None)


def native_replay(t0, H, dt, method, solver, two_site, rng_seed):
    """the same clauses evaluated in floating point: the same state with random phases, the real QR and the REAL local propagators (recorded, not replaced)"""
    def go():
        import renormalizer.mps.mps as mps_mod
        rng = np.random.default_rng(rng_seed)
        atc = S.complexify(t0, rng)
        atc.canonicalise().canonicalise()       # the schemes expect a canonical state with the centre at the start of the sweep (two sweeps: same direction again)
        Hn, va = S.dense(H), flat(S.dense(atc))
        rec = Recorder(None, real_kernels=(mps_mod.expm_krylov, mps_mod.solve_ivp))
        x = atc.copy()
        try:
            r = execute(x, H.copy(), dt, method, solver, rec)
        except Exception as e:
            return True, {"raised": repr(e)}
        failed = []
        scale = max(1.0, float(np.abs(Hn).max()))
        for cl, ctag, lhs, rhs, msg in clauses(rec, schedule(len(t0), bool(t0.to_right), two_site), atc, Hn, va, r, dt, two_site, False):
            if msg is not None:
                if lhs != rhs:
                    failed.append({"clause": cl + ctag, "what": msg})
                continue
            err = float(np.abs(np.asarray(lhs) - np.asarray(rhs)).max())
            if err > 1e-8 * scale:
                failed.append({"clause": cl + ctag, "max_abs_difference": err})
        return bool(failed), {"how": "props.C09_tdvp_sym.native_replay: same model / state with random phases, real QR and real local propagators, "
                                     "every call of expm_krylov / solve_ivp recorded and compared with J^H H J from the dense Hamiltonian", "failed_clauses": failed[:6]}
    return go


def _starts(name, n, seed, tier, density_operators):
    """deterministic start states of a (model, size): rebuilt identically in every worker"""
    from renormalizer.mps import Mpo
    rng = np.random.default_rng([seed, n, 661, sum(map(ord, name))])
    model, terms, sectors = Dn.hamiltonian(name, n, rng)
    H = Mpo(model, terms)
    q = sectors[len(sectors) // 2]
    a0 = U.make_state(model, q, 2, rng)
    if a0 is None:
        return H, []
    starts = [("right-going", a0)]
    b0 = a0.copy()
    b0.canonicalise()
    if b0.to_right != a0.to_right:
        starts.append(("left-going", b0))
    p0 = U.make_state(model, q, 1, rng)        # product state: every interior bond has dimension one (1x1 bond problems)
    if p0 is not None:
        starts.append(("product state", p0))
    if density_operators and name == "spinqn" and n <= 3:      # (the dense space of a density operator is the square of the state's)
        from renormalizer.mps import MpDm
        starts.append(("density operator", MpDm.from_mps(a0)))      # four-index site tensors: H acts on the physical index, the ancilla is a spectator
    return H, starts


def worker(case, led):
    from vk.symx.harness import run_with_budget
    name, n, sname, method, two_site, dts, density_operators, budget = case
    run_with_budget(budget, _worker, case, led, [name, n, sname, method])


def _worker(case, led):
    name, n, sname, method, two_site, dts, density_operators, _budget = case
    H, starts = _starts(name, n, led.seed, led.tier, density_operators)
    t0 = dict(starts)[sname]
    fn = f"Mps._evolve_{method}"
    for dt in dts:
        for solver in ("krylov", "RK45"):
            led.extra["ncase"] = led.extra.get("ncase", 0) + 1
            vf = VarFactory()
            a = SH.symbolic_state(t0, vf)
            tag = f"{method}:{solver}@{name}{n}:{sname}:dt={dt}"
            cs = {"model": name, "nsites": n, "start": sname, "dt": str(dt), "method": method, "ivp_solver": solver}
            rec = Recorder(vf)
            rec.vf.n = max(getattr(vf, "n", 0), 0) + 50000     # indeterminates returned by local problems: away from the state's own variables
            replay = native_replay(t0, H, dt, method, solver, two_site, [led.seed, n, 17])
            with SH.kernel_stub_mode():
                Hs = SH.numeric_to_symbolic_const(H)
                Hd, va = S.dense(Hs), flat(S.dense(a))
                try:
                    r = execute(a.copy(), Hs, dt, method, solver, rec)
                except Exception as e:
                    decide_true(led, f"post:{fn}:total[{tag}]", fn, False, f"raised on symbolic tensors: {type(e).__name__}: {e}", cs, numeric_replay=replay)
                    continue
                led.extra["ncalls"] = led.extra.get("ncalls", 0) + len(rec.calls)
                for cl, ctag, lhs, rhs, msg in clauses(rec, schedule(n, bool(t0.to_right), two_site), a, Hd, va, r, dt, two_site, True):
                    pre = "post:" + fn if cl.startswith("result_") else "pre:local_propagator"
                    oid = f"{pre}:{cl}[{tag}{ctag}]"
                    if msg is not None:
                        decide_true(led, oid, fn, lhs == rhs, msg, cs, fields={"method": method}, numeric_replay=replay)
                    else:
                        decide(led, oid, fn, lhs, rhs, cs, fields={"method": method}, numeric_replay=replay)
                decide(led, f"frame:{fn}:input[{tag}]", fn, flat(S.dense(a)), va, cs)
                bad = S.qnv_violations(r)
                decide_true(led, f"post:{fn}:qn_valid[{tag}]", fn, not bad, f"labels of the result invalid: {bad[:2]}", cs)
            native_pass(led, f"rtc:{fn}:local_problems_with_the_real_kernels_incl_orthonormal_frames", fn, replay, (tag,), cs)


def prove(run, key="C09", dts=(0.25, complex(0, -0.25)), density_operators=True):
    from vk.symx.harness import pool_cases
    shapes = [("spinqn", 3), ("holstein", 3), ("spinqn-flux", 3)] if run.tier == "quick" else [("spinqn", 3), ("spinqn", 4), ("holstein", 3), ("spin2qn", 3), ("spin", 3), ("spinqn", 2), ("spin", 1), ("spinqn-flux", 3), ("holstein-flux", 3)]
    cases = []
    for name, n in shapes:
        _, starts = _starts(name, n, run.seed, run.tier, density_operators)
        for sname, _t0 in starts:
            for method, two_site in (("tdvp_ps", False), ("tdvp_ps2", True)):
                if two_site and n < 2:
                    continue
                cases.append((name, n, sname, method, two_site, tuple(dts), density_operators, 60 if run.tier == "quick" else 240))
    leds = pool_cases(run, worker, cases)
    ncase = sum(l.extra.get("ncase", 0) for l in leds)
    run.extra.setdefault("symx", {})[key + "_tdvp"] = {"scheme_cases": ncase, "local_problems": sum(l.extra.get("ncalls", 0) for l in leds),
                                                      "cases_skipped_for_time": [c for l in leds for c in l.extra.get("skipped", [])],
                                                      "kernel_stubs": SH.KERNEL_STUBS, "shims": SH.SHIMS,
                                                      "local_propagator_stub": "expm_krylov / solve_ivp inside renormalizer.mps.mps return fresh indeterminates on the structural "
                                                                               "support of span{v, Av, A^2 v, A^3 v} and record (A as a matrix, time, v, tensors of the working state)"}
    if ncase == 0:
        run.crash(f"{key}_tdvp_sym: no case generated")
