"""Deductive part of C03/C06: move_qnidx preserves the QN-valid representation invariant for all sizes (pyvc/z3)."""
from contracts import mp as M
from vk.pyvc.run import verify


def prove(run):
    verify(run, M.REL, M.move_qnidx, fingerprint=M.FINGERPRINT_MOVE)
    run.trusted += ["labels modelled with one integer component (the code acts componentwise on qn vectors)",
                    "`site_num` (property len(self._mp)) modelled as a field of the receiver"]
