"""Deductive part of C03/C06: move_qnidx preserves the QN-valid representation invariant for all sizes (pyvc/z3)."""
from contracts import mp as M
from vk.pyvc.run import verify


def prove(run):
    verify(run, M.REL, M.move_qnidx, fingerprint=M.FINGERPRINT_MOVE)
    lemma_qnv_implies_sector(run)
    run.trusted += ["L-QN (QN-valid labels => the dense object lies in the sector qntot) is no longer cited: mechanised as inductions discharged by z3 (lemma:qnv_implies_sector:*)",
                    "labels modelled with one integer component (the code acts componentwise on qn vectors)",
                    "`site_num` (property len(self._mp)) modelled as a field of the receiver"]


def lemma_qnv_implies_sector(run):
    """L-QN (DESIGN 8, formerly cited): QNV(mp) => every non-zero product term of the dense object carries total charge qntot.

    A product term picks bond indices l_0..l_n (l_0 = l_n = the single boundary row, label 0) and physical configurations s_0..s_{n-1} with
    supp(i, l_i, s_i, l_{i+1}) for every site.  Telescoping with the three label rules of QNV gives  sum_i sig(i, s_i) = qntot.  Mechanised as two inductions
    over the site index (prefix sums left of the centre, suffix sums right of it) plus the closing step at the centre; every step is discharged by z3
    (linear integer arithmetic with uninterpreted qn / sig / l / s), for every chain length, centre position, label table and tensor support."""
    import z3
    I = z3.IntSort()
    qn = z3.Function("qn", I, I, I)          # qn(bond, row) - one component (the code acts componentwise)
    sig = z3.Function("sig", I, I, I)        # charge of physical configuration s of site i
    li = z3.Function("l", I, I)              # the bond index the term picks on bond b
    si = z3.Function("s", I, I)              # the physical configuration the term picks on site i
    pre = z3.Function("pre", I, I)           # pre(k)  = sum_{i<k} sig(i, s_i)
    suf = z3.Function("suf", I, I)           # suf(k)  = sum_{i>=k} sig(i, s_i)
    n, c, Q, k = z3.Ints("n c Q k")
    i = z3.Int("i")
    shape = [n >= 1, 0 <= c, c < n, qn(0, li(0)) == 0, qn(n, li(n)) == 0]
    # QNV on the entries the term uses (supp holds there by assumption)
    left = z3.ForAll([i], z3.Implies(z3.And(0 <= i, i < c), qn(i, li(i)) + sig(i, si(i)) == qn(i + 1, li(i + 1))))
    centre = qn(c, li(c)) + sig(c, si(c)) + qn(c + 1, li(c + 1)) == Q
    right = z3.ForAll([i], z3.Implies(z3.And(c < i, i < n), qn(i, li(i)) == sig(i, si(i)) + qn(i + 1, li(i + 1))))
    defs = [pre(0) == 0, z3.ForAll([i], z3.Implies(i >= 0, pre(i + 1) == pre(i) + sig(i, si(i)))),
            suf(n) == 0, z3.ForAll([i], z3.Implies(z3.And(0 <= i, i < n), suf(i) == sig(i, si(i)) + suf(i + 1)))]
    P = lambda kk: qn(kk, li(kk)) == pre(kk)          # noqa: E731   left of / at the centre the label counts the charge so far
    R = lambda kk: qn(kk, li(kk)) == suf(kk)          # noqa: E731   right of the centre the label counts the charge still to come
    steps = [
        ("prefix:base", shape + defs + [left], P(z3.IntVal(0))),
        ("prefix:step", shape + defs + [left, 0 <= k, k < c, P(k)], P(k + 1)),
        ("suffix:base", shape + defs + [right], R(n)),
        ("suffix:step", shape + defs + [right, c < k, k < n, R(k + 1)], R(k)),
        # split of the total charge at the centre: pre(n) = pre(c) + sig_c + suf(c+1), itself by induction on the prefix sums right of the centre
        ("split:base", shape + defs, pre(c + 1) + suf(c + 1) == pre(c) + sig(c, si(c)) + suf(c + 1)),
        ("split:step", shape + defs + [c < k, k < n, pre(k) + suf(k) == pre(c + 1) + suf(c + 1)], pre(k + 1) + suf(k + 1) == pre(c + 1) + suf(c + 1)),
        ("close", shape + defs + [centre, P(c), R(c + 1), pre(n) + suf(n) == pre(c + 1) + suf(c + 1)], pre(n) == Q),
    ]
    for name, hyp, goal in steps:
        s = z3.Solver()
        s.set("timeout", 20000)
        s.add(*hyp)
        s.add(z3.Not(goal))
        r = s.check()
        run.oblig(f"lemma:qnv_implies_sector:{name}", "spec:QNV", "A(pyvc-lemma)", "discharged" if r == z3.unsat else "undecided", "z3-5.1(api)",
                  detail=None if r == z3.unsat else str(r))
    # vacuity: the hypotheses are satisfiable (a canary that must be sat)
    s = z3.Solver()
    s.set("timeout", 20000)
    ground = [n == 3, c == 1, qn(0, li(0)) == 0, qn(3, li(3)) == 0, qn(0, li(0)) + sig(0, si(0)) == qn(1, li(1)),
              qn(1, li(1)) + sig(1, si(1)) + qn(2, li(2)) == Q, qn(2, li(2)) == sig(2, si(2)) + qn(3, li(3)), sig(0, si(0)) == 1, sig(1, si(1)) == 0, sig(2, si(2)) == 1]
    s.add(*ground)
    if s.check() != z3.sat:      # quantifier-free instance of the hypotheses (3 sites, centre in the middle)
        run.crash("lemma_qnv_implies_sector: hypotheses unsatisfiable (vacuous lemma)")
