"""Deductive part of C03 (filled in below): move_qnidx and label bookkeeping."""


def prove(run):
    pass
