"""C18 Numerical kernels meet their contracts on every admissible input.

Engine B only (DESIGN §8 C18): runtime contracts on the real `expm_krylov` and on the real symmetry-blocked
decompositions of renormalizer/mps/svd_qn.py, against independent dense oracles.

Argument conventions (read off mp.py `_get_big_qn`, `compress`, `_push_cano`, `_update_mps`):
  coef_array has shape  bigl-index-shape + bigr-index-shape,  qnbigl/qnbigr have shape index-shape + (qn_size,),
  qntot has shape (qn_size,);  M = coef_array.reshape(prod(bigl), prod(bigr)) = U @ diag(S) @ V.T  (V is *not* conjugated),
  QR mode:  M = U @ V.T  with U orthonormal for system "L" (QR) and V orthonormal for system "R" (RQ);
  eigh_qn(dm, qnbigl, qnbigr, qntot, system): dm is the reduced density matrix on the `system` side.
"""
from vk.symx.harness import guarded
import itertools
import zlib

import numpy as np
import scipy.linalg

from vk.rtc.harness import run_cases

LEVEL = "other"
TECHNIQUE = ("contracts evaluated at run time on the real functions (expm_krylov; svd_qn, eigh_qn, optimized_svd, add_orthonormal_basis, "
             "blockrecover/blockappend, add_outer, get_qn_mask) over bounded-exhaustive inputs against scipy.linalg.expm / dense NumPy "
             "linear algebra of the masked matrix (bounded stand-in); Engine S kernel-stub mode: svd_qn's block / label bookkeeping around the LAPACK calls decided "
             "exactly on indeterminate matrices for every enumerated label pattern and all six SVD/QR modes")

EPS = float(np.finfo(float).eps)
# --- derived tolerances -------------------------------------------------------------------------------------------------
# LAPACK orthogonal factors (gesdd/geqrf/gerqf/syevr): ||Q^H Q - I|| <= p(n) eps with a low-degree p; all sector blocks here are
# <= 64 wide, so kappa = 4500 (~ 70 * 64) covers it with a large margin.
ORTH_TOL = 4500 * EPS                      # ~1e-12
# add_orthonormal_basis projects a random matrix a (entries in [0,1)) off span(u) and QR-factorises the remainder a':
# |u^H q| <= c eps ||a|| / sigma_min(a'); sigma_min(a') < 2e-6 has probability < 1e-10 per call for the shapes used (m > 2n).
ORTH_TOL_OPT = 1e-10
# backward error of SVD/QR/eigh reconstruction: p(m,n) eps ||A||_2 <= p eps sqrt(mn) max|a|; kappa = 1000 * max(m, n).
RECON_KAPPA = 1000.0
# expm_krylov.  Primary accuracy contract = the property's "stated relative tolerance", i.e. the function's OWN stopping tolerance
# (numpy.allclose defaults rtol 1e-5 / atol 1e-8 per component, applied to the iterates of the normalised start vector):
#     ||result - expm(dt A) v||_2  <=  1e-5 ||expm(dt A) v||_2  +  1e-8 sqrt(n) ||v||_2
# (the last accepted Lanczos iterate is at least as accurate as the last difference of iterates: superlinear convergence once the
# number of vectors exceeds ||A|| |dt|, Hochbruck & Lubich 1997).  It is scale invariant in v.
KRYLOV_OWN_RTOL, KRYLOV_OWN_ATOL = 1e-5, 1e-8
# Extra clause 1e-6 ||v||: this number is NOT in the property, it is the calibration written into DESIGN §8 C18.  It is evaluated only
# where it follows from the stopping rule with room to spare: the last difference of iterates is <= ~1e-5 ||result||, the accepted
# iterate (two Lanczos steps later, j >= 2 ||A|| |dt|) is better by about (||A|| |dt| / 2j)^2 <= 0.03, i.e. <= 3e-7 ||result||.
#   * imaginary dt (unitary propagator, ||result|| = ||v||), ||A|| |dt| <= 5: measured worst 1.1e-7 (16 seeds x 9 families x n <= 60,
#     ~1e6 calls: factor 9);
#   * real dt with ||A|| |dt| <= 0.1: measured worst 3e-13.
# For real dt the propagator amplifies by up to e^{||A|| |dt|}: measured worst relative to ||v|| 2.9e-7 at ||A|| |dt| = 2.5 (factor 3.5
# only) and 2.5e-6 at ||A|| |dt| = 5 (1e-7 relative to the result) - the clause is not stated there, the primary clause is.
KRYLOV_RTOL = 1e-6

KINDS = ("real", "complex", "eye", "same", "ones", "zeroblock", "ceye")
MODES = (("svd", None, False, True), ("svd", "L", True, True), ("svd", "R", True, False),
         ("qr", "L", False, True), ("qr", "R", False, True), ("qr", "L", True, True), ("qr", "R", True, True),
         ("eigh", "L", False, True), ("eigh", "R", False, True))      # (decomposition, system, full_matrices, opt_full_matrices)


def mode_name(mode):
    dec, system, full, opt = mode
    if dec == "svd":
        return "svd-" + ("economic" if not full else ("full-opt" if opt else "full"))
    if dec == "qr":
        return f"qr-{system}-" + ("full" if full else "economic")
    return f"eigh-{system}"


# =========================================================================================================================
# independent reference: symmetry sectors and the symmetry-allowed part of a matrix
# =========================================================================================================================
class Spec:
    """ql: (m,k) row labels, qr: (n,k) column labels, qtot: (k,).  Independent of svd_qn/add_outer/get_qn_mask."""

    def __init__(self, ql, qr, qtot):
        self.ql = np.asarray(ql, dtype=np.int64).reshape(-1, len(qtot))
        self.qr = np.asarray(qr, dtype=np.int64).reshape(-1, len(qtot))
        self.qtot = np.asarray(qtot, dtype=np.int64)
        self.m, self.n = len(self.ql), len(self.qr)
        self.allowed = (self.ql[:, None, :] + self.qr[None, :, :] == self.qtot[None, None, :]).all(axis=-1)
        self.sectors = []          # [(row label tuple, col label tuple, row indices, col indices)]  two-sided only
        seen = set()
        for i in range(self.m):
            lab = tuple(int(x) for x in self.ql[i])
            if lab in seen:
                continue
            seen.add(lab)
            want = tuple(int(t - x) for t, x in zip(self.qtot, lab))
            cols = [j for j in range(self.n) if tuple(int(x) for x in self.qr[j]) == want]
            if cols:
                rows = [r for r in range(self.m) if tuple(int(x) for x in self.ql[r]) == lab]
                self.sectors.append((lab, want, rows, cols))
        self.K = sum(min(len(r), len(c)) for _, _, r, c in self.sectors)
        self.rows2 = sorted(r for _, _, rows, _ in self.sectors for r in rows)   # rows / columns inside two-sided sectors
        self.cols2 = sorted(c for _, _, _, cols in self.sectors for c in cols)

    def mask(self, M):
        return np.where(self.allowed, M, 0)


def make_matrix(kind, sp, rng, noise):
    """test matrix; the symmetry-forbidden entries are filled with non-zero noise when `noise` (they must be ignored)"""
    m, n = sp.m, sp.n
    if kind == "real":
        M = rng.standard_normal((m, n))
    elif kind == "complex":
        M = rng.standard_normal((m, n)) + 1j * rng.standard_normal((m, n))
    elif kind == "ones":                        # rank-one sector blocks: exactly/numerically zero singular values inside the paired part
        M = np.ones((m, n))
    elif kind == "zeroblock":                   # one two-sided sector is identically zero
        M = rng.standard_normal((m, n))
        _, _, rows, cols = sp.sectors[int(rng.integers(len(sp.sectors)))]
        M[np.ix_(rows, cols)] = 0.0
    elif kind in ("eye", "ceye"):               # Bell-pair like: every sector block is a rectangular identity (all s exactly equal)
        M = np.zeros((m, n), dtype=complex if kind == "ceye" else float)
        for _, _, rows, cols in sp.sectors:
            for t in range(min(len(rows), len(cols))):
                M[rows[t], cols[t]] = (1j ** t) * 0.5 if kind == "ceye" else 0.5
    elif kind == "same":                        # identical blocks in different sectors: exactly degenerate s across sectors
        B = rng.standard_normal((m, n))
        M = np.zeros((m, n))
        for _, _, rows, cols in sp.sectors:
            M[np.ix_(rows, cols)] = B[:len(rows), :len(cols)]
    else:
        raise ValueError(kind)
    if noise:
        extra = rng.standard_normal((m, n)) + 0.37
        M = np.where(sp.allowed, M, extra.astype(M.dtype))
    else:
        M = np.where(sp.allowed, M, 0)
    return np.ascontiguousarray(M)


def _lab(x, k):
    """labels returned by the code (list of tuples / arrays) -> (N,k) int array"""
    if len(x) == 0:
        return np.zeros((0, k), dtype=np.int64)
    return np.asarray([np.asarray(t).reshape(-1) for t in x], dtype=np.int64).reshape(len(x), k)


def _orth_err(X):
    if X.shape[1] == 0:
        return 0.0
    G = X.conj().T @ X - np.eye(X.shape[1])
    return float(np.abs(G).max())


def _support_ok(X, rowlab, collab):
    """every non-zero entry X[r,c] sits on a row whose label equals the label of column c (exact zeros elsewhere)"""
    same = (rowlab[:, None, :] == collab[None, :, :]).all(axis=-1)
    return not bool(((X != 0) & ~same).any())


def _count(labs, lab):
    return int((labs == np.asarray(lab, dtype=np.int64)[None, :]).all(axis=-1).sum()) if len(labs) else 0


def _finite(*xs):
    return all(np.all(np.isfinite(np.asarray(x))) for x in xs)


# =========================================================================================================================
# contracts of svd_qn / eigh_qn  -> list of (obligation id, ok, lazily formatted message)
# =========================================================================================================================
def _quiet(f):
    """renormalizer switches numpy to raise on overflow/invalid (utils/log.py); the REAL functions run under that setting, but the
    contract evaluation must turn a huge or non-finite result into a failed clause, not into an exception of the harness"""
    def g(*a, **kw):
        with np.errstate(all="ignore"):
            return f(*a, **kw)
    g.__name__ = f.__name__
    return g


@_quiet
def contract_svd(out, sp, M, full, opt):
    fn, res = "svd_qn", []
    add = lambda clause, ok, what: res.append((f"post:{fn}:{clause}", bool(ok), what))
    k = len(sp.qtot)
    K = sp.K
    ok_shape = isinstance(out, tuple) and len(out) == 6
    if ok_shape:
        U, su, nql, V, sv, nqr = out
        U, V, su, sv = np.asarray(U), np.asarray(V), np.asarray(su), np.asarray(sv)
        ok_shape = (U.ndim == 2 and V.ndim == 2 and su.ndim == 1 and sv.ndim == 1 and U.shape[0] == sp.m and V.shape[0] == sp.n
                    and U.shape[1] == len(su) == len(nql) and V.shape[1] == len(sv) == len(nqr) and _finite(U, V, su, sv))
        if ok_shape and not full:
            ok_shape = U.shape[1] == K and V.shape[1] == K
        if ok_shape and full:
            ok_shape = U.shape[1] >= K and V.shape[1] >= K
    add("shapes", ok_shape, lambda: f"result shapes inconsistent with m={sp.m}, n={sp.n}, paired columns K={K}: "
        f"{[getattr(np.asarray(x), 'shape', None) for x in out] if isinstance(out, tuple) else type(out)}")
    if not ok_shape:
        return res
    nql, nqr = _lab(nql, k), _lab(nqr, k)
    Mm = sp.mask(M)
    scale = max(float(np.abs(M).max()), 1e-300) * max(sp.m, sp.n)
    tol = RECON_KAPPA * EPS * scale
    otol = ORTH_TOL_OPT if (full and opt) else ORTH_TOL
    eu, ev = _orth_err(U), _orth_err(V)
    add("orthonormal_U", eu <= otol, lambda: f"max|U^H U - 1| = {eu:.3e} > {otol:.1e}")
    add("orthonormal_V", ev <= otol, lambda: f"max|V^H V - 1| = {ev:.3e} > {otol:.1e}")
    R = (U[:, :K] * su[:K][None, :]) @ V[:, :K].T
    er = float(np.abs(R - Mm).max())
    add("restores_allowed_part", er <= tol, lambda: f"max|U diag(S) V^T - mask(M)| = {er:.3e} > {tol:.1e} "
        f"(column pairing u[:,k], s[k], v[:,k] or gather/scatter indices wrong)")
    add("labels_sum_to_qntot", bool((nql[:K] + nqr[:K] == sp.qtot[None, :]).all()),
        lambda: f"new_qnl + new_qnr != qntot column-wise: {nql[:K].tolist()} + {nqr[:K].tolist()} vs {sp.qtot.tolist()}")
    add("label_support_U", _support_ok(U, sp.ql, nql), lambda: "a column of U has weight on rows whose label differs from its new label")
    add("label_support_V", _support_ok(V, sp.qr, nqr), lambda: "a column of V has weight on columns whose label differs from its new label")
    add("s_nonnegative", bool((su >= 0).all() and (sv >= 0).all()), lambda: f"negative singular value {su.tolist()}")
    ref = np.linalg.svd(Mm, compute_uv=False)
    ref = np.concatenate([ref, np.zeros(max(0, K - len(ref)))])[:K]
    es = float(np.abs(np.sort(su[:K])[::-1] - ref).max()) if K else 0.0
    add("singular_values", es <= tol, lambda: f"sorted S differs from numpy.linalg.svd(mask(M)) by {es:.3e} > {tol:.1e}")
    add("su_equals_sv", bool(np.array_equal(su[:K], sv[:K])), lambda: f"su != sv on the paired columns: {su[:K].tolist()} vs {sv[:K].tolist()}")
    if not full:
        add("globally_sorted", bool((su[:-1] >= su[1:]).all()), lambda: f"singular values not non-increasing: {su.tolist()}")
    else:
        add("complement_zero_s", bool((su[K:] == 0).all() and (sv[K:] == 0).all()),
            lambda: f"complement columns carry non-zero singular values: su[K:]={su[K:].tolist()} sv[K:]={sv[K:].tolist()}")
        bad = []
        totu = totv = 0
        for lab, want, rows, cols in sp.sectors:
            d = min(len(rows), len(cols))
            for side, labs, nb, l in (("U", nql, len(rows), lab), ("V", nqr, len(cols), want)):
                c = _count(labs, l)
                if side == "U":
                    totu += c
                else:
                    totv += c
                if opt:     # "a limited number of additional orthonormal basis": at least one more than the rank-bound, at most all
                    good = (c == nb) if nb == d else (d < c <= nb)
                else:
                    good = c == nb
                if not good:
                    bad.append((side, l, c, nb, d))
        add("complement_spanned", not bad and totu == U.shape[1] and totv == V.shape[1],
            lambda: f"columns per sector (side, label, got, sector size, paired): {bad[:3]}; columns with labels outside the two-sided "
                    f"sectors: U {U.shape[1] - totu}, V {V.shape[1] - totv}")
    return res


@_quiet
def contract_qr(out, sp, M, system, full):
    fn, res = "svd_qn", []
    add = lambda clause, ok, what: res.append((f"post:{fn}:qr_{clause}", bool(ok), what))
    k = len(sp.qtot)
    K = sp.K
    ok_shape = isinstance(out, tuple) and len(out) == 4
    if ok_shape:
        U, nql, V, nqr = out
        U, V = np.asarray(U), np.asarray(V)
        ok_shape = (U.ndim == 2 and V.ndim == 2 and U.shape[0] == sp.m and V.shape[0] == sp.n and _finite(U, V)
                    and U.shape[1] == V.shape[1] == len(nql) == len(nqr))
        if ok_shape:
            ok_shape = U.shape[1] == K if not full else U.shape[1] >= K
    add("shapes", ok_shape, lambda: f"result shapes inconsistent with m={sp.m}, n={sp.n}, K={K}: "
        f"{[getattr(np.asarray(x), 'shape', None) for x in out] if isinstance(out, tuple) else type(out)}")
    if not ok_shape:
        return res
    nql, nqr = _lab(nql, k), _lab(nqr, k)
    Mm = sp.mask(M)
    scale = max(float(np.abs(M).max()), 1e-300) * max(sp.m, sp.n)
    tol = RECON_KAPPA * EPS * scale
    Q = U if system == "L" else V
    eq = _orth_err(Q)
    add("orthonormal_Q", eq <= ORTH_TOL, lambda: f"system={system}: max|Q^H Q - 1| = {eq:.3e} > {ORTH_TOL:.1e}")
    er = float(np.abs(U @ V.T - Mm).max())
    add("restores_allowed_part", er <= tol, lambda: f"max|U V^T - mask(M)| = {er:.3e} > {tol:.1e}")
    add("labels_sum_to_qntot", bool((nql + nqr == sp.qtot[None, :]).all()),
        lambda: f"new_qnl + new_qnr != qntot: {nql.tolist()} + {nqr.tolist()} vs {sp.qtot.tolist()}")
    add("label_support_U", _support_ok(U, sp.ql, nql), lambda: "a column of U has weight on rows whose label differs from its new label")
    add("label_support_V", _support_ok(V, sp.qr, nqr), lambda: "a column of V has weight on columns whose label differs from its new label")
    if full:
        bad = []
        labs = nql if system == "L" else nqr
        for lab, want, rows, cols in sp.sectors:
            l, nb = (lab, len(rows)) if system == "L" else (want, len(cols))
            if _count(labs, l) != nb:
                bad.append((l, _count(labs, l), nb))
        add("complement_spanned", not bad, lambda: f"orthogonal factor does not span its sectors (label, columns, sector size): {bad[:3]}")
    return res


@_quiet
def contract_eigh(out, sp, dm, system):
    fn, res = "eigh_qn", []
    add = lambda clause, ok, what: res.append((f"post:{fn}:{clause}", bool(ok), what))
    k = len(sp.qtot)
    own = sp.ql if system == "L" else sp.qr
    N = len(own)
    secs = [(lab, rows) for lab, _, rows, _ in sp.sectors] if system == "L" else [(want, cols) for _, want, _, cols in sp.sectors]
    Kt = sum(len(r) for _, r in secs)
    ok_shape = isinstance(out, tuple) and len(out) == 3
    if ok_shape:
        U, s, nq = out
        U, s = np.asarray(U), np.asarray(s)
        ok_shape = U.ndim == 2 and s.ndim == 1 and U.shape == (N, Kt) and len(s) == Kt == len(nq) and _finite(U, s)
    add("shapes", ok_shape, lambda: f"result shapes inconsistent with N={N}, columns expected {Kt}: "
        f"{[getattr(np.asarray(x), 'shape', None) for x in out] if isinstance(out, tuple) else type(out)}")
    if not ok_shape:
        return res
    nq = _lab(nq, k)
    allowed = np.zeros((N, N), dtype=bool)
    for _, rows in secs:
        allowed[np.ix_(rows, rows)] = True
    D = np.where(allowed, dm, 0)
    scale = max(float(np.abs(dm).max()), 1e-300) * N
    tol = RECON_KAPPA * EPS * scale
    eu = _orth_err(U)
    add("orthonormal_U", eu <= ORTH_TOL, lambda: f"max|U^H U - 1| = {eu:.3e} > {ORTH_TOL:.1e}")
    er = float(np.abs((U * (s ** 2)[None, :]) @ U.conj().T - D).max())
    add("restores_allowed_part", er <= tol, lambda: f"max|U diag(S^2) U^H - blockdiag(dm)| = {er:.3e} > {tol:.1e}")
    add("s_nonnegative", bool((s >= 0).all()), lambda: f"negative S: {s.tolist()}")
    add("label_support", _support_ok(U, own, nq), lambda: "an eigenvector has weight on rows whose label differs from its new label")
    bad = [(lab, _count(nq, lab), len(rows)) for lab, rows in secs if _count(nq, lab) != len(rows)]
    add("labels_two_sided", not bad, lambda: f"(label, columns, sector size) {bad[:3]}: labels must be exactly the sectors that have a "
        f"partner label with nl + nr = qntot")
    return res


def _emit(led, results, fn, key, fields, replay_fn, nontrivial=True):
    for oid, ok, what in results:
        if ok:
            led.ok(oid, fn, key, nontrivial)
        else:
            led.check(False, oid, fn, what() if callable(what) else what, key, fields, replay_fn(), nontrivial)


def _call(f, *a, **kw):
    """call the REAL function; an exception raised by it on an admissible input is a contract violation, not a harness crash"""
    try:
        return True, f(*a, **kw)
    except Exception as e:   # noqa: BLE001
        return False, f"{type(e).__name__}: {e}"


def run_modes(led, sp, M, shapes, kind, noise, key0, modes=MODES, extra_replay=None):
    """evaluate all decomposition modes on one (label pattern, matrix); shapes = (bigl index shape, bigr index shape)"""
    from renormalizer.mps import svd_qn as Q
    k = len(sp.qtot)
    shl, shr = shapes
    qnbigl = sp.ql.reshape(tuple(shl) + (k,)).copy()
    qnbigr = sp.qr.reshape(tuple(shr) + (k,)).copy()
    qtot = sp.qtot.copy()
    coef = M.reshape(tuple(shl) + tuple(shr)).copy()
    Mm = sp.mask(M)
    nontriv = sp.m * sp.n > 1
    for mode in modes:
        dec, system, full, opt = mode
        mname = mode_name(mode)
        key = key0 + (mname,)
        fields = {"mode": mname, "kind": kind, "ncomp": k, "full_matrices": bool(full), "system": system}

        def replay(arr=None, dec=dec, system=system, full=full, opt=opt):
            d = {"call": "eigh_qn(dm, qnbigl, qnbigr, qntot, system)" if dec == "eigh" else
                 "svd_qn(coef_array, qnbigl, qnbigr, qntot, QR, system, full_matrices, opt_full_matrices)",
                 "qnbigl": qnbigl, "qnbigr": qnbigr, "qntot": qtot, "QR": dec == "qr", "system": system, "full_matrices": full,
                 "opt_full_matrices": opt, "matrix_kind": kind, "forbidden_entries_noise": bool(noise),
                 "coef_array" if dec != "eigh" else "dm": coef if arr is None else arr}
            if extra_replay:
                d.update(extra_replay)
            return d

        if dec == "eigh":
            dm = Mm @ Mm.conj().T if system == "L" else Mm.T @ Mm.conj()
            if noise:   # entries coupling different sectors are not symmetry-allowed and must be ignored
                own = sp.ql if system == "L" else sp.qr
                off = ~(own[:, None, :] == own[None, :, :]).all(axis=-1)
                dm = np.where(off, 0.61, dm)
            sh = tuple(shl) if system == "L" else tuple(shr)
            dm_in = np.ascontiguousarray(dm).reshape(sh + sh).copy()
            keep = dm_in.copy()
            okc, out = _call(Q.eigh_qn, dm_in, qnbigl, qnbigr, qtot, system)
            rp = lambda dm_in=keep: replay(dm_in)
            if not okc:
                led.check(False, "post:eigh_qn:returns", "eigh_qn", f"raised {out}", key, fields, rp(), nontriv)
                continue
            led.ok("post:eigh_qn:returns", "eigh_qn", key, nontriv)
            _emit(led, contract_eigh(out, sp, dm, system), "eigh_qn", key, fields, rp, nontriv)
            fr = np.array_equal(dm_in, keep) and np.array_equal(qnbigl.reshape(-1, k), sp.ql) and np.array_equal(qnbigr.reshape(-1, k), sp.qr)
            _emit(led, [("frame:eigh_qn:inputs_unchanged", fr, "eigh_qn modified one of its input arrays")], "eigh_qn", key, fields, rp, nontriv)
            continue
        kw = dict(QR=(dec == "qr"), system=system, full_matrices=full, opt_full_matrices=opt)
        okc, out = _call(Q.svd_qn, coef, qnbigl, qnbigr, qtot, **kw)
        if not okc:
            led.check(False, "post:svd_qn:returns", "svd_qn", f"raised {out}", key, fields, replay(), nontriv)
            continue
        led.ok("post:svd_qn:returns", "svd_qn", key, nontriv)
        if dec == "svd":
            results = contract_svd(out, sp, M, full, opt)
        else:
            results = contract_qr(out, sp, M, system, full)
        _emit(led, results, "svd_qn", key, fields, replay, nontriv)
        fr = (np.array_equal(coef.reshape(sp.m, sp.n), M) and np.array_equal(qnbigl.reshape(-1, k), sp.ql)
              and np.array_equal(qnbigr.reshape(-1, k), sp.qr) and np.array_equal(qtot, sp.qtot))
        _emit(led, [("frame:svd_qn:inputs_unchanged", fr, "svd_qn modified one of its input arrays")], "svd_qn", key, fields, replay, nontriv)
        if not fr:      # restore for the following modes
            coef = M.reshape(tuple(shl) + tuple(shr)).copy()
            qnbigl = sp.ql.reshape(tuple(shl) + (k,)).copy()
            qnbigr = sp.qr.reshape(tuple(shr) + (k,)).copy()
            qtot = sp.qtot.copy()


# =========================================================================================================================
# exhaustive label universe (<= 3x3 index blocks)
# =========================================================================================================================
def alphabet(ncomp):
    if ncomp == 1:
        return [(0,), (1,), (2,)]
    return [(0, 0), (0, 1), (1, 0), (1, 1)]


def qtots(ncomp):
    if ncomp == 1:
        return [(t,) for t in range(5)]
    return [(a, b) for a in range(3) for b in range(3)]


def row_patterns(ncomp, m, ordered):
    al = alphabet(ncomp)
    if ordered:
        return list(itertools.product(al, repeat=m))
    return list(itertools.combinations_with_replacement(al, m))


def kinds_for(p, nk):
    if nk >= len(KINDS):
        return list(KINDS)
    return [KINDS[(p + 3 * s) % len(KINDS)] for s in range(nk)]


def worker_qnx(case, led):
    _, ncomp, m, n, irow, ordered, nk, seed, tier = case
    rng = np.random.default_rng([seed, 18, ncomp, m, n, irow])
    ql = row_patterns(ncomp, m, ordered)[irow]
    if not ordered:
        ql = tuple(ql[i] for i in rng.permutation(m))
    p = irow
    for icol, qr in enumerate(row_patterns(ncomp, n, ordered)):
        if not ordered:
            qr = tuple(qr[i] for i in rng.permutation(n))
        for iqt, qt in enumerate(qtots(ncomp)):
            p += 1
            sp = Spec(ql, qr, qt)
            if not sp.sectors:        # no symmetry-allowed entry at all: outside the domain (svd_qn raises ValueError)
                continue
            for kind in kinds_for(p + seed, nk):
                noise = bool((p + len(kind)) % 2)
                M = make_matrix(kind, sp, rng, noise)
                run_modes(led, sp, M, ((m,), (n,)), kind, noise, ("x", ncomp, int(ordered), m, n, irow, icol, iqt, kind))


# =========================================================================================================================
# seeded larger / multi-index cases with the shapes produced by mp.py:_get_big_qn
# =========================================================================================================================
def worker_qnr(case, led):
    _, idx, seed, tier = case
    rng = np.random.default_rng([seed, 1818, idx])
    k = int(rng.choice([1, 1, 2, 2, 3]))
    lo = rng.integers(-1, 1, size=k)
    width = rng.integers(2, 4, size=k)
    if idx % 7 == 3:          # the 3-letter-per-component alphabet of the property statement, small blocks
        k, lo, width = 2, np.array([0, 0]), np.array([3, 3])

    def labels(num):
        return np.stack([rng.integers(lo[c], lo[c] + width[c], size=num) for c in range(k)], axis=-1)

    struct = ["flat", "1L", "1R", "2site", "unbalanced", "unbalancedT"][idx % 6]
    if idx % 7 == 3:
        struct = "flat"
    if struct == "flat":
        m, n = (int(rng.integers(1, 4)), int(rng.integers(1, 4))) if idx % 7 == 3 else (int(rng.integers(1, 13)), int(rng.integers(1, 13)))
        ql, qr, shapes = labels(m), labels(n), ((m,), (n,))
    elif struct in ("unbalanced", "unbalancedT"):
        m, n = int(rng.integers(9, 41)), int(rng.integers(1, 8))
        width = np.minimum(width, 2)
        ql, qr, shapes = labels(m), labels(n), ((m,), (n,))
        if struct == "unbalancedT":
            ql, qr, shapes = qr, ql, ((n,), (m,))
    else:
        l, r = int(rng.integers(1, 7)), int(rng.integers(1, 7))
        d1, d2 = int(rng.integers(2, 5)), int(rng.integers(2, 5))
        qnl, qnr, s1, s2 = labels(l), labels(r), labels(d1), labels(d2)
        if struct == "1L":          # to_right: qnbigl = add_outer(qnl, sigma), qnbigr = qnr
            ql, qr, shapes = (qnl[:, None, :] + s1[None, :, :]).reshape(-1, k), qnr, ((l, d1), (r,))
        elif struct == "1R":
            ql, qr, shapes = qnl, (s1[:, None, :] + qnr[None, :, :]).reshape(-1, k), ((l,), (d1, r))
        else:
            ql = (qnl[:, None, :] + s1[None, :, :]).reshape(-1, k)
            qr = (s2[:, None, :] + qnr[None, :, :]).reshape(-1, k)
            shapes = ((l, d1), (d2, r))
    i, j = int(rng.integers(len(ql))), int(rng.integers(len(qr)))
    qt = ql[i] + qr[j]
    sp = Spec(ql, qr, qt)
    assert sp.sectors
    nk = 3 if tier == "quick" else 7
    for kind in kinds_for(idx, nk):
        noise = bool(rng.integers(2))
        M = make_matrix(kind, sp, rng, noise)
        run_modes(led, sp, M, shapes, kind, noise, ("r", idx, seed, kind),
                  extra_replay={"structure": struct, "how": "worker_qnr regenerates the inputs from (idx, seed)", "idx": idx, "seed": seed})


# =========================================================================================================================
# helpers of svd_qn.py: add_outer, get_qn_mask, blockrecover, blockappend, optimized_svd, add_orthonormal_basis
# =========================================================================================================================
@_quiet
def contract_osvd(out, a, full, opt):
    fn, res = "optimized_svd", []
    add = lambda clause, ok, what: res.append((f"post:{fn}:{clause}", bool(ok), what))
    m, n = a.shape
    d = min(m, n)
    ok_shape = isinstance(out, tuple) and len(out) == 3
    if ok_shape:
        U, S, Vt = (np.asarray(x) for x in out)
        ok_shape = U.ndim == 2 and Vt.ndim == 2 and S.shape == (d,) and U.shape[0] == m and Vt.shape[1] == n and _finite(U, S, Vt)
        if ok_shape:
            cu, cv = U.shape[1], Vt.shape[0]
            if not full:
                ok_shape = cu == d and cv == d
            elif not opt:
                ok_shape = cu == m and cv == n
            else:
                ok_shape = ((cu == m) if m == d else (d < cu <= m)) and ((cv == n) if n == d else (d < cv <= n))
    add("shapes", ok_shape, lambda: f"a {a.shape} full={full} opt={opt}: shapes {[np.asarray(x).shape for x in out] if isinstance(out, tuple) else type(out)}")
    if not ok_shape:
        return res
    otol = ORTH_TOL_OPT if (full and opt) else ORTH_TOL
    eu, ev = _orth_err(U), _orth_err(Vt.conj().T)
    add("orthonormal_U", eu <= otol, lambda: f"max|U^H U - 1| = {eu:.3e}")
    add("orthonormal_Vt", ev <= otol, lambda: f"max|Vt Vt^H - 1| = {ev:.3e}")
    tol = RECON_KAPPA * EPS * max(float(np.abs(a).max()), 1e-300) * max(m, n)
    er = float(np.abs((U[:, :d] * S[None, :]) @ Vt[:d] - a).max())
    add("reconstructs", er <= tol, lambda: f"max|U[:, :d] diag(S) Vt[:d] - a| = {er:.3e} > {tol:.1e}")
    add("sorted_nonnegative", bool((S >= 0).all() and (S[:-1] >= S[1:]).all()), lambda: f"S = {S.tolist()}")
    ref = np.linalg.svd(a, compute_uv=False)
    es = float(np.abs(S - ref).max())
    add("singular_values", es <= tol, lambda: f"S differs from numpy.linalg.svd by {es:.3e}")
    return res


def osvd_matrix(kind, m, n, rng):
    if kind == "real":
        return rng.standard_normal((m, n))
    if kind == "complex":
        return rng.standard_normal((m, n)) + 1j * rng.standard_normal((m, n))
    if kind == "ones":
        return np.ones((m, n))
    if kind == "eye":
        return np.eye(m, n) * 0.5
    if kind == "zero":
        return np.zeros((m, n))
    raise ValueError(kind)


def worker_osvd(case, led):
    _, m, seed, tier = case
    from renormalizer.mps import svd_qn as Q
    rng = np.random.default_rng([seed, 181818, m])
    ns = list(range(1, 11)) + [13, 20, 31]
    for n in ns:
        for kind in ("real", "complex", "ones", "eye", "zero"):
            for tr in (False, True):
                if tr and m == n:
                    continue
                a = osvd_matrix(kind, n, m, rng) if tr else osvd_matrix(kind, m, n, rng)
                for full, opt in ((False, False), (False, True), (True, False), (True, True)):
                    key = ("osvd", a.shape, kind, full, opt)
                    fields = {"kind": kind, "full_matrices": full, "opt_full_matrices": opt, "shape": list(a.shape)}
                    rp = lambda a=a, full=full, opt=opt: {"call": "optimized_svd(a, full_matrices, opt_full_matrices)", "a": a,
                                                         "full_matrices": full, "opt_full_matrices": opt}
                    keep = a.copy()
                    okc, out = _call(Q.optimized_svd, a, full, opt)
                    if not okc:
                        led.check(False, "post:optimized_svd:returns", "optimized_svd", f"raised {out}", key, fields, rp())
                        continue
                    led.ok("post:optimized_svd:returns", "optimized_svd", key)
                    _emit(led, contract_osvd(out, keep, full, opt), "optimized_svd", key, fields, rp, a.size > 1)
                    _emit(led, [("frame:optimized_svd:input_unchanged", np.array_equal(a, keep), "optimized_svd modified its input")],
                          "optimized_svd", key, fields, rp)
    # ---- add_orthonormal_basis: contract on the span (random numbers inside)
    for n in range(1, 6):
        for mm in sorted({2 * n + 1, 2 * n + 2, 3 * n + m, 40 + m}):
            for cplx in (False, True):
                g = rng.standard_normal((mm, n)) + (1j * rng.standard_normal((mm, n)) if cplx else 0)
                u = np.linalg.qr(g)[0]
                keep = u.copy()
                key = ("aob", mm, n, cplx)
                fields = {"shape": [mm, n], "complex": cplx}
                rp = lambda u=keep: {"call": "add_orthonormal_basis(u)", "u": u}
                okc, out = _call(Q.add_orthonormal_basis, u)
                if not okc:
                    led.check(False, "post:add_orthonormal_basis:returns", "add_orthonormal_basis", f"raised {out}", key, fields, rp())
                    continue
                led.ok("post:add_orthonormal_basis:returns", "add_orthonormal_basis", key)
                out = np.asarray(out)
                shp = out.ndim == 2 and out.shape[0] == mm and n < out.shape[1] <= mm and _finite(out)
                rs = [("post:add_orthonormal_basis:shape", shp, lambda: f"result shape {out.shape} for u {u.shape}")]
                if shp:
                    e = _orth_err(out)
                    rs.append(("post:add_orthonormal_basis:orthonormal", e <= ORTH_TOL_OPT, lambda: f"max|R^H R - 1| = {e:.3e}"))
                    rs.append(("post:add_orthonormal_basis:keeps_u", np.array_equal(out[:, :n], keep),
                               "the first n columns are not the input basis (the span of u must be kept, in place)"))
                rs.append(("frame:add_orthonormal_basis:input_unchanged", np.array_equal(u, keep), "input modified"))
                _emit(led, rs, "add_orthonormal_basis", key, fields, rp)


def worker_util(case, led):
    _, idx, seed, tier = case
    from renormalizer.mps import svd_qn as Q
    rng = np.random.default_rng([seed, 18181818, idx])
    k = int(rng.integers(1, 4))
    # ---- add_outer: out[i..., j..., c] = a[i..., c] + b[j..., c]
    sa = tuple(int(x) for x in rng.integers(1, 4, size=int(rng.integers(1, 4))))
    sb = tuple(int(x) for x in rng.integers(1, 4, size=int(rng.integers(1, 4))))
    a = rng.integers(-2, 4, size=sa + (k,))
    b = rng.integers(-2, 4, size=sb + (k,))
    key = ("add_outer", sa, sb, k, idx)
    rp = lambda: {"call": "add_outer(a, b)", "a": a, "b": b}
    okc, out = _call(Q.add_outer, a.copy(), b.copy())
    if not okc:
        led.check(False, "post:add_outer:returns", "add_outer", f"raised {out}", key, {"qn_size": k}, rp())
    else:
        out = np.asarray(out)
        good = out.shape == sa + sb + (k,)
        if good:
            for ia in np.ndindex(*sa):
                for ib in np.ndindex(*sb):
                    for c in range(k):
                        if out[ia + ib + (c,)] != a[ia + (c,)] + b[ib + (c,)]:
                            good = False
        _emit(led, [("post:add_outer:elementwise_sum", good, lambda: f"add_outer wrong for shapes {a.shape} {b.shape}: got shape {out.shape}")],
              "add_outer", key, {"qn_size": k}, rp, len(sa) + len(sb) > 2 or k > 1)
    # ---- get_qn_mask: mask[i...] = all_c qnmat[i..., c] == qntot[c]
    qnmat = rng.integers(0, 3, size=sa + sb + (k,))
    qt = rng.integers(0, 3, size=k)
    for qtv, tag in ((qt, "array"), (tuple(int(x) for x in qt), "tuple"), ([int(x) for x in qt], "list")):
        key = ("mask", sa, sb, k, idx, tag)
        rp = lambda qtv=qtv: {"call": "get_qn_mask(qnmat, qntot)", "qnmat": qnmat, "qntot": qtv}
        okc, out = _call(Q.get_qn_mask, qnmat.copy(), qtv)
        if not okc:
            led.check(False, "post:get_qn_mask:returns", "get_qn_mask", f"raised {out}", key, {"qn_size": k}, rp())
            continue
        out = np.asarray(out)
        good = out.shape == sa + sb and out.dtype == bool
        if good:
            for ii in np.ndindex(*(sa + sb)):
                if bool(out[ii]) != all(int(qnmat[ii + (c,)]) == int(qt[c]) for c in range(k)):
                    good = False
        _emit(led, [("post:get_qn_mask:all_components_equal", good, lambda: f"mask wrong for qnmat shape {qnmat.shape}, qntot {qt.tolist()}")],
              "get_qn_mask", key, {"qn_size": k}, rp, k > 1 or qnmat.size > 1)
    # ---- blockrecover / blockappend
    dim = int(rng.integers(1, 9))
    nsel = int(rng.integers(1, dim + 1))
    ind = np.sort(rng.permutation(dim)[:nsel])
    ncol = int(rng.integers(1, nsel + 3))
    cplx = bool(rng.integers(2))
    Ub = rng.standard_normal((nsel, ncol)) + (1j * rng.standard_normal((nsel, ncol)) if cplx else 0)
    key = ("blockrecover", dim, tuple(ind.tolist()), ncol, cplx, idx)
    rp = lambda: {"call": "blockrecover(indices, U, dim)", "indices": ind, "U": Ub, "dim": dim}
    for ind_in, tag in ((ind, "array"), (ind.tolist(), "list")):
        okc, out = _call(Q.blockrecover, ind_in, Ub.copy(), dim)
        if not okc:
            led.check(False, "post:blockrecover:returns", "blockrecover", f"raised {out}", key + (tag,), {}, rp())
            continue
        out = np.asarray(out)
        want = np.zeros((dim, ncol), dtype=Ub.dtype)
        for t, r in enumerate(ind):
            for c in range(ncol):
                want[r, c] = Ub[t, c]
        good = out.shape == want.shape and out.dtype == Ub.dtype and np.array_equal(out, want)
        _emit(led, [("post:blockrecover:scatter_rows", good, lambda: f"rows {ind.tolist()} of a {dim}-row array: wrong scatter/zero fill/dtype "
                     f"({out.dtype}, {out.shape})")], "blockrecover", key + (tag,), {}, rp, dim > 1)
    ncolv = int(rng.integers(1, nsel + 1)) if rng.integers(2) else nsel
    v = rng.standard_normal((nsel, ncolv))
    d = int(rng.integers(0, ncolv + 1))
    lab = tuple(int(x) for x in rng.integers(0, 3, size=k))
    for full in (True, False):
        pre = [np.full((dim, 1), 7.0)]
        l1, l0, q1, q0, s0 = list(pre), list(pre), [(9,) * k], [(8,) * k], [np.array([5.0])]
        key = ("blockappend", dim, tuple(ind.tolist()), ncolv, d, full, idx)
        rp = lambda full=full: {"call": "blockappend(l, l0, qn, qn0, sv0, v, n, dim, indice, shape, full_matrices)", "v": v, "n": lab, "dim": d,
                                "indice": ind, "shape": dim, "full_matrices": full}
        okc, out = _call(Q.blockappend, l1, l0, q1, q0, s0, v.copy(), lab, d, ind, dim, full_matrices=full)
        if not okc:
            led.check(False, "post:blockappend:returns", "blockappend", f"raised {out}", key, {"full_matrices": full}, rp())
            continue
        want1 = np.zeros((dim, d))
        want1[ind, :] = v[:, :d]
        want0 = np.zeros((dim, ncolv - d))
        want0[ind, :] = v[:, d:]
        good = (len(l1) == 2 and np.array_equal(l1[0], pre[0]) and np.array_equal(l1[1], want1) and [tuple(x) for x in q1] == [(9,) * k] + [lab] * d)
        if full:
            good = good and (len(l0) == 2 and np.array_equal(l0[1], want0) and [tuple(x) for x in q0] == [(8,) * k] + [lab] * (ncolv - d)
                             and len(s0) == 2 and np.array_equal(s0[1], np.zeros(ncolv - d)))
        else:
            good = good and len(l0) == 1 and len(q0) == 1 and len(s0) == 1
        _emit(led, [("post:blockappend:appends_split_block", good, lambda: f"lists after blockappend(dim={d}, cols={ncolv}, full={full}) are not "
                     f"(kept columns | complement columns with zero s) with one label per column")], "blockappend", key, {"full_matrices": full}, rp)


# =========================================================================================================================
# Krylov exponential
# =========================================================================================================================
FAMILIES = ("random", "degenerate", "rankdef", "clustered", "diagonal", "zero", "scalar", "chain", "shifted")
PHASES = ("+", "-", "+i", "-i", "c+", "npc-")


def random_unitary(n, cplx, rng):
    g = rng.standard_normal((n, n)) + (1j * rng.standard_normal((n, n)) if cplx else 0)
    q, r = np.linalg.qr(g)
    return q


def kry_matrix(family, n, cplx, rng):
    """Hermitian A with ||A||_2 = 1 (0 for 'zero') and an eigenbasis Q (columns)"""
    if family == "chain":       # nearest-neighbour hopping with on-site disorder (what the local effective Hamiltonians look like)
        A = np.zeros((n, n), dtype=complex if cplx else float)
        A[np.arange(n), np.arange(n)] = rng.uniform(-0.3, 0.3, n)
        for i in range(n - 1):
            t = -1.0 * (np.exp(1j * rng.uniform(0, 2 * np.pi)) if cplx else 1.0)
            A[i, i + 1], A[i + 1, i] = t, np.conj(t)
        nrm = np.linalg.norm(A, 2)
        A = A / nrm if nrm > 0 else A
        return A, np.linalg.eigh(A)[1]
    if family == "random":
        w = rng.uniform(-1, 1, n)
    elif family == "degenerate":
        vals = rng.permutation([-1.0, -0.3, 0.4, 1.0])[:int(rng.integers(1, 4))]
        w = rng.choice(vals, size=n)
    elif family == "rankdef":
        w = np.zeros(n)
        r = max(1, n // 4)
        w[:r] = rng.uniform(-1, 1, r)
    elif family == "clustered":
        w = rng.choice([-1.0, 0.2, 1.0], size=n) + 1e-9 * rng.uniform(-1, 1, n)
    elif family == "diagonal":
        w = rng.choice(rng.uniform(-1, 1, n // 2 + 1), size=n)
    elif family == "zero":
        w = np.zeros(n)
    elif family == "scalar":
        w = np.full(n, float(rng.choice([-1.0, 1.0])))
    elif family == "shifted":
        w = rng.uniform(0.8, 1.0, n)
    else:
        raise ValueError(family)
    if np.abs(w).max() > 0:
        w = w / np.abs(w).max()
    if family in ("diagonal", "zero", "scalar"):
        A = np.diag(w).astype(complex if cplx else float)
        return A, np.eye(n)
    Q = random_unitary(n, cplx, rng)
    A = (Q * w[None, :]) @ Q.conj().T
    A = (A + A.conj().T) / 2
    return A, Q


def kry_blocks(n, tier):
    base = {2, 3, 5, 50}
    base |= {b for b in (n - 1, n, n + 1, (n + 1) // 2) if 2 <= b <= 50}
    if tier != "quick":
        base |= {4, 7, 10, 16, 25, 49} | {b for b in (n // 3, n // 2 + 1, n - 2) if 2 <= b <= 50}
    return sorted(base)


COMBOS = ((0.1, 1.0), (2.5, 0.05), (5.0, 1.0), (5.0, 40.0))       # (||A|| |dt|, ||A||)
VNORMS = ("1", "1e3", "1e-6")     # the result must not depend on the norm of the start vector (stopping test on normalised iterates)
_STATS = None      # calibration hook (tools / by hand): dict slice -> worst err/||v|| ; never set during a check


def worker_kry(case, led):
    _, family, n, cplx, icombo, seed, tier = case
    from renormalizer.lib.krylov.krylov import expm_krylov
    rng = np.random.default_rng([seed, 180, n, int(cplx), sum(map(ord, family))])
    A0, Q = kry_matrix(family, n, cplx, rng)
    rng = np.random.default_rng([seed, 181, n, int(cplx), sum(map(ord, family)), icombo])
    theta, scale = COMBOS[icombo]
    starts = ["random", "e0", "inv1", "inv2", "inv3", "near"]
    A = A0 * scale
    mag = theta / scale
    for ph in PHASES:
        dt = {"+": mag, "-": -mag, "+i": 1j * mag, "-i": -1j * mag, "c+": complex(mag, 0.0), "npc-": np.complex128(-mag)}[ph]
        dt_kind = "imaginary" if ph in ("+i", "-i") else "real"
        E = scipy.linalg.expm(complex(dt) * A.astype(complex))
        for st in starts:
            vc = cplx or (dt_kind == "imaginary" and bool(rng.integers(2)))
            # a REAL start vector under a complex Hermitian matrix (the Krylov vectors are complex although the start is not): generic and unit-vector starts
            # (the invariant-subspace starts are built from the complex eigenvectors)
            if cplx and st in ("random", "e0") and ph in ("+", "-i", "c+"):
                vc = False
            kk = {"inv1": 1, "inv2": 2, "inv3": 3, "near": 2}.get(st)
            if kk is not None and kk > n:
                continue
            if st == "random":
                v = rng.standard_normal(n) + (1j * rng.standard_normal(n) if vc else 0)
            elif st == "e0":
                v = np.zeros(n, dtype=complex if vc else float)
                v[int(rng.integers(n))] = 1.0
            else:
                sel = rng.permutation(n)[:kk]
                c = rng.standard_normal(kk) + (1j * rng.standard_normal(kk) if vc else 0)
                v = Q[:, sel] @ c
                if not vc:
                    v = v.real if np.iscomplexobj(v) else v
                if st == "near":
                    v = v + 1e-9 * np.linalg.norm(v) * rng.standard_normal(n)
            if np.linalg.norm(v) == 0:
                continue
            vnorm = VNORMS[int(rng.integers(len(VNORMS)))]
            v = v / np.linalg.norm(v) * float(vnorm)
            ref = E @ v
            nv = float(np.linalg.norm(v))
            nref = float(np.linalg.norm(ref))
            for bs in kry_blocks(n, tier):
                key = ("kry", family, n, cplx, icombo, ph, st, bs, seed)
                fields = {"family": family, "start": st, "phase": ph, "dt_kind": dt_kind, "normA_dt": theta, "v_norm": vnorm, "n": n,
                          "block_size": bs}

                def rp(v=v, dt=dt, bs=bs, st=st, vnorm=vnorm):
                    d = {"call": "expm_krylov(lambda x: A @ x, dt, v, block_size)", "family": family, "n": n, "complex_A": cplx, "seed": seed,
                         "norm_A": scale, "normA_times_dt": theta, "dt": complex(dt), "dt_type": type(dt).__name__, "start": st,
                         "v_norm": vnorm, "block_size": bs, "case": list(case),
                         "how": "props.C18.worker_kry(case, Ledger()) regenerates A = kry_matrix(...) * norm_A and v from the case tuple"}
                    if n <= 12:
                        d["A"], d["v"] = A, v
                    return d

                keep = v.copy()
                okc, out = _call(expm_krylov, lambda x: A @ x, dt, v, bs)
                if not okc:
                    led.check(False, "post:expm_krylov:returns", "expm_krylov", f"raised {out}", key, fields, rp(), n > 1)
                    continue
                led.ok("post:expm_krylov:returns", "expm_krylov", key, n > 1)
                good = isinstance(out, tuple) and len(out) == 2 and np.asarray(out[0]).shape == (n,) and _finite(out[0])
                rs = [("post:expm_krylov:result_shape", good, lambda: f"expected (vector of length {n}, count), got {type(out)}")]
                if good:
                    res, j = np.asarray(out[0]), out[1]
                    with np.errstate(all="ignore"):
                        err = float(np.linalg.norm(res - ref))
                    if not np.isfinite(err):
                        err = float("inf")
                    if _STATS is not None:
                        sl = (dt_kind, theta, vnorm)
                        o = _STATS.get(sl, (0.0, 0.0))
                        _STATS[sl] = (max(o[0], err / nv), max(o[1], err / (KRYLOV_OWN_RTOL * nref + KRYLOV_OWN_ATOL * np.sqrt(n) * nv)))
                    bound = KRYLOV_OWN_RTOL * nref + KRYLOV_OWN_ATOL * np.sqrt(n) * nv
                    rs.append(("post:expm_krylov:accuracy", err <= bound,
                               lambda: f"||result - expm(dt A) v|| = {err:.3e} > 1e-5 ||expm(dt A) v|| + 1e-8 sqrt(n) ||v|| = {bound:.3e}  (the "
                                       f"function's own stopping tolerance; relative to ||v||: {err / nv:.2e}; ||A|| |dt| = {theta}, dt {dt_kind}, "
                                       f"||v|| = {vnorm}, ||expm(dt A) v|| = {nref:.3e}, {j} Lanczos vectors)"))
                    if dt_kind == "imaginary" or theta <= 0.1:
                        rs.append(("post:expm_krylov:accuracy_1e-6_of_start_norm", err <= KRYLOV_RTOL * nv,
                                   lambda: f"||result - expm(dt A) v|| = {err:.3e} > 1e-6 ||v|| = {KRYLOV_RTOL * nv:.3e}  (relative {err / nv:.2e}; "
                                           f"||A|| |dt| = {theta}, dt {dt_kind}, ||v|| = {vnorm}, ||expm(dt A) v|| = {nref:.3e}, {j} Lanczos vectors)"))
                    rs.append(("post:expm_krylov:vector_count", isinstance(j, (int, np.integer)) and 1 <= j <= n,
                               lambda: f"number of Lanczos vectors {j!r} not in 1..{n}"))
                rs.append(("frame:expm_krylov:start_vector_unchanged", np.array_equal(v, keep), "vstart modified in place"))
                _emit(led, rs, "expm_krylov", key, fields, rp, n > 1)


# ========================================================================================================================= ODE solver (vendored RK23 / RK45)
def worker_ivp(case, led):
    """renormalizer.lib.solve_ivp as the evolution schemes call it (explicit embedded Runge-Kutta pairs, adaptive step): the returned end state solves
    y' = f(t, y), y(t0) = y0 to the requested tolerance - for AUTONOMOUS and for explicitly TIME-DEPENDENT right-hand sides (H(t) callables reach it through the
    variational schemes), complex vectors, forward intervals that do not start at 0"""
    _, method, problem, n, seed, tier = case
    import scipy.integrate
    from renormalizer.lib import solve_ivp
    rng = np.random.default_rng([seed, 195, n, sum(map(ord, method + problem))])
    y0 = rng.standard_normal(n) + 1j * rng.standard_normal(n)
    t0, t1 = (0.0, 0.9) if problem != "shifted" else (0.4, 1.1)
    if problem == "autonomous":
        B = rng.standard_normal((n, n)) + 1j * rng.standard_normal((n, n))
        A = -0.2 * np.eye(n) + 0.7j * (B + B.conj().T) / np.sqrt(n)
        f = lambda t, y: A @ y                                        # noqa: E731
        exact = scipy.linalg.expm((t1 - t0) * A) @ y0
    elif problem in ("diagonal-in-time", "shifted"):
        k = np.arange(n)
        a, b = -0.3 + 1j * (1 + k), (0.5 + 0.2j * k)
        f = lambda t, y: (a + b * np.cos(3 * t)) * y                  # noqa: E731  explicitly time dependent, exactly solvable
        exact = y0 * np.exp(a * (t1 - t0) + b * (np.sin(3 * t1) - np.sin(3 * t0)) / 3)
    else:                                                              # "driven-matrix": H0 + g(t) V
        B0 = rng.standard_normal((n, n)) + 1j * rng.standard_normal((n, n))
        B1 = rng.standard_normal((n, n))
        H0, V = (B0 + B0.conj().T) / np.sqrt(n), (B1 + B1.T) / np.sqrt(n)
        f = lambda t, y: -1j * ((H0 + (1.5 * np.sin(3 * t) + 2 * t) * V) @ y)      # noqa: E731
        exact = scipy.integrate.solve_ivp(f, (t0, t1), y0, method="DOP853", rtol=1e-12, atol=1e-14).y[:, -1]
    rtol, atol = 1e-8, 1e-10
    key = ("ivp", method, problem, n, seed)
    fields = {"method": method, "time_dependent": problem != "autonomous"}
    rp = {"method": method, "problem": problem, "n": n, "seed": seed, "t_span": [t0, t1], "rtol": rtol, "atol": atol,
          "how": "props.C18.worker_ivp(case, Ledger()) regenerates the right-hand side and y0 from the case tuple"}
    try:
        sol = solve_ivp(f, (t0, t1), y0.copy(), method=method, rtol=rtol, atol=atol)
        y = np.asarray(sol.y).reshape(n, -1)[:, -1]
    except Exception as ex:
        led.check(False, "post:solve_ivp:returns", "solve_ivp", f"raised {type(ex).__name__}: {ex}", key, fields, rp, n > 1)
        return
    err = float(np.linalg.norm(y - exact))
    bound = 300 * (rtol * float(np.linalg.norm(exact)) + atol * np.sqrt(n))
    led.check(err <= bound, "post:solve_ivp:end_state_within_tolerance", "solve_ivp",
              f"{method} on {problem}: |y(t1) - exact| = {err:.3e} > {bound:.3e} (rtol {rtol}, atol {atol}, {getattr(sol, 'nfev', '?')} evaluations)", key, fields, rp, n > 1)


# ========================================================================================================================= Davidson eigensolver
def worker_dav(case, led):
    """renormalizer.lib.davidson as the optimisers call it (matrix-free product, diagonal preconditioner, nroots 1..3, tol 1e-12, max_cycle 100):
    every returned (e_k, x_k) is an eigenpair of the Hermitian matrix up to the solver's convergence, the values are the LOWEST eigenvalues in order, never below
    them (Ritz values are upper bounds), the vectors are orthonormal; real symmetric and complex Hermitian matrices, degenerate and clustered low ends"""
    _, family, n, cplx, nroots, seed, tier = case
    from renormalizer.lib import davidson
    rng = np.random.default_rng([seed, 190, n, int(cplx), nroots, sum(map(ord, family))])
    Q = random_unitary(n, cplx, rng)
    if family == "random":
        ev = np.sort(rng.uniform(-2, 2, size=n))
    elif family == "degenerate":        # the two lowest levels coincide
        ev = np.sort(rng.uniform(-1, 2, size=n))
        ev[1] = ev[0]
    elif family == "clustered":
        ev = np.sort(rng.uniform(0, 2, size=n))
        ev[:3] = [-1.0, -1.0 + 1e-3, -1.0 + 2e-3][: min(3, n)]
    else:                                # "dominant-diagonal": what DMRG local problems look like
        ev = None
    if ev is not None:
        A = (Q * ev[None, :]) @ Q.conj().T
    else:
        B = rng.standard_normal((n, n)) + (1j * rng.standard_normal((n, n)) if cplx else 0)
        A = np.diag(np.sort(rng.uniform(-3, 3, size=n))) + 0.05 * (B + B.conj().T)
    A = (A + A.conj().T) / 2
    if not cplx:
        A = A.real
    w = np.linalg.eigvalsh(A)
    hdiag = np.real(np.diag(A)).copy()
    guesses = [rng.standard_normal(n) + (1j * rng.standard_normal(n) if cplx else 0) for _ in range(nroots)]
    key = ("dav", family, n, cplx, nroots, seed)
    fields = {"family": family, "complex": bool(cplx), "nroots": nroots}
    rp = {"family": family, "n": n, "complex": bool(cplx), "nroots": nroots, "seed": seed,
          "how": "props.C18.worker_dav(case, Ledger()) regenerates the Hermitian matrix and the guesses from the case tuple"}
    try:
        e, c = davidson(lambda x: A @ x, [g.copy() for g in guesses], lambda x, e_, *a: x / (hdiag - e_ + 1e-4), max_cycle=100, nroots=nroots, max_memory=64000)
    except Exception as ex:
        led.check(False, "post:davidson:returns", "davidson", f"raised {type(ex).__name__}: {ex}", key, fields, rp, n > nroots)
        return
    led.ok("post:davidson:returns", "davidson", key + ("returns",), n > nroots)
    es = np.atleast_1d(np.asarray(e, dtype=float))
    cs = [np.asarray(c)] if nroots == 1 and np.asarray(c).ndim == 1 else [np.asarray(x) for x in c]
    scale = max(1.0, float(np.abs(w).max()))
    rs = []
    rs.append(("post:davidson:number_of_roots", len(es) == min(nroots, n) and len(cs) == len(es), lambda: f"{len(es)} values, {len(cs)} vectors for nroots={nroots}, n={n}"))
    k = min(len(es), len(cs))
    if k:
        # what holds whether or not the iteration converged (it need not, for matrices that are far from diagonal): Ritz pairs of an orthonormal basis
        ray = max(abs(float(np.real(np.vdot(cs[i], A @ cs[i]) / max(np.vdot(cs[i], cs[i]).real, 1e-300))) - es[i]) for i in range(k))
        rs.append(("post:davidson:values_are_rayleigh_quotients_of_the_vectors", ray <= 1e-8 * scale, lambda: f"|<x|A|x>/<x|x> - e| = {ray:.3e}"))
        low = float(np.max(w[:k] - np.sort(es[:k])))
        rs.append(("post:davidson:values_are_upper_bounds_of_the_lowest_levels", low <= 1e-9 * scale,
                   lambda: f"returned {np.sort(es[:k])} fall below the exact lowest levels {w[:k]} by {low:.3e} (Cauchy interlacing)"))
        if family == "dominant-diagonal":
            # the matrices the optimisers produce (diagonal preconditioner effective): converged eigenpairs of the lowest levels
            res = max(float(np.linalg.norm(A @ cs[i] - es[i] * cs[i]) / max(np.linalg.norm(cs[i]), 1e-300)) for i in range(k))
            rs.append(("post:davidson:eigenpairs", res <= 1e-5 * scale, lambda: f"largest residual |A x - e x| / |x| = {res:.3e}"))
            off = float(np.max(np.abs(np.sort(es[:k]) - w[:k])))
            rs.append(("post:davidson:lowest_levels_found", off <= 1e-6 * scale, lambda: f"returned {np.sort(es[:k])}, exact lowest {w[:k]} (difference {off:.3e})"))
        G = np.array([[np.vdot(cs[i], cs[j]) for j in range(k)] for i in range(k)])
        orth = float(np.abs(G - np.eye(k)).max())
        rs.append(("post:davidson:vectors_orthonormal", orth <= 1e-6, lambda: f"|X^H X - 1| = {orth:.3e}"))
    _emit(led, rs, "davidson", key, fields, lambda: rp, n > nroots)


# =========================================================================================================================
def worker(case, led):
    np.random.seed(zlib.crc32(repr(case).encode()))     # add_orthonormal_basis draws from the global RNG: make it reproducible
    tag = case[0]
    if tag == "kry":
        worker_kry(case, led)
    elif tag == "kryalias":
        worker_kry_alias(case, led)
    elif tag == "dav":
        worker_dav(case, led)
    elif tag == "ivp":
        worker_ivp(case, led)
    elif tag == "qnx":
        worker_qnx(case, led)
    elif tag == "qnr":
        worker_qnr(case, led)
    elif tag == "osvd":
        worker_osvd(case, led)
    elif tag == "util":
        worker_util(case, led)
    else:
        raise ValueError(case)


def worker_kry_alias(case, led):
    """operators given as callables that hand back their argument (the identity), a view of it, or a block that is the identity on part of the vector: legal
    representations of a Hermitian A - the result is exp(dt A) v and the start vector is untouched"""
    _, n, seed, tier = case
    from renormalizer.lib.krylov.krylov import expm_krylov
    rng = np.random.default_rng([seed, 188, n])
    d = rng.uniform(-1.0, 1.0, size=n)
    half = n // 2
    ops = [("returns its argument", lambda x: x, np.ones(n)), ("returns a view of its argument", lambda x: x[:], np.ones(n)),
           ("diagonal, fresh array", lambda x: d * x, d)]
    if half >= 1:
        dd = np.concatenate([np.ones(half), d[half:]])

        def part(x, dd=dd):
            y = x.copy()
            y[half:] = dd[half:] * x[half:]
            return y
        ops.append(("identity on the first half", part, dd))
    for name, f, diag in ops:
        for dt in (0.5, -0.5j, 0.25j):
            for cplx in (False, True):
                v = rng.standard_normal(n) + (1j * rng.standard_normal(n) if cplx else 0)
                keep = v.copy()
                key = ("kryalias", n, name, str(dt), cplx, seed)
                rep = {"n": n, "operator": name, "dt": str(dt), "complex_start": cplx, "seed": seed, "how": "expm_krylov(f, dt, v) with f as named; reference exp(dt * diag) * v"}
                try:
                    r, _k = expm_krylov(f, dt, v)
                except Exception as e:
                    led.check(False, "post:expm_krylov:returns", "expm_krylov", f"raised {type(e).__name__}: {e} for an operator that {name}", key, {"operator": name}, rep)
                    continue
                ref = np.exp(dt * diag) * keep
                err = float(np.linalg.norm(np.asarray(r) - ref))
                led.check(err <= 1e-6 * float(np.linalg.norm(keep)), "post:expm_krylov:accuracy_for_operators_that_alias_their_argument", "expm_krylov",
                          f"operator that {name}: ||result - exp(dt A) v|| = {err:.3e} (||v|| = {np.linalg.norm(keep):.3e})", key, {"operator": name}, rep)
                led.check(np.array_equal(v, keep), "frame:expm_krylov:start_vector_unchanged", "expm_krylov", "vstart modified in place", key + ("frame",), {"operator": name}, rep)


def kry_sizes(tier):
    if tier == "quick":
        return [1, 2, 3, 4, 6, 9, 17, 33, 60]
    return [1, 2, 3, 4, 5, 6, 7, 8, 9, 10, 12, 16, 17, 25, 33, 48, 51, 60]


def enumerate_cases(run):
    seed, tier = run.seed, run.tier
    quick = tier == "quick"
    cases = []
    # Krylov
    seeds = [seed] if quick else [seed, seed + 1]
    for s in seeds:
        for fam in FAMILIES:
            for n in kry_sizes(tier):
                for cplx in (False, True):
                    ics = range(len(COMBOS)) if not quick else sorted({(n + len(fam) + int(cplx) + s) % 4, (n + len(fam) + int(cplx) + s + 2 + n % 2) % 4})
                    for ic in ics:
                        cases.append(("kry", fam, n, cplx, ic, s, tier))
    for s in seeds:
        for n in (1, 2, 3, 7, 20):
            cases.append(("kryalias", n, s, tier))
    # vendored ODE solver: autonomous and explicitly time-dependent right-hand sides
    for s in seeds:
        for method in ("RK45", "RK23"):
            for problem in ("autonomous", "diagonal-in-time", "shifted", "driven-matrix"):
                for n in ((1, 6) if quick else (1, 3, 6, 15)):
                    cases.append(("ivp", method, problem, n, s, tier))
    # Davidson eigensolver (matrix-free, diagonal preconditioner, 1..3 roots)
    for s in seeds:
        for fam in ("random", "degenerate", "clustered", "dominant-diagonal"):
            for n in ((8, 40) if quick else (3, 8, 20, 40, 90)):
                for cplx in (False, True):
                    for nroots in (1, 2, 3):
                        if nroots <= n:
                            cases.append(("dav", fam, n, cplx, nroots, s, tier))
    # exhaustive label universe: one component, all ordered label assignments
    nk1 = 2 if quick else len(KINDS)
    for m in (1, 2, 3):
        for n in (1, 2, 3):
            for irow in range(len(row_patterns(1, m, True))):
                cases.append(("qnx", 1, m, n, irow, True, nk1, seed, tier))
    # two components {0,1}^2: quick = all label multisets in a seeded order; thorough = all ordered assignments
    for m in (1, 2, 3):
        for n in (1, 2, 3):
            for irow in range(len(row_patterns(2, m, not quick))):
                cases.append(("qnx", 2, m, n, irow, not quick, 2, seed, tier))
    for idx in range(420 if quick else 4200):
        cases.append(("qnr", idx, seed, tier))
    for m in range(1, 11):
        cases.append(("osvd", m, seed, tier))
    for idx in range(300 if quick else 3000):
        cases.append(("util", idx, seed, tier))
    return cases


def check(run):
    from props import C18_kernel
    guarded(run, C18_kernel.prove)
    guarded(run, C18_kernel.prove_eigh)
    cases = enumerate_cases(run)
    batch = len(cases) if run.tier == "quick" else 3000
    order = np.random.default_rng(run.seed).permutation(len(cases))     # balance long and short cases over the pool
    cases = [cases[i] for i in order]
    for i in range(0, len(cases), batch):
        run_cases(run, worker, cases[i:i + batch])
    quick = run.tier == "quick"
    run.exhaustive = True
    run.rule = (
        "svd_qn/eigh_qn: EXHAUSTIVE over all ordered label assignments on m x n index blocks, m,n in 1..3, one component with labels {0,1,2} "
        "and qntot in 0..4 (7 605 patterns), and two components with labels {0,1}^2, qntot in {0,1,2}^2 ("
        + ("all label multisets per side in a seeded order, 10 404 patterns" if quick else "all 63 504 ordered patterns")
        + "); patterns without any allowed entry are outside the domain and skipped; every pattern is run in 9 modes (SVD economic, SVD full "
        "with/without opt_full_matrices, QR L/R economic and full, eigh L/R) on " + ("2" if quick else "7 (one component) / 2 (two components)")
        + " matrix kinds rotating over {real, complex, Bell-like identity blocks (exactly degenerate s), identical blocks in different sectors, "
        "rank-one blocks, a zero sector, complex Bell-like}, forbidden entries filled with noise in half of the cases; plus seeded larger cases "
        "with the index shapes of mp.py:_get_big_qn (1-site L/R, 2-site, flat up to 12x12, unbalanced sectors up to 40x7 for the "
        "add_orthonormal_basis path, 1-3 components, negative labels, alphabet {0,1,2}^2). optimized_svd: all shapes m in 1..10 x n in "
        "{1..10,13,20,31} and transposes x 5 kinds x 4 flag combinations. expm_krylov: 9 spectrum families {random, degenerate, rank-deficient, "
        "clustered(1e-9), diagonal, zero, scalar, hopping chain, positive} x n in " + str(kry_sizes(run.tier)) + " x real/complex Hermitian x "
        "(||A|| |dt|, ||A||) in {(0.1,1),(2.5,0.05),(5,1),(5,40)}" + (" (2 of 4 per matrix)" if quick else "") + " x dt in {+,-,+i,-i, complex-typed "
        "real +, numpy complex-typed real -} x start vectors {random, unit vector, inside an invariant subspace of dimension 1,2,3, 1e-9-near a "
        "2-dim invariant subspace} with norms {1,1e3,1e-6} x block sizes {2,3,5,50,n-1,n,n+1,(n+1)/2" + ("" if quick else ",4,7,10,16,25,49,n/3,n/2+1,n-2")
        + "}. non-trivial = more than one matrix entry / n >= 2; distinct = distinct (label pattern or seeded index, matrix kind, mode) resp. "
        "(family, n, dtype, dt, start, block size) tuples per contract clause")
    run.sample({"function": "svd_qn", "qnbigl": [[0], [1], [0]], "qnbigr": [[1], [0], [2]], "qntot": [1], "mode": "svd-economic", "kind": "eye",
                "contract": "U^H U = V^H V = 1; U diag(S) V^T = mask(M); new_qnl + new_qnr = qntot column-wise; S non-increasing; su == sv"})
    run.sample({"function": "svd_qn", "qnbigl": "add_outer(qnl, sigmaqn) of shape (l, d, 2)", "qnbigr": "(r, 2)", "mode": "svd-full-opt",
                "contract": "first K = sum_b min(m_b, n_b) columns as above, remaining columns have s == 0, correct labels, and span the sector complement"})
    run.sample({"function": "expm_krylov", "family": "degenerate", "n": 33, "dt": "-0.125j", "norm_A": 40.0, "start": "inv2", "block_size": 17,
                "contract": "||result - scipy.linalg.expm(dt*A) @ v|| <= 1e-5 ||expm(dt A) v|| + 1e-8 sqrt(n) ||v|| (the function's own stopping "
                            "tolerance) and, for imaginary dt or ||A|| |dt| <= 0.1, <= 1e-6 ||v||; 1 <= vector count <= n; start vector unchanged"})
    run.explanation = ("Bounded runtime-contract check (Engine B) only; no proof is claimed. The label universe of the blocked decompositions is "
                       "enumerated completely up to the stated bound, the matrix entries and the Krylov inputs are structured samples. The oracles "
                       "(mask by direct label arithmetic, numpy SVD of the masked matrix, scipy.linalg.expm) share no code with the functions under contract.")
    run.trusted += ["scipy.linalg.expm (Pade with scaling and squaring) as the reference for exp(dt*A) v",
                    "numpy.linalg.svd / numpy matrix products of the explicitly masked dense matrix as the reference for the blocked decompositions"]
