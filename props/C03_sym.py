"""Engine S part of C03: the real arithmetic methods run on symbolic tensors; identities hold for ALL tensor values at each enumerated shape."""
import numpy as np

from vk.specs import chain as S
from vk.specs import universe as U
from vk.specs import dyn as Dn
from vk.symx import shims as SH
from vk.symx.harness import decide, decide_true, native_pair, native_cond
from vk.symx.poly import Poly, VarFactory


def vdot(x, y):
    tot = Poly()
    for a, b in zip(np.asarray(x, dtype=object).reshape(-1), np.asarray(y, dtype=object).reshape(-1)):
        tot = tot + Poly.coerce(a).conjugate() * b
    return tot


def shapes(tier):
    if tier == "quick":
        return [("spinqn", 2), ("spinqn", 3), ("spin2qn", 3), ("holstein", 2), ("holstein", 3)]
    return [("spinqn", 2), ("spinqn", 3), ("spinqn", 4), ("spin2qn", 3), ("spin2qn", 4), ("holstein", 2), ("holstein", 3), ("holstein", 4), ("spin", 3)]


def prove(run):
    from renormalizer.mps import Mpo
    n_cases = 0
    for name, n in shapes(run.tier):
        rng = np.random.default_rng([run.seed, n, 303, sum(map(ord, name))])
        model, terms, sectors = Dn.hamiltonian(name, n, rng)
        H = Mpo(model, terms)
        eo = [(op, ch) for op, ch, s in U.elem_ops(model) if any(ch)]
        for q in sectors[1:3] if len(sectors) > 2 else sectors[:1]:
            a0 = U.make_state(model, q, 3, rng)
            b0 = U.make_state(model, q, 2, rng)
            if a0 is None or b0 is None:
                continue
            gauges = [("fresh", None), ("cano", None), ("center", 0), ("center", n // 2)]
            for ga, ka in gauges:
                for gb, kb in gauges[:3] if run.tier == "quick" else gauges:
                    at = S.apply_gauge(a0, ga, ka)
                    bt = S.apply_gauge(b0, gb, kb)
                    vf = VarFactory()
                    a = SH.symbolic_state(at, vf)
                    b = SH.symbolic_state(bt, vf)
                    case = {"model": name, "nsites": n, "sector": q, "gauge_a": [ga, ka], "gauge_b": [gb, kb],
                            "bond_dims_a": list(at.bond_dims), "bond_dims_b": list(bt.bond_dims), "variables": vf.n}
                    tag = f"{name}{n}:q{q}:{ga}{ka}:{gb}{kb}"
                    n_cases += 1
                    atc, btc = S.complexify(at, rng), S.complexify(bt, rng)
                    how = ("props.C03_sym: states U.make_state(model, q, 3|2, rng[seed, n, 303, name]) brought to the gauges by vk.specs.chain.apply_gauge, entries multiplied by "
                           "random phases (vk.specs.chain.complexify); the identity is evaluated on the real float code")

                    def num_replay(op):
                        if op == "add":
                            return native_pair(lambda: (S.dense(atc.copy().add(btc.copy())), S.dense(atc) + S.dense(btc)), how)
                        return native_pair(lambda: (S.dense(atc.copy() - btc.copy()), S.dense(atc) - S.dense(btc)), how)

                    def frame_replay():
                        x, y = atc.copy(), btc.copy()
                        vx, vy = S.dense(x), S.dense(y)
                        x.add(y)
                        return np.concatenate([S.dense(x), S.dense(y)]), np.concatenate([vx, vy])
                    with SH.symbolic_mode():
                        da, db = S.dense(a), S.dense(b)
                        c = a.add(b)
                        decide(run, f"post:MatrixProduct.add:dense_sum@{tag}", "MatrixProduct.add", S.dense(c), da + db, case, num_replay("add"))
                        decide_true(run, f"post:MatrixProduct.add:qn_valid@{tag}", "MatrixProduct.add", not S.qnv_violations(c),
                                    f"labels invalid: {S.qnv_violations(c)[:1]}", case,
                                    numeric_replay=native_cond(lambda: (lambda v_: (not v_, v_[:1]))(S.qnv_violations(atc.copy().add(btc.copy()))), how))
                        decide(run, f"frame:MatrixProduct.add:operands@{tag}", "MatrixProduct.add",
                               np.concatenate([S.dense(a), S.dense(b)]), np.concatenate([da, db]), case, native_pair(frame_replay, how))
                        d = a - b
                        decide(run, f"post:MatrixProduct.__sub__:dense_difference@{tag}", "MatrixProduct.__sub__", S.dense(d), da - db, case, num_replay("sub"))
                        decide(run, f"post:MatrixProduct.dot:overlap@{tag}", "MatrixProduct.dot", a.conj().dot(b), vdot(da, db), case,
                               native_pair(lambda: (atc.conj().dot(btc), np.vdot(S.dense(atc), S.dense(btc))), how))
                        decide(run, f"post:MatrixProduct.conj:dense_conj@{tag}", "MatrixProduct.conj", S.dense(a.conj()),
                               np.array([Poly.coerce(x).conjugate() for x in da], dtype=object), case,
                               native_pair(lambda: (S.dense(atc.conj()), S.dense(atc).conj()), how))
                        for val in (0.5, -2.0):
                            decide(run, f"post:MatrixProduct.scale:dense_scale[{val}]@{tag}", "MatrixProduct.scale", S.dense(a.scale(val)), da * val, case,
                                   native_pair((lambda v_: lambda: (S.dense(atc.scale(v_)), S.dense(atc) * v_))(val), how))
            # operators on symbolic states (numeric operator tensors lifted exactly)
            for ga, ka in gauges:
                at = S.apply_gauge(a0, ga, ka)
                vf = VarFactory()
                a = SH.symbolic_state(at, vf)
                Hs = SH.numeric_to_symbolic_const(H)
                case = {"model": name, "nsites": n, "sector": q, "gauge_a": [ga, ka], "terms": [repr(t) for t in terms]}
                tag = f"{name}{n}:q{q}:{ga}{ka}"
                atc = S.complexify(at, rng)
                how = ("props.C03_sym: state U.make_state(model, q, 3, rng[seed, n, 303, name]) in the gauge with random phases (vk.specs.chain.complexify), "
                       "H = Mpo(model, terms); evaluated on the real float code")
                Hn = S.dense(H)
                with SH.symbolic_mode():
                    da = S.dense(a)
                    Hd = S.dense(Hs)
                    r = Hs.apply(a)
                    decide(run, f"post:Mpo.apply:dense_product@{tag}", "Mpo.apply", S.dense(r), Hd.dot(da), case,
                           native_pair(lambda: (S.dense(H.apply(atc)), Hn @ S.dense(atc)), how))
                    decide_true(run, f"post:Mpo.apply:qn_valid@{tag}", "Mpo.apply", not S.qnv_violations(r), f"{S.qnv_violations(r)[:1]}", case,
                                numeric_replay=native_cond(lambda: (lambda v_: (not v_, v_[:1]))(S.qnv_violations(H.apply(atc))), how))
                    decide(run, f"frame:Mpo.apply:operand@{tag}", "Mpo.apply", S.dense(a), da, case,
                           native_pair(lambda: (lambda x, vx: (H.apply(x), (S.dense(x), vx))[1])(atc.copy(), S.dense(atc)), how))
                    e = a.expectation(Hs)
                    full = vdot(da, Hd.dot(da))
                    # documented return convention: the real part when the imaginary part vanishes, else the complex value
                    # (the float MPO tensors are Hermitian only up to rounding, so the exact imaginary part may be a ~1e-18 polynomial)
                    decide(run, f"post:Mps.expectation:sesquilinear_form@{tag}", "Mps.expectation", e, full if full.imag else full.real, case,
                           native_pair(lambda: (atc.expectation(H), np.vdot(S.dense(atc), Hn @ S.dense(atc))), how))
                # density operators: rho H (MpDm.apply: the right factor must not touch the bond labels) and H rho, then a gauge move in kernel-stub mode
                if ga == gauges[0][0]:
                    from renormalizer.mps import MpDm
                    rt = H.apply(MpDm.from_mps(at))
                    if np.abs(S.dense(rt)).max() > 1e-12:
                        rho = SH.symbolic_state(rt, vf)
                        rtc = S.complexify(rt, rng)
                        with SH.kernel_stub_mode():
                            Rd, Hd2 = S.dense(rho), S.dense(Hs)
                            for side, fnm, mk, ref, natf in (("rho_H", "MpDm.apply", lambda: rho.apply(Hs), Rd.dot(Hd2), lambda: (rtc.apply(H), S.dense(rtc) @ Hn)),
                                                            ("H_rho", "Mpo.apply", lambda: Hs.apply(rho), Hd2.dot(Rd), lambda: (H.apply(rtc), Hn @ S.dense(rtc)))):
                                try:
                                    r = mk()
                                except Exception as e:
                                    decide_true(run, f"post:{fnm}:density_operator_total[{side}]@{tag}", fnm, False, f"raised {type(e).__name__}: {e}", case)
                                    continue
                                decide(run, f"post:{fnm}:density_operator_product[{side}]@{tag}", fnm, S.dense(r), ref, case,
                                       native_pair((lambda nf: lambda: (lambda rr, rf: (S.dense(rr), rf))(*nf()))(natf), how))
                                decide_true(run, f"post:{fnm}:density_operator_product_qn_valid[{side}]@{tag}", fnm, not S.qnv_violations(r), f"{S.qnv_violations(r)[:1]}", case,
                                            numeric_replay=native_cond((lambda nf: lambda: (lambda v_: (not v_, v_[:1]))(S.qnv_violations(nf()[0])))(natf), how))
                                try:
                                    c = r.copy().ensure_right_canonical()
                                    decide(run, f"post:{fnm}:density_operator_product_unchanged_by_gauge_move[{side}]@{tag}", fnm, S.dense(c), ref, case,
                                           native_pair((lambda nf: lambda: (lambda rr, rf: (S.dense(rr.ensure_right_canonical()), rf))(*nf()))(natf), how))
                                except Exception as e:
                                    decide_true(run, f"post:{fnm}:density_operator_total[{side}:gauge]@{tag}", fnm, False, f"gauge move raised {type(e).__name__}: {e}", case)
                with SH.symbolic_mode():
                    if eo:
                        op, ch = eo[0]
                        O = Mpo(model, op)
                        Os = SH.numeric_to_symbolic_const(O)
                        Od = S.dense(Os)
                        r = Os.apply(a)
                        decide(run, f"post:Mpo.apply:charged_dense_product@{tag}", "Mpo.apply", S.dense(r), Od.dot(da), case,
                               native_pair(lambda: (S.dense(O.apply(atc)), S.dense(O) @ S.dense(atc)), how))
                        want = np.asarray(q).reshape(-1) + np.asarray(ch)
                        decide_true(run, f"post:Mpo.apply:sector_shift@{tag}", "Mpo.apply",
                                    np.all(np.asarray(r.qntot).reshape(-1) == want) and not S.qnv_violations(r) and np.all(np.asarray(a.qntot).reshape(-1) == np.asarray(q).reshape(-1)),
                                    f"result sector {r.qntot}, operand sector {a.qntot}, qnv {S.qnv_violations(r)[:1]}", case,
                                    numeric_replay=native_cond(lambda: (lambda x, r_: (bool(np.all(np.asarray(r_.qntot).reshape(-1) == want) and not S.qnv_violations(r_)
                                                                                        and np.all(np.asarray(x.qntot).reshape(-1) == np.asarray(q).reshape(-1))),
                                                                                   {"result_sector": np.asarray(r_.qntot).tolist(), "operand_sector_after": np.asarray(x.qntot).tolist()}))(
                                        *(lambda x: (x, O.apply(x)))(atc.copy())), how))
                        Ot = Os.conj_trans()
                        decide(run, f"post:Mpo.conj_trans:dense_adjoint@{tag}", "Mpo.conj_trans", S.dense(Ot),
                               np.array([[Poly.coerce(x).conjugate() for x in row] for row in Od.T], dtype=object), case,
                               native_pair(lambda: (S.dense(O.conj_trans()), S.dense(O).conj().T), how))
                        decide_true(run, f"post:Mpo.conj_trans:qn_valid@{tag}", "Mpo.conj_trans", not S.qnv_violations(Ot), f"{S.qnv_violations(Ot)[:1]}", case,
                                    numeric_replay=native_cond(lambda: (lambda v_: (not v_, v_[:1]))(S.qnv_violations(O.conj_trans())), how))
    run.extra["symx"] = {"cases": n_cases, "shims": SH.SHIMS,
                         "shape_universe": "models x sizes x 2 sectors x operand gauges {fresh, canonicalised, centre moved to 0 / n//2}; bond dims <= 3; "
                                           "all tensor entries allowed by the labels are independent complex indeterminates"}
