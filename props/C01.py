"""C01 Automatic MPO construction is exact for every sum-of-products operator."""
from vk.symx.harness import guarded
import itertools

import numpy as np

from vk.rtc.harness import run_cases
from vk.specs import chain as S
from vk.specs import universe as U

LEVEL = "other"
TECHNIQUE = ("contracts on the construction pipeline (_terms_to_table -> construct_symbolic_mpo -> numeric tensors, swap_site) evaluated at run time: "
             "exact formal-sum equality of the symbolic MPO, dense equality against an independent Kronecker sum, QN-valid labels, site-swap = "
             "permutation similarity; bounded-exhaustive term tables (bounded stand-in; the NumPy/scipy.sparse index algebra is outside the VC generator); "
             "Engine S: the real graph-based constructor executed with indeterminate coefficients, multiplied out and decided by exact normal form "
             "(for all coefficient values per enumerated term structure)")
ALGOS = ("qr", "Hopcroft-Karp", "Hungarian")


# ---------------------------------------------------------------------------------------------- models
def models(tier):
    from renormalizer.model import basis as ba
    out = {
        "spin3": [ba.BasisHalfSpin(f"s{i}") for i in range(3)],
        "spin4": [ba.BasisHalfSpin(f"s{i}") for i in range(4)],
        "spinqn4": [ba.BasisHalfSpin(f"s{i}", sigmaqn=[0, 1]) for i in range(4)],
        "mixed": [ba.BasisHalfSpin("s0"), ba.BasisSHO("v1", omega=1.3, nbas=3, x0=0.7), ba.BasisSimpleElectron("e2", sigmaqn=[0, 0]),
                  ba.BasisSHO("v3", omega=0.8, nbas=2)],
        "holstein": [ba.BasisSimpleElectron("e0"), ba.BasisSHO("v0", omega=1.0, nbas=3), ba.BasisSimpleElectron("e1"), ba.BasisSHO("v1", omega=1.5, nbas=2, x0=-0.4)],
        "multidof": [ba.BasisMultiElectronVac(["e0", "e1"]), ba.BasisSHO("v0", omega=1.0, nbas=2), ba.BasisMultiElectron(["f0", "f1", "f2"], [0, 0, 0]),
                     ba.BasisSHO("v1", omega=0.5, nbas=3)],
        "two_qn": [ba.BasisHalfSpin(f"s{i}", sigmaqn=[[0, 0], [1, 0]] if i % 2 == 0 else [[0, 0], [0, 1]]) for i in range(4)],
        "single": [ba.BasisSHO("v0", omega=1.0, nbas=4, x0=0.3)],
        "pair": [ba.BasisHalfSpin("s0"), ba.BasisSHO("v1", omega=1.0, nbas=3)],
    }
    if tier != "quick":
        out["spin5"] = [ba.BasisHalfSpin(f"s{i}") for i in range(5)]
        out["long"] = [ba.BasisSimpleElectron(f"e{i}") if i % 2 == 0 else ba.BasisSHO(f"v{i}", omega=1.0 + 0.1 * i, nbas=2) for i in range(6)]
    return out


LETTERS = {
    "BasisHalfSpin": ["sigma_x", "sigma_y", "sigma_z", "sigma_+", "sigma_-", "sigma_x sigma_z", "sigma_z sigma_x"],
    "BasisSimpleElectron": [r"a^\dagger a", r"a^\dagger", "a"],
    "BasisSHO": ["x", "x^2", r"b^\dagger b", "p^2", r"b^\dagger", "b", "x x", r"b^\dagger + b", "x p", "p"],
    "BasisMultiElectronVac": [r"a^\dagger a", r"a^\dagger", "a"],
    "BasisMultiElectron": [r"a^\dagger a"],
}


def site_letters(model):
    """per site: [(Op, charge)] with the qn derived from the local matrix (independent of Op's defaults)"""
    from renormalizer.model import Op
    out = []
    for b in model.basis:
        items = []
        for sym in LETTERS.get(type(b).__name__, []):
            parts = sym.replace(r"b^\dagger + b", "b^\\dagger+b").split(" ")
            parts = [p.replace("b^\\dagger+b", r"b^\dagger + b") for p in parts]
            dofs_choices = [b.dofs[0]] if not getattr(b, "multi_dof", False) else list(b.dofs)
            for d in dofs_choices:
                try:
                    qns, tot = [], np.zeros(model.qn_size, dtype=int)
                    ok = True
                    for p in parts:
                        c = U.op_charge(b, Op(p, d))
                        if c is None:
                            ok = False
                            break
                        qns.append(list(c) if model.qn_size > 1 else c[0])
                        tot += np.asarray(c)
                    if not ok:
                        continue
                    op = Op(sym, [d] * len(parts) if len(parts) > 1 else d, 1.0, qn=qns if len(parts) > 1 else qns[0] if model.qn_size == 1 else [qns[0]])
                    np.asarray(b.op_mat(op))
                    items.append((op, tuple(tot.tolist())))
                except Exception:
                    continue
            # two different DoFs of a multi-DoF site in one term
            if getattr(b, "multi_dof", False) and len(b.dofs) >= 2 and type(b).__name__ == "BasisMultiElectronVac":
                try:
                    d1, d2 = b.dofs[0], b.dofs[1]
                    op = Op(r"a^\dagger a", [d1, d2], 1.0, qn=[1, -1])
                    np.asarray(b.op_mat(op))
                    items.append((op, (0,)))
                except Exception:
                    pass
        out.append(items)
    return out


FACTORS = [1.0, -1.0, 0.5, 2e-6, 3e5, 1.0 + 2.0j, -0.25j, 7.0]


def gen_terms(model, rng, nterms, charge, max_support):
    sl = site_letters(model)
    n = len(sl)
    target = tuple(np.atleast_1d(charge).tolist())
    terms, tries = [], 0
    while len(terms) < nterms and tries < 400:
        tries += 1
        k = int(rng.integers(1, min(max_support, n) + 1))
        sites = sorted(rng.choice(n, size=k, replace=False).tolist())
        picks = []
        for s in sites:
            if not sl[s]:
                picks = None
                break
            picks.append(sl[s][int(rng.integers(len(sl[s])))])
        if not picks:
            continue
        tot = tuple(np.sum(np.array([c for _, c in picks]), axis=0).tolist())
        if tot != target:
            continue
        t = picks[0][0]
        order = list(range(1, len(picks)))
        if rng.random() < 0.3:
            rng.shuffle(order)           # DoFs written in non-site order
        for i in order:
            t = t * picks[i][0]
        terms.append(t * FACTORS[int(rng.integers(len(FACTORS)))])
    return terms


def decorate(terms, rng):
    """duplicates, exactly and partially cancelling pairs, shared prefixes"""
    out = list(terms)
    if terms:
        t = terms[int(rng.integers(len(terms)))]
        mode = int(rng.integers(4))
        if mode == 0:
            out.append(t)                               # duplicate term: factors add
        elif mode == 1:
            out += [t * 3.0, t * -3.0]                  # exact cancellation
        elif mode == 2:
            # partial cancellation: the residual factor is small relative to the cancelling pair but far above rounding
            out.append(t * -(1.0 - [1e-6, 1e-9, 1e-11][int(rng.integers(3))]))
    rng.shuffle(out)
    return out


# ---------------------------------------------------------------------------------------------- formal sums
def fs_of_terms(model, terms, offset):
    """formal sum {tuple of per-site Op keys -> coefficient} after the documented grouping of a term by site (order inside a site kept)"""
    from renormalizer.model import Op
    n = len(model.basis)
    out = {}
    for t in terms:
        elems, fac = t.split_elementary(model.dof_to_siteidx)
        word = [None] * n
        for e in elems:
            word[model.dof_to_siteidx[e.dofs[0]]] = (e.symbol, tuple(map(str, e.dofs)))
        w = tuple(word)
        out[w] = out.get(w, 0) + fac
    if offset != 0:
        w = tuple([None] * n)
        out[w] = out.get(w, 0) - offset
    return {k: v for k, v in out.items() if v != 0}


def fs_of_symbolic_mpo(mpo):
    """multiply out the symbolic MPO (matrices of lists of Op) into a formal sum"""
    state = {0: {(): 1.0}}
    for mo in mpo.symbolic_mpo:
        nxt = {}
        for a, words in state.items():
            for b in range(mo.shape[1]):
                for op in mo[a][b]:
                    key = None if op.symbol == "I" or all(s == "I" for s in op.split_symbol) else (op.symbol, tuple(map(str, op.dofs)))
                    for w, c in words.items():
                        d = nxt.setdefault(b, {})
                        w2 = w + (key,)
                        d[w2] = d.get(w2, 0) + c * op.factor
        state = nxt
    assert list(state.keys()) == [0]
    return state[0]


def fs_close(f1, f2, rtol):
    keys = set(f1) | set(f2)
    scale = max([abs(v) for v in f1.values()] + [abs(v) for v in f2.values()] + [1e-300])
    worst, wk = 0.0, None
    for k in keys:
        d = abs(f1.get(k, 0) - f2.get(k, 0))
        if d > worst:
            worst, wk = d, k
    return worst <= rtol * scale, worst / scale, wk


def perm_matrix(dims, i):
    """P with P (x_0..x_i x_{i+1}..) = (.. x_{i+1} x_i ..): maps the old site order to the order with sites i, i+1 exchanged"""
    n = len(dims)
    D = int(np.prod(dims))
    idx = np.arange(D).reshape(dims)
    perm = list(range(n))
    perm[i], perm[i + 1] = perm[i + 1], perm[i]
    new = idx.transpose(perm).reshape(-1)
    P = np.zeros((D, D))
    P[np.arange(D), new] = 1.0
    return P


def worker(case, led):
    mname, seed, tier = case
    from renormalizer.model import Model
    from renormalizer.mps import Mpo
    from renormalizer.utils import Quantity
    rng = np.random.default_rng([seed, 101, sum(map(ord, mname))])
    basis = models(tier)[mname]
    model = Model(basis, [])
    n = len(basis)
    dims = [b.nbas for b in basis]
    ntrials = 16 if tier == "quick" else 40
    charges = [tuple([0] * model.qn_size)]
    if mname in ("spinqn4", "holstein"):
        charges.append((1,))
    for trial in range(ntrials):
        charge = charges[trial % len(charges)]
        nterms = int(rng.integers(1, 7))
        terms = decorate(gen_terms(model, rng, nterms, charge, max_support=3), rng)
        if not terms:
            continue
        offset = [0.0, 0.0, 1.7, -0.3][int(rng.integers(4))] if not any(charge) else 0.0
        ref = U.dense_terms(model, terms, offset)
        scale = max(1e-300, sum(abs(t.factor) for t in terms) + abs(offset))
        if np.abs(ref).max() <= 1e-14 * scale:
            continue   # everything cancels: the constructor documents "Terms all have factor 0" style errors
        fs_in = fs_of_terms(model, terms, offset)
        rep = {"model": mname, "basis": [repr(b) for b in basis], "terms": [repr(t) for t in terms], "offset": offset, "seed": seed, "trial": trial}
        denses = {}
        for algo in ALGOS:
            key = (mname, seed, trial, algo)
            fields = {"algo": algo}
            # the offset is an energy with a unit: the operator is shifted by its value in atomic units, whatever unit it was given in
            unit = ["a.u.", "eV", "cm^{-1}", "meV"][(trial + len(algo)) % 4] if offset else "a.u."
            per_unit = Quantity(1.0, unit).as_au()
            off_q = Quantity(offset / per_unit, unit)
            fields["offset_unit"] = unit
            try:
                mpo = Mpo(model, terms, offset=off_q, algo=algo)
            except Exception as e:
                led.check(False, "post:Mpo.__init__:total", "Mpo.__init__", f"raised {type(e).__name__}: {e}", key, fields, dict(rep, algo=algo))
                continue
            d = S.dense(mpo)
            denses[algo] = d
            err = np.abs(d - ref).max()
            # graph algorithms only move factors (rounding ~ eps * sum|c_k|); QR truncates at its documented relative tolerance 1e-10
            tol_dense = (1e-9 if algo == "qr" else 1e-12) * scale
            led.check(err <= tol_dense, "post:Mpo.__init__:dense_equals_sum_of_products_minus_offset", "Mpo.__init__",
                      f"max |dense(MPO) - sum_k c_k (x) local matrices + offset| = {err:.3e} (scale {scale:.2e})", key + ("dense",), fields, dict(rep, algo=algo))
            led.check(abs(complex(mpo.offset) - offset) <= 1e-12 * max(1.0, abs(offset)), "post:Mpo.__init__:offset_recorded_in_atomic_units", "Mpo.__init__",
                      f"mpo.offset = {mpo.offset!r} for an offset of {off_q.value!r} {unit} = {offset!r} a.u.", key + ("offset",), fields, dict(rep, algo=algo, offset_unit=unit),
                      nontrivial=bool(offset) and unit != "a.u.")
            v = S.qnv_violations(mpo)
            led.check(not v and np.all(np.asarray(mpo.qntot).reshape(-1) == np.asarray(charge)), "post:Mpo.__init__:qn_valid_and_charge", "Mpo.__init__",
                      f"qntot={mpo.qntot} expected {charge}; {v[:1]}", key + ("qnv",), fields, dict(rep, algo=algo))
            try:
                fs = fs_of_symbolic_mpo(mpo)
                ok, rel, wk = fs_close(fs, fs_in, 1e-9 if algo == "qr" else 1e-13)
                led.check(ok, "post:construct_symbolic_mpo:formal_sum_preserved", "construct_symbolic_mpo",
                          f"formal sum differs (rel {rel:.2e}) at word {wk}", key + ("fs",), fields, dict(rep, algo=algo))
            except Exception as e:
                led.error("fs_of_symbolic_mpo", e)
            led.check(len(mpo) == n and [np.asarray(m.array).shape[1] for m in mpo] == dims, "post:Mpo.__init__:shape", "Mpo.__init__", "site count / physical dims",
                      key + ("shape",), fields, dict(rep, algo=algo))
            # ---- adjacent site swaps (sequences of up to 3), operator must become P H P^T in the new order
            if n >= 2 and algo != "Hungarian":
                cur_basis = list(basis)
                cur = mpo.copy() if hasattr(mpo, "copy") else mpo
                cur_ref = ref
                cur_dims = list(dims)
                for sw in range(3 if tier != "quick" else 2):
                    i = int(rng.integers(n - 1))
                    new_basis = list(cur_basis)
                    new_basis[i], new_basis[i + 1] = new_basis[i + 1], new_basis[i]
                    new_model = Model(new_basis, [])
                    P = perm_matrix(cur_dims, i)
                    try:
                        cur.try_swap_site(new_model, swap_jw=False, algo=algo if algo != "qr" else "Hopcroft-Karp")
                    except Exception as e:
                        import traceback
                        tb = traceback.extract_tb(e.__traceback__)[-1]
                        fl = dict(fields, exception=type(e).__name__, raised_in=tb.name, statement=(tb.line or "").strip(), swap_number=sw)
                        led.check(False, "post:Mpo.try_swap_site:total", "Mpo.try_swap_site",
                                  f"swap #{sw} of sites {i},{i + 1} raised {type(e).__name__} in {tb.name}: `{(tb.line or '').strip()}` {e}", key + ("swap", sw), fl,
                                  dict(rep, algo=algo, swap=i, swap_number=sw))
                        break
                    cur_ref = P @ cur_ref @ P.T
                    cur_dims[i], cur_dims[i + 1] = cur_dims[i + 1], cur_dims[i]
                    cur_basis = new_basis
                    err = np.abs(S.dense(cur) - cur_ref).max()
                    led.check(err <= 1e-8 * scale, "post:Mpo.try_swap_site:permutation_similarity", "Mpo.try_swap_site",
                              f"after swapping sites {i},{i + 1} (swap #{sw}): max deviation from P H P^T = {err:.2e}", key + ("swap", sw), fields,
                              dict(rep, algo=algo, swap=i))
                    led.check(not S.qnv_violations(cur), "post:Mpo.try_swap_site:qn_valid", "Mpo.try_swap_site", f"{S.qnv_violations(cur)[:1]}", key + ("swapqn", sw),
                              fields, dict(rep, algo=algo, swap=i))
        if len(denses) == 3:
            d0 = denses["qr"]
            led.check(all(np.abs(d - d0).max() <= 1e-9 * scale for d in denses.values()), "post:Mpo.__init__:algorithm_independent", "Mpo.__init__",
                      "the three algorithms disagree", (mname, seed, trial, "algos"), {}, rep)


def w_regroup(case, led):
    """one list of term OBJECTS handed to several models that group the same degrees of freedom into sites differently (all levels on one multi-electron site,
    one site per level, a mixed grouping), in every order of construction: each operator is the dense sum for ITS model"""
    _, seed, tier = case
    from renormalizer.model import Model, Op, basis as ba
    from renormalizer.mps import Mpo
    rng = np.random.default_rng([seed, 1717])
    nlev = 3
    eps = rng.uniform(-0.5, 0.5, size=nlev)
    terms = []
    for i in range(nlev):
        terms.append(Op(r"a^\dagger a", [i, i], float(eps[i])))
        terms.append(Op(r"a^\dagger a", [i, i], float(rng.uniform(0.2, 0.6))) * Op("x", "v"))
    for i in range(nlev):
        for j in range(nlev):
            if i != j and rng.random() < 0.8:
                terms.append(Op(r"a^\dagger a", [i, j], complex(rng.uniform(-0.4, 0.4), rng.uniform(-0.2, 0.2))))
    terms.append(Op("p^2", "v", 0.5))
    terms.append(Op("x^2", "v", 0.3))

    def mk(kind):
        sho = ba.BasisSHO("v", omega=0.7, nbas=3)
        if kind == "one multi-electron site":
            return Model([ba.BasisMultiElectron(list(range(nlev)), [0] * nlev), sho], [])
        if kind == "one site per level":
            return Model([ba.BasisSimpleElectron(i) for i in range(nlev)] + [sho], [])
        return Model([ba.BasisMultiElectronVac([0, 1]), sho, ba.BasisSimpleElectron(2)], [])     # (a single creator on a shared site needs the variant with a vacuum state)
    kinds = ["one multi-electron site", "one site per level", "mixed grouping"]
    for order in ([0, 1, 2], [1, 0, 2], [2, 1, 0]):
        for algo in ALGOS:
            for k in order:
                kind = kinds[k]
                key = ("regroup", seed, tuple(order), algo, kind)
                rep = {"grouping": kind, "construction_order": [kinds[i] for i in order], "algo": algo, "terms": [repr(t) for t in terms], "seed": seed,
                       "how": "the SAME list of Op objects is passed to Mpo(model, terms) for each grouping in this order"}
                try:
                    model = mk(kind)
                    mpo = Mpo(model, terms, algo=algo)
                    ref = U.dense_terms(model, terms)
                    err = float(np.abs(S.dense(mpo) - ref).max())
                    led.check(err <= 1e-12 * max(1.0, float(np.abs(ref).max())), "post:Mpo.__init__:same_term_objects_under_another_site_grouping", "Mpo.__init__",
                              f"{kind} (built after {[kinds[i] for i in order[:order.index(k)]]}): dense(MPO) differs from the dense sum for this model by {err:.2e}", key, {"algo": algo, "grouping": kind}, rep)
                except Exception as e:
                    led.check(False, "post:Mpo.__init__:total", "Mpo.__init__", f"{kind}: raised {type(e).__name__}: {e}", key, {"algo": algo}, rep)


def w_copy_swap(case, led):
    """a copy taken before site exchanges is an operator of its own: exchanging sites of the copy, then of the original (same bond, then the next one), leaves
    each of them the permuted Hamiltonian of ITS site order"""
    _, seed, tier = case
    from renormalizer.model import Model, basis as ba
    from renormalizer.mps import Mpo
    rng = np.random.default_rng([seed, 1720])
    n = 5
    basis = [ba.BasisHalfSpin(f"s{i}") for i in range(n)]
    model = Model(basis, [])
    terms = U.random_terms(model, rng, 8, max_sites=3)
    if not terms:
        return
    ref = U.dense_terms(model, terms)
    scale = max(1.0, float(np.abs(ref).max()))
    dims = [2] * n
    for algo in ("Hopcroft-Karp", "qr"):
        for i in (1, 2):
            key = ("copy-swap", seed, algo, i)
            rep = {"nsites": n, "algo": algo, "bond": i, "terms": [repr(t) for t in terms], "seed": seed,
                   "history": "H = Mpo(model, terms); C = H.copy(); C.try_swap_site(sites i,i+1); H.try_swap_site(sites i,i+1); H.try_swap_site(sites i+1,i+2)"}
            try:
                H = Mpo(model, terms, algo=algo)
                C = H.copy()
                sw_algo = "Hopcroft-Karp"

                def swapped(b_, j):
                    nb = list(b_)
                    nb[j], nb[j + 1] = nb[j + 1], nb[j]
                    return nb
                bC = swapped(basis, i)
                C.try_swap_site(Model(bC, []), swap_jw=False, algo=sw_algo)
                P = perm_matrix(list(dims), i)
                led.check(np.abs(S.dense(C) - P @ ref @ P.T).max() <= 1e-8 * scale and np.abs(S.dense(H) - ref).max() <= 1e-8 * scale,
                          "post:Mpo.try_swap_site:copy_and_original_are_independent", "Mpo.try_swap_site", "after exchanging sites of the copy: copy != P H P^T or the original changed",
                          key + ("copy",), {"algo": algo}, rep)
                bH = swapped(basis, i)
                H.try_swap_site(Model(bH, []), swap_jw=False, algo=sw_algo)
                cur = P @ ref @ P.T
                ok1 = np.abs(S.dense(H) - cur).max() <= 1e-8 * scale
                j = i + 1 if i + 2 < n else i - 1
                bH2 = swapped(bH, j)
                H.try_swap_site(Model(bH2, []), swap_jw=False, algo=sw_algo)
                P2 = perm_matrix(list(dims), j)
                cur2 = P2 @ cur @ P2.T
                err = float(np.abs(S.dense(H) - cur2).max())
                led.check(ok1 and err <= 1e-8 * scale, "post:Mpo.try_swap_site:original_swaps_correctly_after_its_copy_was_swapped", "Mpo.try_swap_site",
                          f"the original, exchanged at the same bond after its copy and then at bond {j}: deviation from the permuted Hamiltonian {err:.2e}", key + ("orig",), {"algo": algo}, rep)
            except Exception as e:
                import traceback
                tb = traceback.extract_tb(e.__traceback__)[-1]
                led.check(False, "post:Mpo.try_swap_site:total", "Mpo.try_swap_site", f"raised {type(e).__name__} in {tb.name}: {e}", key + ("total",),
                          {"algo": algo, "exception": type(e).__name__, "raised_in": tb.name, "statement": (tb.line or "").strip()}, rep)


def w_units(case, led):
    """scale covariance down to tiny absolute coefficients (a Hamiltonian written in small units), and the Holstein wrappers with a unit-carrying scale"""
    _, seed, tier = case
    from renormalizer.model import Model, Op, basis as ba
    from renormalizer.mps import Mpo
    from renormalizer.utils import Quantity
    rng = np.random.default_rng([seed, 1721])
    basis = [ba.BasisHalfSpin("s0"), ba.BasisSHO("v1", omega=1.1, nbas=3), ba.BasisHalfSpin("s2")]
    model = Model(basis, [])
    terms = U.random_terms(model, rng, 5, max_sites=3, complex_factors=True)
    if terms:
        ref = U.dense_terms(model, terms)
        for sc in (1e-11, 3e-14, 1e-20):
            for algo in ALGOS:
                key = ("tiny-scale", seed, sc, algo)
                rep = {"scale": sc, "algo": algo, "terms": [repr(t) for t in terms], "seed": seed}
                try:
                    # spread of two orders of magnitude inside the tiny Hamiltonian
                    tt = [t * (sc * (0.01 if k_ % 2 else 1.0)) for k_, t in enumerate(terms)]
                    want = U.dense_terms(model, tt)
                    err = float(np.abs(S.dense(Mpo(model, tt, algo=algo)) - want).max())
                    led.check(err <= 1e-9 * float(np.abs(want).max()), "post:Mpo.__init__:dense_equals_sum_of_products_at_tiny_scale", "Mpo.__init__",
                              f"coefficients of order {sc}: relative deviation {err / float(np.abs(want).max()):.2e}", key, {"algo": algo, "scale": sc}, rep)
                except Exception as e:
                    led.check(False, "post:Mpo.__init__:total", "Mpo.__init__", f"tiny scale {sc}: raised {type(e).__name__}: {e}", key, {"algo": algo}, rep)
    # Holstein wrappers
    try:
        from props.C10 import holstein
        hm = holstein(3, 2, seed=seed)
        au_per_ev = 1.0 / 27.211386245988
        for sc_q, sc_au in ((Quantity(2.0, "eV"), 2.0 * au_per_ev), (Quantity(0.5), 0.5)):
            e_opera, ph_opera = {0: r"a^\dagger", 2: "a"}, {(1, 0): r"b^\dagger"}
            mpo = Mpo.intersite(hm, e_opera, ph_opera, scale=sc_q)
            op = Op(r"a^\dagger", 0) * Op("a", 2) * Op(r"b^\dagger", (1, 0)) * sc_au
            ref = U.dense_terms(hm, [op])
            err = float(np.abs(S.dense(mpo) - ref).max())
            led.check(err <= 1e-9 * max(1e-12, float(np.abs(ref).max())), "post:Mpo.intersite:product_of_the_named_operators_times_the_scale_in_atomic_units", "Mpo.intersite",
                      f"scale {sc_q.value} {sc_q.unit}: deviation {err:.2e} (|reference| {float(np.abs(ref).max()):.2e})", ("intersite", seed, sc_q.unit), {"unit": sc_q.unit},
                      {"scale": f"{sc_q.value} {sc_q.unit}", "e_opera": str(e_opera), "ph_opera": str(ph_opera)})
        for opera in ("b", r"b^\dagger", r"b^\dagger b"):
            mpo = Mpo.ph_onsite(hm, opera, 1, 0)
            ref = U.dense_terms(hm, [Op(opera, (1, 0))])
            led.check(float(np.abs(S.dense(mpo) - ref).max()) <= 1e-12, "post:Mpo.ph_onsite:named_operator_on_the_named_mode", "Mpo.ph_onsite", f"ph_onsite({opera!r}, 1, 0) differs from the operator",
                      ("ph_onsite", seed, opera), {}, {"opera": opera})
    except Exception as e:
        led.check(False, "post:Mpo.intersite:total", "Mpo.intersite", f"raised {type(e).__name__}: {e}", ("intersite", seed, "total"), {}, {})


def w_wide_table(case, led):
    """a term table whose row keys leave the 16-bit range: 6 spin sites, 600 distinct terms that each carry a word of 1-5 Pauli letters on EVERY site (about 1700
    distinct one-site operators, bonds up to 600, so bond index x operator index exceeds 65535) - still a 64 x 64 operator with a dense reference"""
    _, seed, tier = case
    from functools import reduce
    from renormalizer.model import Model, Op, basis as ba
    from renormalizer.mps import Mpo
    rng = np.random.default_rng([seed, 1719])
    mats = {"sigma_x": np.array([[0, 1.0], [1.0, 0]]), "sigma_z": np.array([[1.0, 0], [0, -1.0]]), "sigma_+": np.array([[0, 1.0], [0, 0]]), "sigma_-": np.array([[0, 0], [1.0, 0]])}
    letters = list(mats)
    nsite, nterms = 6, 600
    terms, seen, ref = [], set(), np.zeros((2 ** nsite, 2 ** nsite))
    while len(terms) < nterms:
        words = tuple(tuple(letters[int(i)] for i in rng.integers(len(letters), size=int(rng.integers(1, 6)))) for _ in range(nsite))
        if words in seen:
            continue
        seen.add(words)
        c = float(rng.uniform(0.5, 1.5)) * (1 if rng.random() < 0.5 else -1)
        terms.append(Op(" ".join(x for w in words for x in w), [i for i, w in enumerate(words) for _ in w], c))
        ref += c * reduce(np.kron, [reduce(np.matmul, [mats[x] for x in w]) for w in words])
    model = Model([ba.BasisHalfSpin(i) for i in range(nsite)], [])
    for algo in ("Hopcroft-Karp", "Hungarian") + (("qr",) if tier != "quick" else ()):
        key = ("wide-table", seed, algo)
        rep = {"nsites": nsite, "nterms": nterms, "algo": algo, "seed": seed, "how": "props.C01.w_wide_table regenerates the terms from the seed"}
        try:
            mpo = Mpo(model, terms, algo=algo)
            err = float(np.abs(S.dense(mpo) - ref).max())
            led.check(err <= 1e-10 * float(np.abs(ref).max()), "post:Mpo.__init__:dense_equals_sum_of_products_wide_table", "Mpo.__init__",
                      f"{nterms} terms, {len(mpo.primary_ops) if hasattr(mpo, 'primary_ops') else '?'} one-site operators, bonds {max(mpo.bond_dims)}: dense(MPO) differs from the dense sum by {err:.2e}",
                      key, {"algo": algo}, rep)
        except Exception as e:
            led.check(False, "post:Mpo.__init__:total", "Mpo.__init__", f"wide table: raised {type(e).__name__}: {e}", key, {"algo": algo}, rep)


def w_wrappers(case, led):
    """the convenience constructors Mpo.onsite / Mpo.ph_onsite / Mpo.intersite build the term list they document and hand it to the same construction"""
    _, seed, tier = case
    from renormalizer.model import Model, Op, basis as ba
    from renormalizer.mps import Mpo
    rng = np.random.default_rng([seed, 1718])
    basis = [ba.BasisSimpleElectron("e0"), ba.BasisSHO("v0", omega=0.9, nbas=3), ba.BasisSimpleElectron("e1"), ba.BasisSimpleElectron("e2")]
    dip = {"e0": 0.7, "e1": complex(-0.3, 0.4), "e2": 1.9}
    model = Model(basis, [], dipole=dip)
    for opera in (r"a^\dagger", "a", r"a^\dagger a"):
        for dipole in (False, True):
            for dof_set in (None, ["e2"], ["e2", "e0"], ["e1", "e2"], ["e0"], ["e0", "e1", "e2"]):
                key = ("onsite", seed, opera, dipole, str(dof_set))
                rep = {"opera": opera, "dipole": dipole, "dof_set": dof_set, "model_dipole": {k: str(v) for k, v in dip.items()}}
                try:
                    mpo = Mpo.onsite(model, opera, dipole=dipole, dof_set=dof_set)
                    dofs = list(model.e_dofs) if dof_set is None else dof_set
                    ref = U.dense_terms(model, [Op(opera, d, dip[d] if dipole else 1.0) for d in dofs])
                    err = float(np.abs(S.dense(mpo) - ref).max())
                    led.check(err <= 1e-12, "post:Mpo.onsite:sum_over_the_requested_dofs_with_their_own_dipoles", "Mpo.onsite",
                              f"onsite({opera!r}, dipole={dipole}, dof_set={dof_set}) differs from sum_d factor_d op_d by {err:.2e}", key, {"dipole": dipole, "dof_set": str(dof_set)}, rep)
                except Exception as e:
                    led.check(False, "post:Mpo.onsite:total", "Mpo.onsite", f"raised {type(e).__name__}: {e}", key, {}, rep)


def check(run):
    seeds = [run.seed] if run.tier == "quick" else [run.seed, run.seed + 1, run.seed + 2]
    cases = [(m, s, run.tier) for m in models(run.tier) for s in seeds]
    run_cases(run, worker, cases)
    run_cases(run, w_regroup, [("regroup", s, run.tier) for s in seeds])
    run_cases(run, w_wrappers, [("wrappers", s, run.tier) for s in seeds])
    run_cases(run, w_wide_table, [("wide", run.seed, run.tier)])
    run_cases(run, w_copy_swap, [("copyswap", s, run.tier) for s in seeds])
    run_cases(run, w_units, [("units", s, run.tier) for s in seeds])
    from props import C0x_range
    run_cases(run, C0x_range.w_chain, [("range", run.seed + i) for i in range(2 if run.tier == "quick" else 8)])
    from props import C01_sym
    guarded(run, C01_sym.prove_chain)
    run.rule = ("models {spin chains, spin with 1 and 2 quantum numbers, spin+shifted oscillator+electron, Holstein-like, multi-DoF electron sites, single site, "
                "pair} x random term lists (1..6 terms, support <= 3 sites, repeated symbols on a site, DoFs written out of site order, duplicates, exact and "
                "partial cancellations, factors 2e-6..3e5 real/complex, offsets) x algorithms {qr, Hopcroft-Karp, Hungarian} x sequences of adjacent swaps; "
                "distinct = (model, seed, trial, algorithm, clause)")
    run.sample({"model": "mixed", "terms": ["Op('sigma_y x', ['s0','v1'], 3e5)", "Op('x x', ['v1','v1'], (1+2j))"], "offset": 1.7, "algo": "Hungarian",
                "contract": "dense(MPO) == sum_k c_k kron(local matrices) - offset*1; formal sum of the symbolic MPO == input formal sum; QNV"})
    run.explanation = ("bounded: the construction is NumPy/scipy.sparse index algebra (np.unique(axis=0), CSR indptr/indices, pivoted QR) outside the VC generator; "
                       "the exact formal-sum oracle is independent of the basis matrices, the dense oracle independent of the construction")
    run.trusted += ["BasisSet.op_mat for one-site symbols (their own contracts are C16)", "Op.split_elementary grouping is used by the formal-sum spec and checked by the dense oracle"]
