"""Deductive part of C17: the Jordan-Wigner sign counting of simplify_op (pyvc on a mechanical slice + z3 matrix lemmas)."""
import ast

import z3

from contracts import h_qc as HQ
from vk.pyvc import engine as E
from vk.pyvc import run as R
from vk.pyvc.slice import make_slice, SliceError


def lemmas(run):
    """2x2 real matrices: Z = diag(1,-1), P = sigma_+ = [[0,1],[0,0]], M = sigma_- = [[0,0],[1,0]].
    L1 (anticommutation): X Z = - Z X for X in {P, M};  L2: Z Z = 1.
    L3 (induction step, word extended by one letter): if  W = s * Z^z * N  and  N Z = t * Z N  with s = (-1)^inv, t = (-1)^nonz, then
       letter Z:      W Z = (s*t) * Z^(z+1) * N         and  N unchanged
       letter X!=Z:   W X = s * Z^z * (N X)             and  (N X) Z = (-t) * Z (N X)
    which is exactly how the loop updates n_permute (+= n_non_sigma_z on Z) and n_non_sigma_z (+= 1 otherwise)."""
    def mat(name):
        return [[z3.Real(f"{name}{i}{j}") for j in range(2)] for i in range(2)]

    def mul(a, b):
        return [[sum(a[i][k] * b[k][j] for k in range(2)) for j in range(2)] for i in range(2)]

    def eq(a, b):
        return z3.And(*[a[i][j] == b[i][j] for i in range(2) for j in range(2)])

    def scal(c, a):
        return [[c * a[i][j] for j in range(2)] for i in range(2)]
    Zm = [[z3.RealVal(1), z3.RealVal(0)], [z3.RealVal(0), z3.RealVal(-1)]]
    Pm = [[z3.RealVal(0), z3.RealVal(1)], [z3.RealVal(0), z3.RealVal(0)]]
    Mm = [[z3.RealVal(0), z3.RealVal(0)], [z3.RealVal(1), z3.RealVal(0)]]
    Im = [[z3.RealVal(1), z3.RealVal(0)], [z3.RealVal(0), z3.RealVal(1)]]

    def prove(name, hyps, goal):
        s = z3.Solver()
        s.set("timeout", 20000)
        s.add(*hyps)
        s.add(z3.Not(goal))
        r = s.check()
        run.oblig(f"lemma:jordan_wigner_sign:{name}", "spec:simplify_op", "A(pyvc-lemma)", "discharged" if r == z3.unsat else ("violated" if r == z3.sat else "undecided"), "z3-5.1(api)")
    prove("sigma_plus_anticommutes_with_Z", [], eq(mul(Pm, Zm), scal(-1, mul(Zm, Pm))))
    prove("sigma_minus_anticommutes_with_Z", [], eq(mul(Mm, Zm), scal(-1, mul(Zm, Mm))))
    prove("Z_squared_is_identity", [], eq(mul(Zm, Zm), Im))
    # the letters really are the matrices BasisHalfSpin.op_mat returns (closed link to the code under C16's contract)
    try:
        import numpy as np
        from renormalizer.model.basis import BasisHalfSpin
        b = BasisHalfSpin(0)
        ok = (np.array_equal(b.op_mat("Z"), np.diag([1., -1.])) and np.array_equal(b.op_mat("+"), np.array([[0., 1.], [0., 0.]]))
              and np.array_equal(b.op_mat("-"), np.array([[0., 0.], [1., 0.]])))
        run.oblig("link:BasisHalfSpin.op_mat:letters_Z_plus_minus", "BasisHalfSpin.op_mat", "A(pyvc-lemma)", "discharged" if ok else "violated", "closed check")
        if not ok:
            run.violation("link:BasisHalfSpin.op_mat:letters_Z_plus_minus", "BasisHalfSpin.op_mat", "op_mat('Z'/'+'/'-') are not the matrices the sign lemma assumes",
                          fields={}, replay={"Z": b.op_mat("Z").tolist(), "+": b.op_mat("+").tolist(), "-": b.op_mat("-").tolist()})
    except Exception as e:
        run.oblig("link:BasisHalfSpin.op_mat:letters_Z_plus_minus", "BasisHalfSpin.op_mat", "A(pyvc-lemma)", "undecided", detail=repr(e))
    W, N = mat("w"), mat("n")
    s_, t_ = z3.Real("s"), z3.Real("t")
    for zpar, Zz in ((0, Im), (1, Zm)):
        Zz1 = Zm if zpar == 0 else Im
        hyp = [z3.Or(s_ == 1, s_ == -1), z3.Or(t_ == 1, t_ == -1), eq(W, scal(s_, mul(Zz, N))), eq(mul(N, Zm), scal(t_, mul(Zm, N)))]
        prove(f"step_letter_Z_parity{zpar}", hyp, eq(mul(W, Zm), scal(s_ * t_, mul(Zz1, N))))
        for nm, X in (("plus", Pm), ("minus", Mm)):
            prove(f"step_letter_{nm}_parity{zpar}", hyp, z3.And(eq(mul(W, X), scal(s_, mul(Zz, mul(N, X)))),
                                                                eq(mul(mul(N, X), Zm), scal(-t_, mul(Zm, mul(N, X))))))


def native_replay(cex, locals_, ob):
    """run the real simplify_op on a one-site word and compare matrices"""
    import numpy as np
    from renormalizer.model import Op
    from renormalizer.model.h_qc import simplify_op
    from renormalizer.model.basis import BasisHalfSpin
    word = [w for w in (cex.get("symbols") or []) if w in ("Z", "+", "-")]
    if not word:
        return False, "empty / non-JW word in the counter-model"
    b = BasisHalfSpin(0)
    ref = np.eye(2)
    for w in word:
        ref = ref @ b.op_mat(w)
    try:
        new = simplify_op(Op(" ".join(word), [0] * len(word)), 1, conserve_qn=False)
        got = b.op_mat(new)
    except Exception as e:
        return True, {"word": word, "raised": repr(e)}
    return (not np.allclose(got, ref)), {"word": word, "simplified": repr(new), "matrix_of_word": ref.tolist(), "matrix_of_result": np.asarray(got).tolist()}


def prove(run):
    lemmas(run)
    try:
        fn = R.index().find(HQ.REL, "simplify_op")
        sl = make_slice(fn, HQ.SLICE["name"], HQ.SLICE["body_of_loop"], HQ.SLICE["stmt_range"], HQ.SLICE["params"],
                        lambda body: ast.Tuple(elts=[ast.Name(id="n_sigma_z", ctx=ast.Load()), ast.Name(id="n_non_sigma_z", ctx=ast.Load()),
                                                     ast.Name(id="n_permute", ctx=ast.Load()), HQ.factor_expr(body)], ctx=ast.Load()))
    except (E.VCError, SliceError, ValueError, StopIteration) as e:
        run.oblig("extract:simplify_op__sign_loop", "simplify_op", "A(pyvc)", "undecided", detail=f"slice could not be extracted (stale contract): {e}")
        return
    run.extra.setdefault("pyvc_slices", {})["simplify_op__sign_loop"] = {
        "source": HQ.REL, "description": "statements 0..3 of the body of `for elem_op in old_ops` with elem_op.split_symbol := symbols; returns "
                                         "(n_sigma_z, n_non_sigma_z, n_permute, <3rd argument of the Op(...) call in the loop body>)",
        "extracted_text": ast.unparse(sl)}
    R.verify_node(run, HQ.REL, HQ.sign_loop, sl, fingerprint=HQ.FINGERPRINT, replay=native_replay)
    run.trusted += ["cited lemma (induction over the word, each step discharged by z3 as lemma:jordan_wigner_sign:step_*): the loop's updates of "
                    "n_permute / n_non_sigma_z track s = (-1)^inv and t = (-1)^nonz, hence mat(word) = (-1)^n_permute Z^(n_sigma_z mod 2) mat(non-Z letters)"]
