"""C02 TTNO construction is exact and independent of the tree topology."""
from vk.symx.harness import guarded
import numpy as np

from vk.rtc.harness import run_cases
from vk.specs import tree as T
from vk.specs import universe as U

LEVEL = "other"
TECHNIQUE = ("contract-based deductive verification of approximate_partition (pyvc VCs with loop invariant incl. the floor-division covering fact, z3; all inputs); "
             "runtime contracts on TTNO construction against an independent tree contraction, the dense Kronecker sum and the chain MPO over enumerated "
             "tree shapes / groupings / dummy placements (bounded stand-in); Engine S: construct_symbolic_ttno executed with indeterminate coefficients on "
             "every rooted ordered tree shape of the universe, multiplied out over the tree and decided exactly (all coefficient values)")


def real_terms(model, rng, n):
    terms = [t for t in U.random_terms(model, rng, n + 3) if np.isreal(t.factor)]
    out = []
    for t in terms:
        d = U.dense_terms(model, [t])
        if np.abs(d.imag).max() == 0:
            out.append(t)
    return out[:n]


def worker(case, led):
    kind, n_nodes, flavour, seed, tier = case
    from renormalizer.model import Model
    from renormalizer.mps import Mpo
    from renormalizer.tn import TTNO, BasisTree
    rng = np.random.default_rng([seed, n_nodes, 202, sum(map(ord, flavour + kind))])
    if kind == "enum":
        bt, created, shape = T.random_tree(rng, n_nodes, flavour)
        desc = {"shape": repr(shape)}
    elif kind.startswith("hub"):
        # a node with many children AND several basis sets (children + sets = 5..7 index columns in its table): "hub:<children>:<sets>:<root|inner>"
        _, nch, nsets, where = kind.split(":")
        nch, nsets = int(nch), int(nsets)
        cnt = [0]

        def mk():
            i = cnt[0]
            cnt[0] += 1
            if flavour == "holstein":
                return T.make_basis("e" if i % 2 == 0 else "sho2", f"{'e' if i % 2 == 0 else 'v'}{i}", rng)
            return T.make_basis("spin" if flavour == "spin" else "spinqn", f"s{i}")
        hub_payload = [mk() for _ in range(nsets)]
        kids = [[mk()] for _ in range(nch)]
        if where == "root":
            shape, payloads = tuple(() for _ in range(nch)), [hub_payload] + kids
        else:       # the hub hangs below a root that has one more leaf child
            shape, payloads = (tuple(() for _ in range(nch)), ()), [[mk()], hub_payload] + kids + [[mk()]]
        bt = T.build_basis_tree(shape, payloads)
        created = [b for p_ in payloads for b in p_]
        desc = {"shape": repr(shape), "hub": {"children": nch, "basis_sets": nsets, "position": where}}
    else:
        nb = n_nodes
        created = [T.make_basis("spin" if flavour == "spin" else ("spinqn" if flavour == "spinqn" else ("e" if i % 2 == 0 else "sho")),
                                f"{'s' if flavour != 'holstein' else ('e' if i % 2 == 0 else 'v')}{i}", rng) for i in range(nb)]
        ctor = kind
        if ctor == "linear":
            bt = BasisTree.linear(created)
        elif ctor == "binary":
            bt = BasisTree.binary(created)
        elif ctor == "binary_mctdh":
            bt = BasisTree.binary_mctdh(created)
        elif ctor == "ternary_mctdh":
            bt = BasisTree.ternary_mctdh(created)
        elif ctor == "mctdh_contract":
            bt = BasisTree.general_mctdh(created, 2, contract_primitive=True, contract_label=[bool(rng.integers(2)) for _ in created])
        elif ctor == "t3ns":
            bt = BasisTree.t3ns(created)
        desc = {"constructor": ctor, "nbasis": nb}
        # constructors keep every basis set exactly once; virtual nodes only carry BasisDummy
        got = [b for b in bt.basis_list if type(b).__name__ != "BasisDummy"]
        led.check(len(got) == len(created) and all(any(g is c for g in got) for c in created) and len(set(map(id, got))) == len(got),
                  f"post:BasisTree.{ctor}:keeps_every_basis_once", f"BasisTree.{ctor}", f"{len(got)} basis sets in the tree for {len(created)} given",
                  (kind, n_nodes, flavour, seed, "once"), {}, dict(desc, flavour=flavour))
        if ctor in ("binary_mctdh", "ternary_mctdh", "mctdh_contract"):
            # the label of the virtual nodes is a documented argument of every MCTDH constructor (two such trees joined under one root need distinct labels):
            # it is forwarded, and the joined tree is a valid basis tree on which the operator is built
            try:
                def build(lbl, sets):
                    if ctor == "binary_mctdh":
                        return BasisTree.binary_mctdh(sets, dummy_label=lbl)
                    if ctor == "ternary_mctdh":
                        return BasisTree.ternary_mctdh(sets, dummy_label=lbl)
                    return BasisTree.general_mctdh(sets, 2, contract_primitive=True, dummy_label=lbl)
                # (every MCTDH constructor needs at least two basis sets: two subtrees from four sets upward, one tree otherwise)
                half = len(created) // 2
                if half >= 2:
                    t1, t2 = build("left virtual", created[:half]), build("right virtual", created[half:])
                else:
                    t1, t2 = build("left virtual", created), None
                dl = [b.dofs[0] for b in t1.basis_list if type(b).__name__ == "BasisDummy"] + ([b.dofs[0] for b in t2.basis_list if type(b).__name__ == "BasisDummy"] if t2 else [])
                ok = all(d[0] in ("left virtual", "right virtual") for d in dl) and len(set(dl)) == len(dl)
                if t2 is not None:
                    from renormalizer.tn.treebase import TreeNodeBasis
                    from renormalizer.model.basis import BasisDummy
                    root = TreeNodeBasis([BasisDummy(("joint root", 0))])
                    root.add_child([t1.root, t2.root])
                    joint = BasisTree(root)
                    ok = ok and len(set(map(str, joint.dof_list))) == len(joint.dof_list)
                led.check(ok, f"post:BasisTree.{ctor}:virtual_nodes_carry_the_requested_label", f"BasisTree.{ctor}",
                          f"virtual node labels {dl[:4]} for dummy_label='left virtual' / 'right virtual' (or the joined tree has duplicate degrees of freedom)",
                          (kind, n_nodes, flavour, seed, "dummy-label"), {}, dict(desc, flavour=flavour))
            except Exception as e:
                led.check(False, f"post:BasisTree.{ctor}:virtual_nodes_carry_the_requested_label", f"BasisTree.{ctor}", f"raised {type(e).__name__}: {e}",
                          (kind, n_nodes, flavour, seed, "dummy-label"), {}, dict(desc, flavour=flavour))
        if ctor == "linear":
            led.check([b for b in bt.basis_list] == created, f"post:BasisTree.{ctor}:preorder_is_input_order", f"BasisTree.{ctor}", "pre-order differs from the input order",
                      (kind, n_nodes, flavour, seed, "order"), {}, dict(desc, flavour=flavour))
    model = Model(list(created), [])
    dims = [b.nbas for b in created]
    if int(np.prod(dims)) > 600:
        return
    ntr = 2 if tier == "quick" else 5
    star = kind.startswith("hub")
    for trial in range(ntr + 1 + (1 if star else 0)):
        if star and trial == ntr + 1:
            # central-spin structure on the hub: one term per child, hub operator x child operator, so that the rows of the hub's table differ ONLY in what one
            # child (the first, the second, ...) hands up - every child bond column has to take part in telling rows apart
            from renormalizer.model import Op
            hub_dof = created[0].dofs[0] if where == "root" else created[1].dofs[0]
            first_kid = (nsets if where == "root" else 1 + nsets)
            terms = []
            for k_ in range(nch):
                kid = created[first_kid + k_].dofs[0]
                try:
                    t_ = Op("sigma_z", hub_dof) * Op("sigma_z", kid) * float(rng.uniform(0.3, 1.5))
                    if flavour == "holstein":
                        raise ValueError
                except Exception:
                    t_ = None
                if t_ is not None:
                    terms.append(t_)
            terms += real_terms(model, rng, 2)
        elif trial == 0 and flavour == "modes":
            # every mode with its own kinetic and potential term plus bilinear couplings: each basis set's own parameters enter on every node
            from renormalizer.model import Op
            terms = []
            for b_ in created:
                terms += [Op("p^2", b_.dofs[0], 0.5), Op("x^2", b_.dofs[0], 0.5 * float(b_.omega) ** 2), Op("x", b_.dofs[0], float(rng.uniform(0.2, 0.8)))]
            for b1_, b2_ in zip(created[:-1], created[1:]):
                terms.append(Op("x", b1_.dofs[0]) * Op("x", b2_.dofs[0]) * float(rng.uniform(0.1, 0.5)))
        elif trial < ntr:
            terms = real_terms(model, rng, int(rng.integers(1, 6)) if not kind.startswith("hub") else int(rng.integers(5, 10)))
            # the construction must be covariant under a common scale of the coefficients (units): tiny and huge absolute values
            sc = [1.0, 2e-10, 1.0, 3e5][trial % 4] if tier != "quick" else [1.0, 2e-10][trial % 2]
            if sc != 1.0:
                terms = [t * sc for t in terms]
        else:
            # degenerate term tables (C01's corner cases): multiples of the identity, identities on different dofs, a term and its negative plus a constant
            from renormalizer.model import Op
            d0, d1 = created[0].dofs[0], created[-1].dofs[0]
            zero = [0] * model.qn_size if model.qn_size > 1 else 0
            pick = int(rng.integers(3))
            if pick == 0:
                terms = [Op("I", d0, 2.5)]
            elif pick == 1:
                terms = [Op("I", d0, 0.5), Op("I", d1, 0.7)]
            else:
                base = real_terms(model, rng, 1)
                terms = ([base[0], base[0] * (-1.0)] if base else []) + [Op("I", d1, 2.0)]
        if not terms:
            continue
        ref = U.dense_terms(model, terms).real
        scale = max(1e-300, sum(abs(t.factor) for t in terms))
        rep = dict(desc, flavour=flavour, basis=[repr(b) for b in created], terms=[repr(t) for t in terms], seed=seed, trial=trial,
                   tree=[[repr(b.dofs) for b in n.basis_sets] for n in bt.node_list], parents=[bt.node_idx[n.parent] if n.parent is not None else None for n in bt.node_list])
        chain = T.__dict__.get("_none")
        try:
            mpo_dense = None
            from vk.specs import chain as S
            mpo_dense = S.dense(Mpo(model, terms)).real
        except Exception as e:
            led.error("chain MPO reference", e)
        for algo in ("qr", "Hopcroft-Karp", "Hungarian"):
            key = (kind, n_nodes, flavour, seed, trial, algo)
            fields = {"algo": algo}
            try:
                o = TTNO(bt, terms, algo=algo)
            except Exception as e:
                led.check(False, "post:TTNO.__init__:total", "TTNO.__init__", f"raised {type(e).__name__}: {e}", key, fields, dict(rep, algo=algo))
                continue
            d = T.dense_ttno(o, created)
            err = np.abs(d - ref).max()
            led.check(err <= 1e-9 * scale, "post:TTNO.__init__:dense_equals_sum_of_products", "TTNO.__init__",
                      f"max deviation from the dense sum of tensor products {err:.2e}", key + ("dense",), fields, dict(rep, algo=algo))
            if mpo_dense is not None:
                led.check(np.abs(d - mpo_dense).max() <= 1e-9 * scale, "post:TTNO.__init__:equals_chain_mpo", "TTNO.__init__",
                          f"differs from the MPO of the linear chain by {np.abs(d - mpo_dense).max():.2e}", key + ("mpo",), fields, dict(rep, algo=algo))
            v = T.qnv_tree_violations(o)
            led.check(not v, "post:TTNO.__init__:qn_valid", "TTNO.__init__", f"{v[:1]}", key + ("qnv",), fields, dict(rep, algo=algo))
            d2 = np.asarray(o.todense(created))
            led.check(np.abs(d2 - d).max() <= 1e-10 * scale, "post:TTNO.todense:independent_contraction", "TTNO.todense",
                      f"todense(order) differs from the independent contraction by {np.abs(d2 - d).max():.2e}", key + ("todense",), fields, dict(rep, algo=algo))
            # the `order` argument: any permutation of the basis sets (reversed, interleaved across nodes) gives the operator in THAT tensor-product order
            for oname, perm_ in (("reversed", list(range(len(created)))[::-1]), ("interleaved", list(range(0, len(created), 2)) + list(range(1, len(created), 2)))):
                if perm_ == list(range(len(created))):
                    continue
                ordp = [created[i_] for i_ in perm_]
                try:
                    dp = np.asarray(o.todense(ordp))
                    refp = T.dense_ttno(o, ordp)
                    led.check(dp.shape == refp.shape and np.abs(dp.reshape(refp.shape) - refp).max() <= 1e-10 * scale, "post:TTNO.todense:order_argument", "TTNO.todense",
                              f"todense({oname} order) differs from the independent contraction in that order", key + ("todense", oname), fields, dict(rep, algo=algo, order=oname))
                except Exception as e:
                    led.check(False, "post:TTNO.todense:order_argument", "TTNO.todense", f"todense({oname} order) raised {type(e).__name__}: {e}", key + ("todense", oname), fields, dict(rep, algo=algo))
        # a second, different tree over the same degrees of freedom gives the same operator
        if kind == "enum":
            bt2 = None
            for _ in range(5):
                shapes = T.tree_shapes(n_nodes)
                shape2 = shapes[int(rng.integers(len(shapes)))]
                # distribute the same basis sets over shape2 (one group per node, dummy when exhausted)
                perm = list(rng.permutation(len(created)))
                groups = [[] for _ in range(n_nodes)]
                for j, bi in enumerate(perm):
                    groups[j % n_nodes].append(created[bi])
                try:
                    bt2 = T.build_basis_tree(shape2, groups)
                    break
                except Exception:
                    bt2 = None
            if bt2 is not None:
                try:
                    o2 = TTNO(bt2, terms)
                    d2 = T.dense_ttno(o2, created)
                    led.check(np.abs(d2 - ref).max() <= 1e-9 * scale, "post:TTNO.__init__:topology_independent", "TTNO.__init__",
                              f"a different tree over the same DoFs deviates by {np.abs(d2 - ref).max():.2e}", (kind, n_nodes, flavour, seed, trial, "tree2"), {},
                              dict(rep, tree2=[[repr(b.dofs) for b in n.basis_sets] for n in bt2.node_list]))
                except Exception as e:
                    led.check(False, "post:TTNO.__init__:total", "TTNO.__init__", f"second tree raised {type(e).__name__}: {e}", (kind, n_nodes, flavour, seed, trial, "tree2"), {}, rep)


def w_partition(case, led):
    from renormalizer.tn.treebase import approximate_partition
    L, g = case
    seq = list(range(100, 100 + L))
    r = approximate_partition(seq, g)
    flat = [x for grp in r for x in grp]
    led.check(len(r) == g and flat == seq, "post:approximate_partition:concat_is_sequence", "approximate_partition", f"L={L}, ngroups={g}: {r}", (L, g), {},
              {"sequence_length": L, "ngroups": g}, nontrivial=L > g)


def check(run):
    from contracts import treebase as TB
    from vk.pyvc.run import verify

    def replay(cex, locals_, ob):
        from renormalizer.tn.treebase import approximate_partition
        seq, g = cex.get("sequence") or [], int(cex.get("ngroups", 1))
        r = approximate_partition(list(seq), g)
        ok = len(r) == g and [x for grp in r for x in grp] == list(seq)
        return (not ok), {"call": f"approximate_partition({seq}, {g})", "result": r}
    verify(run, TB.REL, TB.approximate_partition, fingerprint=TB.FINGERPRINT, replay=replay)
    run_cases(run, w_partition, [(L, g) for L in range(0, 14) for g in range(1, 6)])
    from props import C0x_range
    run_cases(run, C0x_range.w_tree, [("range", run.seed + i) for i in range(2 if run.tier == "quick" else 8)])
    from props import C01_sym
    guarded(run, C01_sym.prove_tree)
    seeds = list(range(run.seed * 100, run.seed * 100 + (3 if run.tier == "quick" else 10)))
    cases = []
    for s in seeds:
        for nn in (2, 3, 4, 5) if run.tier == "quick" else (2, 3, 4, 5, 6):
            for fl in ("spin", "spinqn", "holstein", "modes"):
                cases.append(("enum", nn, fl, s, run.tier))
    hubs = [(4, 1), (3, 2), (2, 3), (5, 1), (6, 1)] if run.tier == "quick" else [(4, 1), (3, 2), (2, 3), (5, 1), (4, 2), (3, 3), (5, 2), (6, 1), (7, 1)]
    for nch, nsets in hubs:
        for where in ("root", "inner"):
            for fl in ("spinqn", "spin") if run.tier == "quick" else ("spinqn", "spin", "holstein"):
                for s in seeds[:2]:
                    cases.append((f"hub:{nch}:{nsets}:{where}", nch + 1, fl, s, run.tier))
    for ctor in ("linear", "binary", "binary_mctdh", "ternary_mctdh", "mctdh_contract", "t3ns"):
        for nb in (2, 3, 4, 5, 6) if run.tier == "quick" else (2, 3, 4, 5, 6, 7):
            for fl in ("spinqn", "holstein"):
                cases.append((ctor, nb, fl, run.seed, run.tier))
    run_cases(run, worker, cases)
    run.rule = ("rooted ordered trees with 2..5(6) nodes sampled from the complete enumeration of shapes x node payloads {1-2 basis sets or dummy} x flavours "
                "{spin, spin+qn, electron-phonon}; named constructors linear/binary/binary_mctdh/ternary_mctdh/contracted mctdh/t3ns with 2..6(7) basis sets; "
                "real term lists of 1..5 terms x algorithms {qr, Hopcroft-Karp, Hungarian}; a second random tree over the same DoFs; approximate_partition "
                "exhaustive for lengths 0..13 x 1..5 groups; distinct = (tree, flavour, seed, trial, algorithm, clause)")
    run.sample({"shape": "(((),), ())", "payload": [["s0"], [], ["s1", "s2"], ["s3"]], "algo": "Hungarian",
                "contract": "independent contraction of the TTNO == dense sum of tensor products == chain MPO"})
    run.explanation = ("approximate_partition proved for all inputs (consecutive covering slices => every basis set kept once, in order). TTNO construction itself "
                       "(column rolling over np arrays) is outside the VC generator: bounded runtime contracts with three independent oracles. Complex operators are "
                       "a documented precondition violation of TTNO ('complex operator not supported yet') and are not generated.")
    run.trusted += ["cited lemma: consecutive slices covering [0,L) concatenate to the sequence", "independent recursive tree contraction in vk/specs/tree.py",
                    "print_tree shim (tn package import)"]
