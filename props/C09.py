"""C09 Real-time evolution converges to the exact propagator for every scheme."""
from vk.symx.harness import guarded
import math

import numpy as np
import scipy.linalg

from vk.rtc.harness import run_cases
from vk.specs import chain as S
from vk.specs import universe as U
from vk.specs import dyn as Dn

LEVEL = "other"
TECHNIQUE = ("Engine S (kernel-stub mode): one step of every propagation-and-compression scheme equals the scheme's stage polynomial (resp. the explicit RK recursion "
             "for H(t)) applied to the state, as polynomials in the tensor entries; runtime contracts with theorem-derived error bounds (Taylor / stage-polynomial remainder, exactness of projector splitting and VMF at full bond "
             "dimension, order of CMF) against scipy expm of the dense Hamiltonian; solver-, split- and adaptivity-independence; norm/energy conservation of "
             "TDVP-PS at any bond dimension; bond limits (bounded stand-in; convergence claims are outside any deductive verifier here)")

METHODS = ["prop_and_compress", "prop_and_compress_tdrk4", "prop_and_compress_tdrk", "tdvp_ps", "tdvp_ps2", "tdvp_vmf", "tdvp_mu_vmf", "tdvp_mu_cmf"]
EXACT_AT_FULL_M = {"tdvp_ps", "tdvp_ps2", "tdvp_vmf", "tdvp_mu_vmf"}
EPS = 1e-9


def taylor_bound(x, p):
    """|sum_{k<=p} z^k/k! - e^z| <= x^{p+1}/(p+1)! * e^x for |z| = x"""
    return x ** (p + 1) / math.factorial(p + 1) * math.exp(x)


def rk_bound(x, rk):
    """linear autonomous problem: the RK step is the stage polynomial R(z) = sum_k d_k z^k (d_k from runge_kutta_ti_coefficient, see C19)"""
    d = np.asarray(rk.runge_kutta_ti_coefficient(), dtype=float).reshape(-1, rk.stage + 1)[0]
    s = rk.stage
    tot = sum(abs(d[k] - 1.0 / math.factorial(k)) * x ** k for k in range(0, s + 1))
    return tot + taylor_bound(x, s)


def solver_bound(cfg, nsites, nrm):
    """TDVP at full bond dimension is exact up to the local integrator: 2n local problems per sweep, each solved to rtol/atol"""
    return 40 * nsites * (cfg.ivp_rtol * nrm + cfg.ivp_atol)


def bound_for(method, x, mps, nsites, nrm):
    cfg = mps.evolve_config
    if method == "prop_and_compress":
        return taylor_bound(x, cfg.taylor_config.order) * nrm + EPS
    if method == "prop_and_compress_tdrk4":
        return taylor_bound(x, 4) * nrm + EPS
    if method == "prop_and_compress_tdrk":
        return rk_bound(x, cfg.rk_config) * nrm + EPS
    if method in EXACT_AT_FULL_M:
        return solver_bound(cfg, nsites, nrm)
    if method == "tdvp_mu_cmf":
        # second order in dt (mean fields frozen over the step): local error <= x^3 (constant 1; observed ~1e-2 x^3) + local solves
        return x ** 3 * nrm + solver_bound(cfg, nsites, nrm)
    raise ValueError(method)


def prepare(name, n, rng, M=64, complex_=True):
    from renormalizer.mps import Mpo
    model, terms, sectors = Dn.hamiltonian(name, n, rng)
    H = Mpo(model, terms)
    Hd = Dn.dense_h(model, terms)
    q = sectors[len(sectors) // 2] if name != "spin" else sectors[0]
    a = U.make_state(model, q, M, rng)
    if a is None:
        return None
    a = a.canonicalise().canonicalise()
    a = a.to_complex() if complex_ else a
    return model, terms, H, Hd, q, a


def evolve(a, H, dt, method, **kw):
    m = a.copy()
    Dn.set_evolve(m, method, M=kw.pop("M", 64), **kw)
    return m.evolve(H, dt), m


def worker(case, led):
    kind = case[0]
    if kind == "accuracy":
        _, name, n, method, seed, tier = case
        rng = np.random.default_rng([seed, n, 909, sum(map(ord, name))])
        prep = prepare(name, n, rng)
        if prep is None:
            return
        model, terms, H, Hd, q, a = prep
        hn = np.linalg.norm(Hd, 2)
        v0 = S.dense(a)
        nrm = np.linalg.norm(v0)
        results = {}
        for x in (0.1, 0.3, 1.0):
            dt = x / hn
            ref = scipy.linalg.expm(-1j * dt * Hd) @ v0
            for solver in ("krylov", "RK45"):
                if method.startswith("prop") and solver == "RK45":
                    continue
                extra = {}
                if method == "prop_and_compress_tdrk":
                    # the embedded pairs (two rows of b) are only admissible with adaptive stepping (asserted by the library): they are exercised
                    # by the `adaptive` cases; fixed-step runs rotate over the eight single-row tableaux
                    extra["rk_solver"] = ["C_RK4", "38rule_RK4", "Kutta_RK3", "Fehlberg5", "Heun_RK2", "midpoint_RK2", "Ralston_RK2", "Forward_Euler"][(seed + int(x * 10)) % 8]
                key = (name, n, method, solver, x, str(extra))
                rep = {"model": name, "nsites": n, "method": method, "ivp_solver": solver, "x=|H|dt": x, "dt": dt, "seed": seed, "extra": extra,
                       "how": "props.C09.prepare(model, nsites, rng) then set_evolve/evolve"}
                fields = {"method": method, "ivp_solver": solver}
                try:
                    r, m = evolve(a, H, dt, method, ivp_solver=solver, **extra)
                except Exception as e:
                    led.check(False, f"post:Mps.evolve[{method}]:total", f"Mps._evolve_{method}", f"raised {type(e).__name__}: {e}", key, fields, rep)
                    continue
                v = S.dense(r)
                err = np.linalg.norm(v - ref)
                bnd = bound_for(method, x, m, n, nrm)
                led.check(err <= bnd, f"post:Mps.evolve[{method}]:error_within_scheme_bound", f"Mps._evolve_{method}",
                          f"|psi - exp(-iHt)psi0| = {err:.3e} > bound {bnd:.3e} at |H|dt={x}", key, fields, rep)
                led.check(all(b <= 64 for b in r.bond_dims), f"post:Mps.evolve[{method}]:bond_limit", f"Mps._evolve_{method}", f"{r.bond_dims}", key + ("bd",), fields, rep)
                led.check(np.abs(S.dense(a) - v0).max() <= 1e-12, f"frame:Mps.evolve[{method}]:input", f"Mps._evolve_{method}", "input changed", key + ("frame",), fields, rep)
                results[(x, solver)] = v
            # solver independence
            if (x, "krylov") in results and (x, "RK45") in results:
                d = np.linalg.norm(results[(x, "krylov")] - results[(x, "RK45")])
                # both solvers integrate the same local linear problems (also in CMF, where the mean fields are frozen): they must agree
                # to the local solver tolerance, independently of the discretisation error of the scheme
                bnd = 2 * solver_bound(m.evolve_config, n, nrm)
                led.check(d <= bnd, f"post:Mps.evolve[{method}]:solver_independent", f"Mps._evolve_{method}",
                          f"krylov vs RK45 differ by {d:.3e} > {bnd:.3e} at |H|dt={x}", (name, n, method, "solvers", x), {"method": method},
                          {"model": name, "nsites": n, "method": method, "x=|H|dt": x, "seed": seed})
        # backward propagation (negative real time, as the spectra drivers use it): the same contract with t < 0
        for solver in ("krylov", "RK45"):
            if method.startswith("prop") and solver == "RK45":
                continue
            x = -0.3
            dt = x / hn
            ref = scipy.linalg.expm(-1j * dt * Hd) @ v0
            # (the general RK scheme checks that its configured initial step `guess_dt` points in the direction of the requested step: a stated precondition)
            extra = {"rk_solver": "C_RK4", "guess_dt": dt} if method == "prop_and_compress_tdrk" else {}
            key = (name, n, method, solver, x, "backward")
            rep = {"model": name, "nsites": n, "method": method, "ivp_solver": solver, "x=|H|dt": x, "dt": dt, "seed": seed, "how": "props.C09.prepare(model, nsites, rng) then set_evolve/evolve with dt < 0"}
            fields = {"method": method, "ivp_solver": solver, "backward": True}
            try:
                r, m = evolve(a, H, dt, method, ivp_solver=solver, **extra)
            except Exception as e:
                led.check(False, f"post:Mps.evolve[{method}]:total", f"Mps._evolve_{method}", f"raised {type(e).__name__}: {e} for a negative time step", key, fields, rep)
                continue
            err = np.linalg.norm(S.dense(r) - ref)
            bnd = bound_for(method, abs(x), m, n, nrm)
            led.check(err <= bnd, f"post:Mps.evolve[{method}]:error_within_scheme_bound", f"Mps._evolve_{method}",
                      f"|psi - exp(-iHt)psi0| = {err:.3e} > bound {bnd:.3e} at |H|dt={x} (backward in time)", key, fields, rep)
        # documented switches of the variational schemes (secondary code paths): the overlap-free form of VMF, the CMF variants (trapezoidal mean fields, no midpoint)
        tight = {"ivp_rtol": 1e-9, "ivp_atol": 1e-11}      # the bound of the exact-at-full-rank schemes is the local solver tolerance: make it tight
        variants = {"tdvp_vmf": [dict(tight, force_ovlp=False), dict(tight, force_ovlp=True)], "tdvp_mu_vmf": [dict(tight, force_ovlp=False), dict(tight, force_ovlp=True)],
                    "tdvp_mu_cmf": [{"tdvp_cmf_c_trapz": True}, {"tdvp_cmf_midpoint": False}]}.get(method, [])
        for opts in variants:
            for x in (0.1, 0.3):
                dt = x / hn
                ref = scipy.linalg.expm(-1j * dt * Hd) @ v0
                key = (name, n, method, "variant", x, str(opts))
                rep = {"model": name, "nsites": n, "method": method, "x=|H|dt": x, "dt": dt, "seed": seed, "evolve_config_switches": opts,
                       "how": "props.C09.prepare(model, nsites, rng); set_evolve; the switches are set on evolve_config (force_ovlp through the constructor)"}
                fields = {"method": method, "switches": str(opts)}
                try:
                    m = a.copy()
                    Dn.set_evolve(m, method, M=64, **{k: v for k, v in opts.items() if not k.startswith("tdvp_")})
                    for k_, v_ in opts.items():
                        if k_.startswith("tdvp_"):
                            setattr(m.evolve_config, k_, v_)
                    r = m.evolve(H, dt)
                except Exception as e:
                    led.check(False, f"post:Mps.evolve[{method}]:total", f"Mps._evolve_{method}", f"raised {type(e).__name__}: {e} with {opts}", key, fields, rep)
                    continue
                err = np.linalg.norm(S.dense(r) - ref)
                # without the midpoint the frozen mean fields are those of the start of the step: first order, local error <= x^2
                bnd = (x ** 2 * nrm + solver_bound(m.evolve_config, n, nrm)) if opts.get("tdvp_cmf_midpoint") is False else bound_for(method, x, m, n, nrm)
                led.check(err <= bnd, f"post:Mps.evolve[{method}]:error_within_scheme_bound", f"Mps._evolve_{method}",
                          f"|psi - exp(-iHt)psi0| = {err:.3e} > bound {bnd:.3e} at |H|dt={x} with {opts}", key, fields, rep)
                led.check(np.abs(S.dense(a) - v0).max() <= 1e-12, f"frame:Mps.evolve[{method}]:input", f"Mps._evolve_{method}", "input changed", key + ("frame",), fields, rep)
        # split independence: U(t) vs U(t/2)U(t/2)
        x = 0.3
        dt = x / hn
        try:
            r1, m = evolve(a, H, dt, method)
            h1, _ = evolve(a, H, dt / 2, method)
            h1.evolve_config = m.evolve_config.copy()
            h2 = h1.evolve(H, dt / 2)
            d = np.linalg.norm(S.dense(r1) - S.dense(h2))
            bnd = bound_for(method, x, m, n, nrm) + 2 * bound_for(method, x / 2, m, n, nrm)
            led.check(d <= bnd, f"post:Mps.evolve[{method}]:split_independent", f"Mps._evolve_{method}", f"U(t) vs U(t/2)U(t/2): {d:.3e} > {bnd:.3e}",
                      (name, n, method, "split"), {"method": method}, {"model": name, "nsites": n, "method": method, "dt": dt, "seed": seed})
        except Exception as e:
            led.check(False, f"post:Mps.evolve[{method}]:total", f"Mps._evolve_{method}", f"split run raised {type(e).__name__}: {e}", (name, n, method, "split"), {"method": method}, {})
        # call-history independence of one object: evolving the same configured object twice gives the same state, and leaves its configuration as it was
        x = 0.2
        dt = x / hn
        extra = {"tdvp_cmf_c_trapz": True} if (method == "tdvp_mu_cmf" and seed % 2) else {}
        try:
            m = a.copy()
            Dn.set_evolve(m, method, M=64)
            for k_, v_ in extra.items():
                setattr(m.evolve_config, k_, v_)
            cfg0 = {k: repr(v) for k, v in vars(m.evolve_config).items()}
            r1 = m.evolve(H, dt)
            cfg1 = {k: repr(v) for k, v in vars(m.evolve_config).items()}
            r2 = m.evolve(H, dt)
            r3 = m.evolve(H, dt / 2)
            d = np.linalg.norm(S.dense(r1) - S.dense(r2))
            rep = {"model": name, "nsites": n, "method": method, "dt": dt, "seed": seed, "extra": extra, "calls": "m.evolve(H, dt) twice on the same object m"}
            led.check(d <= 1e-10 * max(1.0, nrm), f"post:Mps.evolve[{method}]:same_object_same_result", f"Mps._evolve_{method}",
                      f"two evolutions of one object over the same dt differ by {d:.3e}", (name, n, method, "reuse"), {"method": method}, rep)
            changed = sorted(k for k in cfg0 if cfg0[k] != cfg1.get(k) and k not in ("guess_dt",))
            led.check(not changed, f"frame:Mps.evolve[{method}]:input_configuration", f"Mps._evolve_{method}",
                      f"evolve changed the scheme configuration of its input object: {[(k, cfg0[k], cfg1.get(k)) for k in changed]}", (name, n, method, "reuse-cfg"), {"method": method}, rep)
            ref = scipy.linalg.expm(-1j * dt / 2 * Hd) @ v0
            err = np.linalg.norm(S.dense(r3) - ref)
            bnd = bound_for(method, x / 2, m, n, nrm)
            led.check(err <= bnd, f"post:Mps.evolve[{method}]:error_within_scheme_bound_on_reuse", f"Mps._evolve_{method}",
                      f"third evolution of the same object: |psi - exp(-iHt/2)psi0| = {err:.3e} > bound {bnd:.3e}", (name, n, method, "reuse-acc"), {"method": method}, rep)
        except Exception as e:
            led.check(False, f"post:Mps.evolve[{method}]:total", f"Mps._evolve_{method}", f"re-use run raised {type(e).__name__}: {e}", (name, n, method, "reuse"), {"method": method, "reuse": True}, {})
        # order check for CMF: halving dt reduces the error by at least 2^2 * 0.7 (one step vs one step of half size, compared per unit time: global order 2)
        if method == "tdvp_mu_cmf":
            errs = []
            for x in (0.4, 0.2):
                dt = x / hn
                r, _ = evolve(a, H, dt, method, ivp_solver="RK45", ivp_rtol=1e-9, ivp_atol=1e-12)
                errs.append(np.linalg.norm(S.dense(r) - scipy.linalg.expm(-1j * dt * Hd) @ v0))
            if errs[0] > 1e-7:
                led.check(errs[0] / max(errs[1], 1e-300) >= 2 ** 3 * 0.6, "post:Mps.evolve[tdvp_mu_cmf]:local_error_order_3", "Mps._evolve_tdvp_mu_cmf",
                          f"local error ratio on halving dt: {errs[0] / max(errs[1], 1e-300):.2f} (< 4.8)", (name, n, method, "order"), {"method": method},
                          {"model": name, "nsites": n, "errors": errs, "seed": seed})
    elif kind == "adaptive":
        _, name, n, method, seed, tier = case
        rng = np.random.default_rng([seed, n, 919, sum(map(ord, name))])
        prep = prepare(name, n, rng)
        if prep is None:
            return
        model, terms, H, Hd, q, a = prep
        hn = np.linalg.norm(Hd, 2)
        v0 = S.dense(a)
        dt = 0.6 / hn
        ref = scipy.linalg.expm(-1j * dt * Hd) @ v0
        extra = {"rk_solver": ["RKF45", "Cash-Karp45"][seed % 2]} if method == "prop_and_compress_tdrk" else {}
        key = (name, n, method, "adaptive")
        rep = {"model": name, "nsites": n, "method": method, "dt": dt, "seed": seed, "adaptive": True}
        try:
            r, m = evolve(a, H, dt, method, adaptive=True, guess_dt=dt / 3, **extra)
            err = np.linalg.norm(S.dense(r) - ref)
            led.check(err <= 10 * m.evolve_config.adaptive_rtol * np.linalg.norm(v0) + bound_for(method, 0.2, m, n, np.linalg.norm(v0)),
                      f"post:Mps.evolve[{method}]:adaptive_within_requested_tolerance", f"Mps._evolve_{method}",
                      f"adaptive stepping error {err:.3e} (adaptive_rtol {m.evolve_config.adaptive_rtol})", key, {"method": method}, rep)
        except Exception as e:
            led.check(False, f"post:Mps.evolve[{method}]:total", f"Mps._evolve_{method}", f"adaptive run raised {type(e).__name__}: {e}", key, {"method": method, "adaptive": True}, rep)
        if method.startswith("prop_and_compress"):
            # a deliberately too large initial step guess forces rejected sub-steps: a rejected trial must leave no trace in the state
            dt = 3.0 / hn
            ref = scipy.linalg.expm(-1j * dt * Hd) @ v0
            key = (name, n, method, "adaptive-rejections")
            rep = {"model": name, "nsites": n, "method": method, "dt": dt, "seed": seed, "adaptive": True, "guess_dt": dt, "extra": extra}
            try:
                r, m = evolve(a, H, dt, method, adaptive=True, guess_dt=dt, **extra)
                err = np.linalg.norm(S.dense(r) - ref)
                rtol = m.evolve_config.adaptive_rtol
                # the step controller accepts a sub-step when p = (rtol/err)^(1/order) >= p_restart = 0.5, i.e. with an error estimate of up to 2^order * rtol;
                # at most 10 sub-steps of |H|dt >= 0.3 fit into |H|T = 3
                order = 4 if method == "prop_and_compress" else 5
                lib_bound = 10 * 2 ** order * rtol * np.linalg.norm(v0)
                led.check(err <= 20 * rtol * np.linalg.norm(v0) + bound_for(method, 0.2, m, n, np.linalg.norm(v0)),
                          f"post:Mps.evolve[{method}]:adaptive_with_rejected_steps", f"Mps._evolve_{method}",
                          f"|H|T=3 with initial guess_dt=T (first trials are rejected): error {err:.3e} (adaptive_rtol {rtol})", key,
                          {"method": method, "within_step_controller_acceptance_bound": bool(err <= lib_bound)}, rep)
            except Exception as e:
                led.check(False, f"post:Mps.evolve[{method}]:total", f"Mps._evolve_{method}", f"adaptive run with rejections raised {type(e).__name__}: {e}", key,
                          {"method": method, "adaptive": True}, rep)
    elif kind == "conservation":
        _, name, n, seed, tier = case
        rng = np.random.default_rng([seed, n, 929, sum(map(ord, name))])
        prep = prepare(name, n, rng, M=64)
        if prep is None:
            return
        model, terms, H, Hd, q, a0 = prep
        hn = np.linalg.norm(Hd, 2)
        for M in (1, 2, 3):
            a = a0.copy()
            from renormalizer.utils import CompressConfig, CompressCriteria
            a.compress_config = CompressConfig(CompressCriteria.fixed, max_bonddim=M)
            a.ensure_left_canonical()
            a.compress()
            a = a.to_complex()
            nrm = np.linalg.norm(S.dense(a))
            if nrm < 1e-6:
                continue
            a = a.scale(1 / nrm)
            e0 = np.vdot(S.dense(a), Hd @ S.dense(a)).real
            cur = a
            for step in range(3):
                for solver in ("krylov",):
                    Dn.set_evolve(cur, "tdvp_ps", M=M, ivp_solver=solver)
                    nxt = cur.evolve(H, 0.5 / hn, normalize=False)
                    v = S.dense(nxt)
                    key = (name, n, "ps", M, step)
                    rep = {"model": name, "nsites": n, "M": M, "step": step, "seed": seed}
                    tol = solver_bound(nxt.evolve_config, n, 1.0)
                    led.check(abs(np.linalg.norm(v) - 1) <= tol, "post:Mps.evolve[tdvp_ps]:norm_conserved_at_any_bond_dimension", "Mps._evolve_tdvp_ps",
                              f"norm {np.linalg.norm(v):.8f} at M={M}, step {step}", key + ("norm",), {"M": M}, rep)
                    e = np.vdot(v, Hd @ v).real
                    led.check(abs(e - e0) <= tol * max(1.0, hn), "post:Mps.evolve[tdvp_ps]:energy_conserved_at_any_bond_dimension", "Mps._evolve_tdvp_ps",
                              f"energy {e:.8f} vs {e0:.8f} at M={M}, step {step}", key + ("energy",), {"M": M}, rep)
                    led.check(all(b <= M for b in nxt.bond_dims[1:-1]), "post:Mps.evolve[tdvp_ps]:bond_limit", "Mps._evolve_tdvp_ps", f"{nxt.bond_dims} > {M}",
                              key + ("bd",), {"M": M}, rep)
                    cur = nxt
        # every scheme respects the configured limit
        for method in METHODS:
            from renormalizer.utils import CompressConfig, CompressCriteria
            a = a0.copy()
            a.compress_config = CompressConfig(CompressCriteria.fixed, max_bonddim=3)
            a.ensure_left_canonical()
            a.compress()
            a = a.to_complex()
            try:
                r, _ = evolve(a, H, 0.3 / hn, method, M=3)
                lim = 3
                led.check(all(b <= lim for b in r.bond_dims[1:-1]) or method in ("tdvp_ps2",) and all(b <= lim for b in r.bond_dims[1:-1]),
                          f"post:Mps.evolve[{method}]:bond_limit", f"Mps._evolve_{method}", f"bond dims {r.bond_dims} exceed the configured limit {lim}",
                          (name, n, method, "limit"), {"method": method}, {"model": name, "nsites": n, "method": method, "M": lim, "seed": seed})
            except Exception as e:
                led.ok(f"skipped:evolve[{method}]:small_M_raised", f"Mps._evolve_{method}", (name, n, method, "limit", type(e).__name__), nontrivial=False)
        # two-site scheme with SITE-DEPENDENT limits (compress_config.max_dims): (a) limits equal to the complete bond dimensions lose nothing in either
        # starting direction, (b) ragged limits are respected bond by bond
        if n >= 3:
            from renormalizer.utils import CompressConfig, CompressCriteria
            dims_ = [b.nbas for b in model.basis]
            full = [1] + [int(min(np.prod(dims_[:k]), np.prod(dims_[k:]), 64)) for k in range(1, n)] + [1]
            for start in ("left", "right"):
                a = a0.copy().to_complex()
                a = a.ensure_left_canonical() if start == "left" else a.ensure_right_canonical()
                v0_ = S.dense(a)
                for tagl, lims in (("complete", list(full)), ("ragged", [1] + [int(max(1, min(f, int(rng.integers(1, 5))))) for f in full[1:-1]] + [1])):
                    x = a.copy()
                    Dn.set_evolve(x, "tdvp_ps2", M=64, ivp_solver="krylov")
                    cfg = CompressConfig(CompressCriteria.fixed, max_bonddim=64)
                    cfg.max_dims = np.array(lims, dtype=int)
                    x.compress_config = cfg
                    key = (name, n, "ps2-per-bond", start, tagl)
                    rep = {"model": name, "nsites": n, "start": start + "-canonical", "max_dims": lims, "seed": seed}
                    try:
                        r = x.evolve(H, 0.3 / hn)
                    except Exception as e:
                        led.ok("skipped:evolve[tdvp_ps2]:per_bond_raised", "Mps._evolve_tdvp_ps2", key + (type(e).__name__,), nontrivial=False)
                        continue
                    led.check(all(b <= l for b, l in zip(r.bond_dims, lims)), "post:Mps.evolve[tdvp_ps2]:per_bond_limits_respected", "MatrixProduct._update_mps",
                              f"bond dims {list(r.bond_dims)} exceed the per-bond limits {lims}", key + ("bd",), {"method": "tdvp_ps2", "limits": tagl}, rep)
                    if tagl == "complete":
                        ref_ = scipy.linalg.expm(-1j * (0.3 / hn) * Hd) @ v0_
                        err = np.linalg.norm(S.dense(r) - ref_)
                        bnd = 50 * solver_bound(r.evolve_config, n, max(1.0, np.linalg.norm(v0_))) + 1e-7
                        led.check(err <= bnd, "post:Mps.evolve[tdvp_ps2]:per_bond_limits_of_the_full_space_lose_nothing", "MatrixProduct._update_mps",
                                  f"error {err:.3e} > {bnd:.3e} with limits {lims} (complete bond dimensions)", key + ("err",), {"method": "tdvp_ps2"}, rep)
    elif kind == "history":
        _, name, n, seed, tier = case
        rng = np.random.default_rng([seed, n, 939, sum(map(ord, name))])
        prep = prepare(name, n, rng)
        if prep is None:
            return
        model, terms, H, Hd, q, a = prep
        hn = np.linalg.norm(Hd, 2)
        cur = a
        ref = S.dense(a)
        tot_bound = 0.0
        hist = []
        for step in range(5):
            method = METHODS[int(rng.integers(len(METHODS)))]
            x = float(rng.choice([0.1, 0.2, 0.4]))
            dt = x / hn
            hist.append((method, x))
            Dn.set_evolve(cur, method, M=64, guess_dt=dt)
            try:
                nxt = cur.evolve(H, dt)
            except Exception as e:
                exact = S.bond_dims_exact_of(cur)
                over = any(b > x_ for b, x_ in zip(cur.bond_dims, exact))
                led.check(False, f"post:Mps.evolve[{method}]:total", f"Mps._evolve_{method}", f"in a history {hist}: raised {type(e).__name__}: {e} "
                          f"(bond dims {list(cur.bond_dims)}, exact ranks allow {exact})",
                          (name, n, seed, step, "hist"), {"method": method, "exception": type(e).__name__, "reshape_error": "cannot reshape" in str(e),
                                                           "input_has_over_complete_bonds": bool(over)},
                          {"model": name, "nsites": n, "history": hist, "seed": seed, "bond_dims": list(map(int, cur.bond_dims))})
                break
            ref = scipy.linalg.expm(-1j * dt * Hd) @ ref
            tot_bound += bound_for(method, x, cur, n, np.linalg.norm(ref))
            err = np.linalg.norm(S.dense(nxt) - ref)
            led.check(err <= tot_bound, "post:Mps.evolve:history_of_scheme_switches", "Mps.evolve", f"after {hist}: error {err:.3e} > accumulated bound {tot_bound:.3e}",
                      (name, n, seed, step, "hist"), {"method": method}, {"model": name, "nsites": n, "history": hist, "seed": seed})
            cur = nxt
    elif kind == "mpdm":
        _, name, n, method, seed, tier = case
        from renormalizer.mps import MpDm
        rng = np.random.default_rng([seed, n, 949, sum(map(ord, name))])
        prep = prepare(name, n, rng, M=4)
        if prep is None:
            return
        model, terms, H, Hd, q, a = prep
        hn = np.linalg.norm(Hd, 2)
        A = MpDm.from_mps(a)
        A = H.apply(A).canonicalise().canonicalise()
        Ad = S.dense(A)
        if np.linalg.norm(Ad) < 1e-8:
            return
        # evolve(normalize=True) renormalises the tensor part: the contract is stated for normalised inputs
        A = A.scale(1.0 / np.linalg.norm(Ad))
        Ad = S.dense(A)
        dt = 0.3 / hn
        ref = scipy.linalg.expm(-1j * dt * Hd) @ Ad
        Dn.set_evolve(A, method, M=64)
        key = (name, n, method, "mpdm")
        rep = {"model": name, "nsites": n, "method": method, "dt": dt, "seed": seed, "form": "MpDm"}
        if method in ("tdvp_ps", "tdvp_vmf", "tdvp_mu_vmf", "tdvp_mu_cmf"):
            # one-site schemes keep the bond dimensions of their input and are exact only on a manifold that holds the trajectory (the property's
            # precondition "bond dimensions sufficient to hold the result"): the start state is therefore first propagated by the untruncated two-site
            # scheme (which grows the bonds, itself checked against the dense propagator here) and brought to canonical form
            B = A.copy()
            Dn.set_evolve(B, "tdvp_ps2", M=256)
            A1 = B.evolve(H, dt)
            e2 = np.linalg.norm(S.dense(A1) - ref)
            led.check(e2 <= bound_for("tdvp_ps2", 0.3, B, n, 1.0) * 4, "post:MpDm.evolve[tdvp_ps2]:error_within_scheme_bound", "Mps._evolve_tdvp_ps2",
                      f"density-operator form: {e2:.3e}", key + ("ps2-prep",), {"method": "tdvp_ps2", "form": "MpDm"}, rep)
            A = A1.canonicalise().canonicalise()
            Ad = S.dense(A)
            A = A.scale(1.0 / np.linalg.norm(Ad))
            Ad = S.dense(A)
            ref = scipy.linalg.expm(-1j * dt * Hd) @ Ad
            Dn.set_evolve(A, method, M=256)
            rep = dict(rep, start="the state after one untruncated tdvp_ps2 step of the same dt, canonicalised twice", bond_dims=list(A.bond_dims))
        try:
            r = A.evolve(H, dt)
            err = np.linalg.norm(S.dense(r) - ref)
            bnd = bound_for(method, 0.3, A, n, np.linalg.norm(Ad)) * 4
            led.check(err <= bnd, f"post:MpDm.evolve[{method}]:error_within_scheme_bound", f"Mps._evolve_{method}", f"density-operator form: {err:.3e} > {bnd:.3e}", key,
                      {"method": method, "form": "MpDm"}, rep)
        except Exception as e:
            led.check(False, f"post:MpDm.evolve[{method}]:total", f"Mps._evolve_{method}", f"raised {type(e).__name__}: {e}", key, {"method": method, "form": "MpDm"}, rep)
    elif kind == "vmf_rhs":
        # contract of the right-hand side the chain VMF schemes integrate (the closure func_vmf inside _evolve_tdvp_mu_vmf, captured through the name solve_ivp of
        # renormalizer.mps.mps): mapped to the dense vector, the parameter velocity is the ORTHOGONAL PROJECTION of -i H psi (resp. -H psi in imaginary time) onto
        # the tangent space of the matrix-product manifold at psi - for truncated manifolds (where the non-centre velocities do not vanish) and any norm.
        _, name, n, method, seed, tier = case
        import renormalizer.mps.mps as mps_mod
        from renormalizer.mps.svd_qn import get_qn_mask
        rng = np.random.default_rng([seed, n, 979, sum(map(ord, name))])
        model, terms, sectors = Dn.hamiltonian(name, n, rng)
        from renormalizer.mps import Mpo
        H = Mpo(model, terms)
        Hd = Dn.dense_h(model, terms)

        class Captured(Exception):
            pass
        for q in (sectors[1:3] if len(sectors) > 2 else sectors[:1]):
            for M in (1, 2, 3):
                for imag in (False, True):
                    for scale_ in (1.0, 0.6):
                        a = U.make_state(model, q, M, rng, complex_=True)
                        if a is None:
                            continue
                        a = a.canonicalise().canonicalise()
                        a = a.scale(scale_)
                        gauge = "canonical"
                        if (M + int(imag) + int(scale_ < 1)) % 2 == 0:
                            # a complex, symmetry-respecting gauge transformation G, G^-1 on every bond: the same state, flagged left-canonical (to_right False,
                            # centre at the last site) although its tensors are not isometries - the overlap-forcing branch must cope with that
                            a = a.ensure_left_canonical().to_complex()
                            for b_ in range(1, n):
                                lab = np.asarray(a.qn[b_]).reshape(len(a.qn[b_]), -1)
                                D_ = lab.shape[0]
                                G = np.zeros((D_, D_), dtype=complex)
                                for i_ in range(D_):
                                    for j_ in range(D_):
                                        if np.all(lab[i_] == lab[j_]):
                                            G[i_, j_] = (1.0 if i_ == j_ else 0.0) + 0.35 * (rng.normal() + 1j * rng.normal())
                                Gi = np.linalg.inv(G)
                                a[b_ - 1] = np.tensordot(np.asarray(a[b_ - 1].array), G, axes=1)
                                a[b_] = np.tensordot(Gi, np.asarray(a[b_].array), axes=1)
                            gauge = "random complex gauge, flagged left-canonical"
                        Dn.set_evolve(a, method, M=64)
                        key = (name, n, method, str(q), M, imag, scale_, gauge)
                        rep = {"model": name, "nsites": n, "method": method, "sector": q, "M": M, "imaginary_time": imag, "scale": scale_, "seed": seed,
                               "bond_dims": [int(b) for b in a.bond_dims], "gauge": gauge}
                        box = {}

                        def fake(fun, t_span, y0, *args, **kw):
                            box["fun"], box["y0"] = fun, np.array(y0)
                            raise Captured()
                        orig = mps_mod.solve_ivp
                        mps_mod.solve_ivp = fake
                        try:
                            a.evolve(H, -0.05j if imag else 0.05)
                        except Captured:
                            pass
                        except Exception as e:
                            led.ok("skipped:func_vmf:raised", f"Mps._evolve_tdvp_mu_vmf[{method}]", key + (type(e).__name__,), nontrivial=False)
                            continue
                        finally:
                            mps_mod.solve_ivp = orig
                        if "fun" not in box:
                            continue
                        y0 = box["y0"]
                        try:
                            ydot = np.array(box["fun"](0.0, y0.copy()))
                        except Exception as e:
                            led.check(False, f"post:Mps._evolve_tdvp_mu_vmf[{method}]:rhs_total", f"Mps._evolve_tdvp_mu_vmf", f"func_vmf raised {type(e).__name__}: {e}", key, {"method": method}, rep)
                            continue
                        # the layout of y is documented in the function: per site, the symmetry-allowed entries (mask with the qn centre on that site) in C order
                        st = a.copy().ensure_left_canonical().to_complex() if not imag else a.copy().ensure_left_canonical()
                        st = st.to_complex()
                        masks, pos = [], [0]
                        for i in range(n):
                            st.move_qnidx(i)
                            _, _, qnmat = st._get_big_qn([i])
                            mk = get_qn_mask(qnmat, st.qntot)
                            masks.append(mk)
                            pos.append(pos[-1] + int(mk.sum()))
                        if pos[-1] != len(y0):
                            led.check(False, f"post:Mps._evolve_tdvp_mu_vmf[{method}]:parameter_layout", "Mps._evolve_tdvp_mu_vmf", f"{pos[-1]} allowed entries but {len(y0)} parameters", key, {"method": method}, rep)
                            continue
                        tens = []
                        for i in range(n):
                            t_ = np.zeros(masks[i].shape, dtype=complex)
                            t_[masks[i]] = y0[pos[i]:pos[i + 1]]
                            tens.append(t_)
                        for i in range(n):
                            st[i] = tens[i]
                        v = S.dense(st) / st.coeff if hasattr(st, "coeff") and st.coeff not in (0,) else S.dense(st)
                        cols = []
                        for i in range(n):
                            for idx in zip(*np.nonzero(masks[i])):
                                e = np.zeros(masks[i].shape, dtype=complex)
                                e[idx] = 1.0
                                st[i] = e
                                cols.append(S.dense(st) / (st.coeff if hasattr(st, "coeff") else 1))
                            st[i] = tens[i]
                        J = np.array(cols).T
                        rhs = (-1.0 if imag else -1j) * (Hd @ v)
                        # bond weights: J^H J has the blocks (overlap matrix) x 1; weights near reg_epsilon are outside the clause, exact zeros (over-complete bonds) get
                        # the looser tolerance (the inverse is 1/reg_epsilon there and amplifies rounding)
                        sv = np.linalg.svd(J, compute_uv=False)
                        nz = sv[sv > 1e-9 * sv.max()]
                        eps_ = a.evolve_config.reg_epsilon
                        if nz.min() ** 2 < 1e4 * eps_ * max(1.0, scale_ ** 2):
                            led.ok("skipped:func_vmf:bond_weight_near_regularisation", "Mps._evolve_tdvp_mu_vmf", key + ("pre",), nontrivial=False)
                            continue
                        want = J @ np.linalg.lstsq(J, rhs, rcond=None)[0]
                        got = J @ ydot
                        err = np.linalg.norm(got - want)
                        tol_rel = 1e-6 + 1e-14 / eps_
                        led.check(err <= tol_rel * max(1e-12, np.linalg.norm(rhs)), f"post:Mps._evolve_tdvp_mu_vmf[{method}]:velocity_is_tangent_projection", "Mps._evolve_tdvp_mu_vmf",
                                  f"|J ydot - P_T(-iH psi)| = {err:.3e} (|H psi| = {np.linalg.norm(rhs):.3e})", key, {"method": method, "imaginary_time": imag}, rep,
                                  nontrivial=len(y0) > len(v) // 4)
    elif kind == "timedep":
        _, name, n, method, seed, tier = case
        from renormalizer.mps import Mpo
        rng = np.random.default_rng([seed, n, 959, sum(map(ord, name))])
        prep = prepare(name, n, rng)
        if prep is None:
            return
        model, terms, H, Hd, q, a = prep
        hn = np.linalg.norm(Hd, 2)
        half = len(terms) // 2
        H0, H1 = Mpo(model, terms[:max(1, half)]), Mpo(model, terms)
        H0d, H1d = U.dense_terms(model, terms[:max(1, half)]), Hd
        dt = 0.3 / hn

        def mpo_t(t, *args, **kw):
            # H(t) switches from H0+... : piecewise constant in the two halves would be discontinuous; use H(t) = H1 for all t but built lazily,
            # plus a genuinely time dependent scalar multiple
            return H1.scale(1.0 + 0.5 * t / dt)
        # reference: fine product formula for H(t) = (1 + 0.5 t/dt) H1
        v = S.dense(a).copy()
        nsub = 200
        for k in range(nsub):
            tm = (k + 0.5) * dt / nsub
            v = scipy.linalg.expm(-1j * (dt / nsub) * (1.0 + 0.5 * tm / dt) * H1d) @ v
        key = (name, n, method, "timedep")
        rep = {"model": name, "nsites": n, "method": method, "dt": dt, "seed": seed, "H(t)": "(1 + 0.5 t/dt) H"}
        try:
            m = a.copy()
            if "vmf" in method:
                # the variational schemes hand H(t) to the ODE solver as an explicitly time-dependent right-hand side; at full bond dimension the only error is
                # the solver's (tight tolerances: the bound is a few hundred times rtol)
                Dn.set_evolve(m, method, M=64, ivp_rtol=1e-8, ivp_atol=1e-10)
            else:
                Dn.set_evolve(m, method, M=64)
            r = m.evolve(mpo_t, dt)
            err = np.linalg.norm(S.dense(r) - v)
            bnd = (1.5 * 0.3) ** 5 * 2 * np.linalg.norm(v) + 1e-6 if "vmf" not in method else 3e-6 * np.linalg.norm(v)
            led.check(err <= bnd, f"post:Mps.evolve[{method}]:time_dependent_hamiltonian", f"Mps._evolve_{method}", f"error {err:.3e} > {bnd:.3e}", key, {"method": method}, rep)
        except Exception as e:
            led.check(False, f"post:Mps.evolve[{method}]:total", f"Mps._evolve_{method}", f"time-dependent run raised {type(e).__name__}: {e}", key, {"method": method, "timedep": True}, rep)
        if method == "prop_and_compress_tdrk":
            # adaptive sub-stepping with a time-dependent Hamiltonian: the stage times must be absolute times of the call, not of the sub-step
            T = 3 * dt
            v = S.dense(a).copy()
            nsub = 600
            for k in range(nsub):
                tm = (k + 0.5) * T / nsub
                v = scipy.linalg.expm(-1j * (T / nsub) * (1.0 + 0.5 * tm / dt) * H1d) @ v
            for solver in ("RKF45", "Cash-Karp45"):
                key = (name, n, method, "timedep-adaptive", solver)
                rep = {"model": name, "nsites": n, "method": method, "T": T, "seed": seed, "H(t)": "(1 + 0.5 t/dt) H", "adaptive": True, "rk_solver": solver, "guess_dt": T / 4}
                try:
                    m = a.copy()
                    Dn.set_evolve(m, method, M=64, adaptive=True, guess_dt=T / 4, rk_solver=solver)
                    r = m.evolve(mpo_t, T)
                    err = np.linalg.norm(S.dense(r) - v)
                    bnd = 50 * m.evolve_config.adaptive_rtol * np.linalg.norm(v) + 1e-6
                    led.check(err <= bnd, f"post:Mps.evolve[{method}]:time_dependent_hamiltonian_adaptive", f"Mps._evolve_{method}",
                              f"adaptive run over T with H(t): error {err:.3e} > {bnd:.3e}", key, {"method": method}, rep)
                except Exception as e:
                    led.check(False, f"post:Mps.evolve[{method}]:total", f"Mps._evolve_{method}", f"adaptive time-dependent run raised {type(e).__name__}: {e}", key,
                              {"method": method, "timedep": True, "adaptive": True}, rep)


def w_tiny_norm(case, led):
    """chain states of tiny norm propagated with normalize=False at full bond dimension: the projector-splitting schemes follow the dense propagator as they do at unit norm"""
    _, seed = case
    import scipy.linalg
    from renormalizer.model import Model, Op
    from renormalizer.model.basis import BasisHalfSpin
    from renormalizer.mps import Mps, Mpo
    from renormalizer.utils import EvolveConfig, EvolveMethod
    np.random.seed(seed + 9)
    rng = np.random.default_rng([seed, 909])
    n = 7
    terms = []
    for i in range(n - 1):
        terms += [Op("sigma_x sigma_x", [i, i + 1], 1.0), Op("sigma_+ sigma_-", [i, i + 1], 0.8), Op("sigma_- sigma_+", [i, i + 1], 0.8), Op("sigma_z sigma_z", [i, i + 1], 0.6)]
    terms += [Op("sigma_z", i, float(rng.uniform(0.2, 0.5)) * (i + 1)) for i in range(n)]
    model = Model([BasisHalfSpin(i) for i in range(n)], terms)
    mpo = Mpo(model)
    H = np.asarray(mpo.todense())
    psi0 = Mps.random(model, 0, 8, percent=1.0)
    psi0.canonicalise()
    for scale in (1.0, 1e-7):
        for method in (EvolveMethod.tdvp_ps2, EvolveMethod.tdvp_ps):
            for tau in (0.3, 2.0):
                psi = psi0.copy().scale(scale)
                v0 = np.asarray(S.dense(psi)).reshape(-1).astype(complex)
                psi.evolve_config = EvolveConfig(method)
                key = ("tiny", seed, scale, str(method), tau)
                rep = {"chain": f"{n} spins, full bond dimension", "scale": scale, "method": str(method), "tau": tau, "seed": seed}
                try:
                    out = psi.evolve(mpo, tau, normalize=False)
                    ref = scipy.linalg.expm(-1j * tau * H) @ v0
                    got = np.asarray(S.dense(out)).reshape(-1)
                    err = float(np.linalg.norm(got - ref) / np.linalg.norm(ref))
                    led.check(err <= 1e-6, "post:Mps.evolve:full_rank_exact_for_any_norm", "Mps.evolve",
                              f"{method}, state of norm {np.linalg.norm(v0):.1e}, tau={tau}: relative deviation from the dense propagator {err:.2e}", key, {"scale": scale}, rep)
                except Exception as e:
                    led.check(False, "post:Mps.evolve:tiny_norm_total", "Mps.evolve", f"raised {type(e).__name__}: {e}", key, {"scale": scale}, rep)


def check(run):
    seeds = [run.seed] if run.tier == "quick" else [run.seed, run.seed + 1, run.seed + 2]
    models = [("spinqn", 4), ("holstein", 4), ("spin", 3)] if run.tier == "quick" else [("spinqn", 4), ("spinqn", 5), ("holstein", 4), ("holstein", 5), ("spin", 3), ("spin2qn", 4)]
    cases = []
    for s in seeds:
        for name, n in models:
            for method in METHODS:
                cases.append(("accuracy", name, n, method, s, run.tier))
            for method in ("prop_and_compress", "prop_and_compress_tdrk", "tdvp_ps", "tdvp_mu_vmf"):
                cases.append(("adaptive", name, n, method, s, run.tier))
            cases.append(("conservation", name, n, s, run.tier))
            cases.append(("history", name, n, s, run.tier))
            for method in ("prop_and_compress", "tdvp_ps", "tdvp_mu_vmf"):
                cases.append(("mpdm", name, n, method, s, run.tier))
            for method in ("prop_and_compress_tdrk4", "prop_and_compress_tdrk", "tdvp_mu_vmf"):
                cases.append(("timedep", name, n, method, s, run.tier))
            for method in ("tdvp_vmf", "tdvp_mu_vmf"):
                cases.append(("vmf_rhs", name, n, method, s, run.tier))
        # complex Hermitian Hamiltonians (complex hopping amplitudes): every scheme against the dense propagator, and the density-operator form
        for name, n in ([("spinqn-flux", 4)] if run.tier == "quick" else [("spinqn-flux", 4), ("holstein-flux", 4)]):
            for method in METHODS:
                cases.append(("accuracy", name, n, method, s, run.tier))
            for method in ("prop_and_compress", "tdvp_ps"):
                cases.append(("mpdm", name, n, method, s, run.tier))
    run_cases(run, worker, cases)
    run_cases(run, w_tiny_norm, [("tiny", run.seed + i) for i in range(1 if run.tier == "quick" else 3)])
    from props import C09_sym
    guarded(run, C09_sym.prove)
    # TDVP-PS / PS2: every local problem handed to the local propagator is the integrator's (call by contract at expm_krylov / solve_ivp)
    from props import C09_tdvp_sym
    guarded(run, C09_tdvp_sym.prove, dts=(0.25, 0.0625))
    from props import C04_kernel
    guarded(run, C04_kernel.prove, only_updates=True)       # the renormalised-basis update of tdvp_ps2 (incl. the per-bond limit probe) in kernel-stub mode
    run.rule = ("models {spin+qn, electron-phonon, spin} with dense reference (dim <= 72/200) x 8 schemes x local solvers {krylov, RK45} x |H|dt in {0.1, 0.3, 1.0}; "
                "ten RK tableaux rotated over seeds; split U(t) vs U(t/2)U(t/2); adaptive vs exact; TDVP-PS at bond limits 1,2,3 over 3 steps (norm, energy, limit); "
                "random histories of 5 scheme switches; density-operator form; time-dependent H(t) for the RK schemes; the VMF right-hand side (func_vmf, captured through solve_ivp) vs the "
                "orthogonal tangent-space projection of -iH psi at bond limits 1,2,3, real / imaginary time, norm 1 and 0.6; distinct = (model, size, scheme, solver, |H|dt, clause)")
    run.sample({"model": "holstein", "nsites": 4, "method": "tdvp_ps", "ivp_solver": "RK45", "|H|dt": 1.0,
                "contract": "|psi - expm(-iHt) psi0| <= 40 n (ivp_rtol |psi| + ivp_atol)  (exactness of projector splitting at full bond dimension)"})
    run.explanation = ("Decided exactly (Engine S): one step of every propagation-and-compression scheme is its stage polynomial; TDVP-PS / PS2 pose exactly the local problems "
                       "of the projector-splitting integrator (call by contract at the local propagator). Bounded: every accuracy bound is derived from a theorem about the scheme (Taylor remainder, stage polynomial with the coefficients certified in C19, "
                       "exactness of PS/VMF on the full manifold, second order of CMF), not tuned; floating-point convergence cannot be proved by the VC generator.")
    run.trusted += ["scipy.linalg.expm on the dense Hamiltonian", "cited lemmas: Taylor remainder, exactness of the projector-splitting integrator at full rank, Butcher's theorem",
                    "cited lemma (Lubich-Oseledets 2014 / Haegeman et al. 2016): the composition of the exact flows of the projected one-site (two-site) problems forward and the "
                    "zero-site (one-site) problems backward, swept symmetrically with half steps, is a second-order integrator on the manifold and exact at full bond dimension; "
                    "Engine S decides that the code poses exactly these local problems, the kernels that solve them are C18's"]
