"""Engine S part of C08 (trees): the tree optimiser poses exactly the projected two-site eigenproblems (call by contract at the local eigensolver).

`renormalizer.tn.gs.eigh_iterative` (Davidson / ARPACK / PRIMME / dense - the kernels) is replaced by a recording stub that turns the matrix-free product it is handed
into a matrix, records it with the start vector, the preconditioner diagonal and the node tensors of the state at that moment, and returns an ARBITRARY vector
(fresh indeterminates) with a distinct energy.  The real optimize_ttns / optimize_recursion / optimize_2site / TTNS.update_2site / TTNEnviron.update_2site run end to
end on symbolic node tensors in kernel-stub mode, on every rooted ordered tree shape of the universe.  Obligations (exact polynomial identities):

  schedule      the recursion poses the two-site problem on the bond of every child - before AND after the child's own subtree when the child has children;
  matrix        the product handed to the eigensolver, as a matrix on the symmetry-allowed entries, equals the block of J^H H J on those entries, J the two-site
                frame map contracted independently (vk.specs.tree) from the node tensors held at that moment: the environments are those of the CURRENT state;
  start vector  the initial guess is the current two-site tensor and, together with the allowed entries, carries the whole current state (the mask drops nothing);
  continuity    every problem is posed in the state the update with the previous eigenvector produced; the state after the sweep is the last update;
  energies      the reported energy of a macro step is the eigensolver's energy of its last problem."""
import numpy as np

from vk.specs import tree as T
from vk.specs import treeuniv as TU
from vk.symx import shims as SH
from vk.symx.harness import decide, decide_true, native_pass
from vk.symx.poly import Poly, VarFactory
from props.C09_tdvp_sym import conj_arr, unit_vec, _obj
from props.C12_tdvp_sym import frame, local_shape_of, dense_of


class TreeSweepRecorder:
    def __init__(self, vf, work, real=None):
        self.vf, self.work, self.real, self.calls = vf, work, real, []

    @property
    def sym(self):
        return self.real is None

    def eigh_iterative(self, hop, hdiag, cguess, algo):
        from vk.symx.harness import budget_check
        budget_check()      # safe point: between two local problems
        n = len(cguess)
        cols = [np.asarray(_obj(hop(unit_vec(n, j, True))) if self.sym else hop(unit_vec(n, j, False))).ravel() for j in range(n)]
        amat = np.array(cols, dtype=object if self.sym else complex).T
        w = self.work
        snap = {"tensors": [(_obj(nd.tensor) if self.sym else np.asarray(nd.tensor)).copy() for nd in w.node_list], "coeff": w.coeff,
                "qn": [np.array(nd.qn).copy() for nd in w.node_list]}
        k = len(self.calls)
        if self.sym:
            e, c = float(k + 1) / 8.0, np.array([self.vf.fresh() for _ in range(n)], dtype=object)
        else:
            e, c = self.real(hop, hdiag, cguess, algo)
        self.calls.append({"A": amat, "hdiag": np.asarray(hdiag, dtype=object if self.sym else complex).copy(), "guess": np.asarray(cguess, dtype=object if self.sym else complex).copy(),
                           "snap": snap, "e": e, "c": np.asarray(c, dtype=object if self.sym else None).copy()})
        return e, c


def schedule(ttns, nmacro):
    idx = ttns.node_idx
    one = []

    def rec(x):
        for c in x.children:
            if c.children:
                one.append(idx[c])
                rec(c)
            one.append(idx[c])
    rec(ttns.root)
    return one * nmacro, len(one)


def allowed_positions(template, snap, i):
    """symmetry-allowed positions of the merged (node i, parent) tensor, from the node labels: independent re-statement of TTNS.get_qnmask"""
    x = template.copy()
    for nd, t, q in zip(x.node_list, snap["tensors"], snap["qn"]):
        nd.tensor = t
        nd.qn = q
    return np.asarray(x.get_qnmask(x.node_list[i], include_parent=True))


def execute(x, Hobj, procedure, rec):
    import renormalizer.tn.gs as tgs
    saved = tgs.eigh_iterative
    tgs.eigh_iterative = rec.eigh_iterative
    try:
        return tgs.optimize_ttns(x, Hobj, procedure)
    finally:
        tgs.eigh_iterative = saved


def clauses(rec, sched, per_macro, template, Hd, va, e_list, work, order, sym):
    cj = conj_arr if sym else np.conj
    yield ("schedule_two_site_problem_on_every_bond_around_every_subtree", "", len(rec.calls), len(sched), f"{len(rec.calls)} local eigenproblems posed, the recursion has {len(sched)}")
    prev_after, complete = va, True
    for k, (c, i) in enumerate(zip(rec.calls, sched)):
        ctag = f":problem{k}:bond_of_node{i}"
        try:
            shp = local_shape_of(template, c["snap"], "F2", i)
            mask = allowed_positions(template, c["snap"], i)
            Jfull = frame(template, c["snap"], "F2", i, shp, order, sym)
        except (ValueError, IndexError) as e:
            yield ("local_space", ctag, 0, 1, f"problem {k} does not fit the bond of node {i} in the state held at that moment ({e})")
            complete = False
            break
        if tuple(mask.shape) != tuple(shp) or int(mask.sum()) != len(c["guess"]):
            yield ("local_space", ctag, 0, 1, f"problem {k} has {len(c['guess'])} unknowns, the bond of node {i} has {int(mask.sum())} symmetry-allowed entries")
            complete = False
            break
        J = Jfull[:, mask.ravel()]
        ref = cj(J).T.dot(Hd.dot(J))
        if not sym:
            yield ("frames_are_orthonormal", ctag, cj(J).T.dot(J), np.eye(J.shape[1]) * abs(c["snap"]["coeff"]) ** 2, None)
        yield ("matrix_is_the_hamiltonian_projected_on_the_current_frames", ctag, c["A"], ref, None)
        # (the preconditioner diagonal `hdiag` is deliberately NOT under contract: it only steers the iterative solvers; a first version of this check demanded
        #  hdiag == diag(J^H H J) and fired on the unchanged tree - _get_hdiag traces the operator's bra index instead of fixing it for multi-level sites - which
        #  is a performance matter outside the property: any vector the solver returns gives a Rayleigh quotient)
        yield ("posed_in_the_state_the_previous_update_produced", ctag, J.dot(c["guess"]), prev_after, None)
        prev_after = J.dot(c["c"])
    if complete and len(rec.calls) == len(sched):
        want_e = [float(rec.calls[(m + 1) * per_macro - 1]["e"]) for m in range(len(sched) // per_macro)]
        yield ("macro_energies_are_the_eigensolvers_last", "", [float(e) for e in e_list], want_e, f"reported {list(e_list)}, eigensolver gave {want_e}")
        yield ("state_after_the_sweep_is_the_last_update", "", T.dense_ttns(work, order), prev_after, None)


def native_replay(a0c, H, Hn, procedure, order):
    def go():
        import renormalizer.tn.gs as tgs
        x = a0c.copy()
        x.optimize_config.algo = "direct"
        x.canonicalise()          # the optimiser expects a state that is canonical at the root
        rec = TreeSweepRecorder(None, x, real=tgs.eigh_iterative)
        va = T.dense_ttns(x, order)
        try:
            e_list = execute(x, H, procedure, rec)
        except Exception as e:
            return True, {"raised": repr(e)}
        sched, per = schedule(a0c, len(procedure))
        failed = []
        scale = max(1.0, float(np.abs(Hn).max()))
        for cl, ctag, lhs, rhs, msg in clauses(rec, sched, per, a0c, Hn, va, e_list, x, order, False):
            if msg is not None:
                if lhs != rhs and not (cl.startswith("macro_") and np.allclose(lhs, rhs)):
                    failed.append({"clause": cl + ctag, "what": msg})
                continue
            err = float(np.abs(np.asarray(lhs) - np.asarray(rhs)).max())
            if err > 1e-8 * scale:
                failed.append({"clause": cl + ctag, "max_abs_difference": err})
        return bool(failed), {"how": "props.C08_tree_sweep_sym.native_replay: same tree / state with random phases, real optimize_ttns (algo=direct) with the real kernels, "
                                     "every local eigenproblem recorded and compared with J^H H J from the dense TTNO", "failed_clauses": failed[:6]}
    return go


def worker(case, led):
    from vk.symx.harness import run_with_budget
    run_with_budget(case[4], _worker, case, led, list(case[:3]))


def _worker(case, led):
    seed, n_nodes, flavour, max_dim, _b = case
    su = TU.setup(seed, n_nodes, flavour, max_dim=max_dim)
    bt, order, H, Hn, sectors, rng = su["bt"], su["order"], su["H"], su["Hd"], su["sectors"], su["rng"]
    q = sectors[len(sectors) // 2]
    a0 = TU.random_ttns(bt, q, 2, rng)
    a0c = a0.to_complex()
    for node in a0c.node_list:
        t = np.asarray(node.tensor)
        node.tensor = t * np.exp(2j * np.pi * rng.random(t.shape))
    fn = "tn.gs.optimize_ttns"
    for procedure, plabel in (([[10 ** 4, 0]], "one macro step"), ([[10 ** 4, 0], [10 ** 4, 0]], "two macro steps")):
        tag = f"{flavour}:{su['shape']!r}:{plabel}"
        cs = dict(TU.describe_tree(bt), flavour=flavour, seed=seed, shape=repr(su["shape"]), sector=q, procedure=plabel)
        vf = VarFactory()
        a = SH.symbolic_ttns(a0, vf)
        Hs = SH.const_ttno(H)
        replay = native_replay(a0c, H, Hn, procedure, order)
        with SH.kernel_stub_mode_tree():
            Hd = T.dense_ttno(Hs, order)
            va = T.dense_ttns(a, order)
            x = a.copy()
            vf2 = VarFactory()
            vf2.n = 50000
            rec = TreeSweepRecorder(vf2, x)
            try:
                e_list = execute(x, Hs, procedure, rec)
            except Exception as e:
                decide_true(led, f"post:{fn}:total[{tag}]", fn, False, f"raised on symbolic tensors: {type(e).__name__}: {e}", cs, numeric_replay=replay)
                continue
            led.extra["ncalls"] = led.extra.get("ncalls", 0) + len(rec.calls)
            sched, per = schedule(a, len(procedure))
            for cl, ctag, lhs, rhs, msg in clauses(rec, sched, per, a, Hd, va, e_list, x, order, True):
                pre = "post:" + fn if cl.startswith(("macro_", "state_after")) else "pre:local_eigensolver"
                oid = f"{pre}:{cl}[{tag}{ctag}]"
                if msg is not None:
                    decide_true(led, oid, fn, lhs == rhs, msg, cs, numeric_replay=replay)
                else:
                    decide(led, oid, fn, lhs, rhs, cs, numeric_replay=replay)
            bad = T.qnv_tree_violations(x)
            decide_true(led, f"post:{fn}:qn_valid[{tag}]", fn, not bad, f"labels after the sweep invalid: {bad[:2]}", cs)
        native_pass(led, f"rtc:{fn}:local_problems_with_the_real_kernels_incl_orthonormal_frames", fn, replay, (tag,), cs)


def prove(run):
    from vk.symx.harness import pool_cases
    nmax = 3 if run.tier == "quick" else 4
    cases = []
    for n_nodes in range(2, nmax + 1):
        for flavour in ("spinqn", "holstein"):
            seen = set()
            shapes = T.tree_shapes(n_nodes)
            seed = run.seed * 1000 + 1300
            tries = 0
            max_dim = 40 if run.tier == "quick" else 64
            while len(seen) < len(shapes) and tries < 40 * len(shapes):
                tries += 1
                seed += 1
                su = TU.setup(seed, n_nodes, flavour, max_dim=max_dim)
                if su is None or su["shape"] in seen:
                    continue
                q = su["sectors"][len(su["sectors"]) // 2]
                if TU.random_ttns(su["bt"], q, 2, su["rng"]) is None:
                    continue
                seen.add(su["shape"])
                cases.append((seed, n_nodes, flavour, max_dim, 20 if run.tier == "quick" else 400))
    leds = pool_cases(run, worker, cases)
    run.extra.setdefault("symx", {})["C08_tree_sweep"] = {"trees": len(cases), "local_problems": sum(l.extra.get("ncalls", 0) for l in leds),
                                                          "cases_skipped_for_time": [c for l in leds for c in l.extra.get("skipped", [])],
                                                          "kernel_stubs": SH.KERNEL_STUBS, "shims": SH.TREE_SHIMS,
                                                          "local_eigensolver_stub": "tn.gs.eigh_iterative turns the matrix-free product into a matrix, records it with guess / diagonal / node "
                                                                                    "tensors and returns fresh indeterminates with energy (k+1)/8"}
    if not cases:
        run.crash("C08_tree_sweep_sym: no case generated")
